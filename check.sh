#!/bin/bash
# Entry point used by MANIFEST.json:  check.sh <ID> quick|thorough   |   check.sh <ID> --replay <file>
# Rebuilds the harness (and with it fatfs from /repo's current working tree, hooks enabled) and runs one property.
# Exit codes: 0 held, 1 violation (VIOLATION line on stdout), 2 machinery problem / inconclusive.
set -u
# a relative replay path is relative to the caller's directory
if [ "${2:-}" = "--replay" ] && [ -n "${3:-}" ] && [ "${3#/}" = "$3" ]; then
    set -- "$1" "$2" "$(pwd)/$3"
fi
cd "$(dirname "$0")/harness" || exit 2
export CARGO_NET_OFFLINE=true
LOG=$(mktemp /tmp/fv-build.XXXXXX)
if ! cargo build --release --offline >"$LOG" 2>&1; then
    echo "BUILD FAILED (harness or /repo does not compile with hooks on); see below" >&2
    tail -40 "$LOG" >&2
    rm -f "$LOG"
    exit 2
fi
if [ "${1:-}" = "C19" ] || [ "${1:-}" = "C17" ]; then
    # the same driver source against three fatfs feature sets
    for v in "alloc,unicode:A" "unicode:B" "alloc:C"; do
        if ! (cd ../featdrv && cargo build --release --offline --features "${v%%:*}" --target-dir "target/${v##*:}") >"$LOG" 2>&1; then
            echo "BUILD FAILED (featdrv ${v##*:}: fatfs does not compile with that feature set); see below" >&2
            tail -40 "$LOG" >&2
            rm -f "$LOG"
            exit 2
        fi
    done
fi
rm -f "$LOG"
exec ./target/release/fv "$@"
