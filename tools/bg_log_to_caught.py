#!/usr/bin/env python3
"""usage: tools/bg_log_to_caught.py <log of tools/seed_matrix_bg.sh> ...
Rewrites seeded/<id>/caught.txt from the verdict lines ("<id> <ID> exit=<code> ...") of background matrix runs: the
line of each (id, ID) pair found in the logs replaces the one recorded earlier; other lines are kept."""
import re, sys, os
res = {}
for f in sys.argv[1:]:
    for l in open(f, errors='replace'):
        m = re.match(r'^(c\d\d\w*) (C\d\d) (exit=\d+.*)$', l.rstrip())
        if m:
            res.setdefault(m.group(1), {})[m.group(2)] = m.group(3)
n = 0
for sid, d in res.items():
    p = f'/verif/seeded/{sid}/caught.txt'
    if not os.path.isdir(os.path.dirname(p)):
        continue
    old = {}
    if os.path.exists(p):
        for l in open(p, errors='replace'):
            m = re.match(r'^(C\d\d) (exit=.*)$', l.rstrip())
            if m:
                old[m.group(1)] = m.group(2)
    old.update(d)
    open(p, 'w').write(''.join(f'{k} {v}\n' for k, v in sorted(old.items())))
    n += 1
print(n, 'caught.txt files updated')
