#!/usr/bin/env python3
"""usage: tools/mk_seed_tasks.py <round-suffix> [ID ...]
Creates a scratch worktree /tmp/wt/<ID><suffix> of /repo HEAD for each property and writes TASK.md into it: the
property text (statement, quantifier, title) and the rules for a seeded change.  Nothing from /verif's checks goes in;
the only thing carried over is a one-line description of changes already seeded, so the new one is different."""
import json, os, subprocess, sys, glob
suffix = sys.argv[1]
ids = sys.argv[2:]
props = {json.loads(l)['id']: json.loads(l) for l in open('/verif/properties.jsonl')}
if not ids: ids = sorted(props)
for pid in ids:
    p = props[pid]
    wt = f"/tmp/wt/{pid}{suffix}"
    if not os.path.isdir(wt):
        subprocess.check_call(["git", "-C", "/repo", "worktree", "add", "--detach", wt, "HEAD"], stdout=subprocess.DEVNULL)
    prev = []
    for m in sorted(glob.glob(f"/verif/seeded/{pid.lower()}*/meta.json")):
        prev.append(json.load(open(m))['change'])
    prevtxt = "\n".join(f"  * {c}" for c in prev) or "  (none)"
    task = f"""# Task: seed a realistic, hard-to-notice defect into rust-fatfs that breaks one stated property

You work ONLY inside this directory: `{wt}` — a scratch git worktree of the rust-fatfs library (a no_std-capable Rust
library implementing FAT12/16/32: boot sector, FAT cluster chains, directories with long names, file I/O, formatting).
Do not read or write anything under `/repo` or `/verif`, and do not commit anything. Everything runs offline:
prefix cargo with `CARGO_NET_OFFLINE=true` and pass `--offline`; use `CARGO_TARGET_DIR={wt}/target`.
On the unmodified source `cargo test --offline --no-fail-fast` has 70 passing tests (+1 doc-test) and 20 failing ones that
fail for environmental reasons (resources/fat32.img is empty in this checkout, `fsck.vfat` is not installed, test_multi_thread):
that pass/fail set is the baseline.

## The property (the library is supposed to satisfy it; the current source does, as far as is known)

**{p['id']} — {p['title']}**

{p['statement']}

Quantified over: {p['quantifier']['text']}

## What to produce

Up to TWO different changes (call them `a` and `b`; one good one is better than two weak ones) to files under `src/` such that
with the change applied:
1. the crate still compiles — with default features, with `--no-default-features --features std,lfn,unicode`, with
   `--no-default-features --features std,alloc,lfn`, and with `RUSTFLAGS="--cfg rafalh_rust_fatfs_verif"` (default features);
2. the existing test suite behaves exactly as on the unmodified source (the same 70 tests + doc-test pass; do not edit tests);
3. the property above is violated for SOME input / history / configuration / fault position — and you can demonstrate it;
4. the violation needs something specific to manifest: a particular multi-step sequence of operations, an unusual input or
   geometry (sector/cluster size, FAT width, FAT count, mirroring, big volume ...), a fault or crash at a particular point, an
   exact boundary value, or two cooperating sites that each look fine alone. Ordinary use (create a file, write, read it
   back, list, remove) must NOT expose it at once. It should look like something a maintainer could plausibly write and a
   reviewer could plausibly wave through (an "optimisation", a refactoring slip, an off-by-one, a dropped `?`, a wrong
   mask, a reordered pair of writes, a stale cache ...), not like sabotage; keep it small.
   The two changes must differ from each other in mechanism and code site, and from these already-seeded ones:
{prevtxt}

For each change X in {{a, b}} write:
* `seeded/X/patch.diff` — `git diff -- src` of the change alone (must apply with `git apply` to the clean worktree);
* `seeded/X/demo.rs` — a self-contained integration test file (it will be copied to `tests/seeded_demo.rs`) that PASSES on the
  unmodified source and FAILS with the change. Use in-memory storage (`std::io::Cursor<Vec<u8>>` wrapped in
  `fatfs::StdIoWrapper`/`fscommon::BufStream` as the existing tests do, or your own `Read+Write+Seek` type for fault
  injection / write logging) and `fatfs::format_volume`, or build/patch raw image bytes yourself; do not depend on
  `resources/fat32.img`. Inspect raw image bytes where the property is about on-disk state.
* `seeded/X/notes.md` — what was changed and why it looks innocent, which part of the property breaks, exactly what is needed
  for it to manifest, and the commands you ran with their outcomes (build under the four configurations, the suite's pass/fail
  set with the change, the demo with and without the change).

Finish with `src/` and `tests/` restored to the unmodified state (`git checkout -- src`; remove `tests/seeded_demo.rs`), leaving
only the `seeded/` directory. In your final message give, per change, one line saying what it is and what it needs to manifest.
"""
    open(f"{wt}/TASK.md", "w").write(task)
    print(wt)
