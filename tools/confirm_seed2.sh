#!/bin/bash
# usage: tools/confirm_seed2.sh <worktree> <sub> <name>
#   e.g. tools/confirm_seed2.sh /tmp/wt/C05r2 a c05b
# Confirms an independently seeded change that a sub-agent left in <worktree>/seeded/<sub>/{patch.diff,demo.rs,notes.md}:
#   demo passes on the clean source; with the patch: crate builds under the four configurations the checks use, the
#   baseline tests still pass, the demo fails.  On success copies patch, demo and notes to /verif/seeded/<name>/.
set -u
WT=$1; SUB=$2; NAME=$3
S=$WT/seeded/$SUB
export CARGO_NET_OFFLINE=true CARGO_TARGET_DIR=$WT/target
cd "$WT" || exit 2
[ -f "$S/patch.diff" ] || { echo "no $S/patch.diff"; exit 2; }
git checkout -q -- src
cp -f "$S/demo.rs" tests/seeded_demo.rs
# a demo may name the feature set it has to be run under (changes that only exist in a non-default build)
DEMO_FLAGS=$(grep -m1 -o -- '--no-default-features --features [a-z,]*' "$S/demo.rs" || true)
# DEMO_FLAGS_OVERRIDE (may be empty = default features) wins over what the demo's comments mention first
if [ -n "${DEMO_FLAGS_OVERRIDE+x}" ]; then DEMO_FLAGS=$DEMO_FLAGS_OVERRIDE; fi
[ -n "$DEMO_FLAGS" ] && echo "demo runs with: $DEMO_FLAGS"
cargo test --offline $DEMO_FLAGS --test seeded_demo >/tmp/confirm_$NAME.clean 2>&1; clean_rc=$?
echo "== demo on clean source: rc=$clean_rc $(grep -E '^test result' /tmp/confirm_$NAME.clean | head -1)"
git apply "$S/patch.diff" || { echo "patch does not apply"; rm -f tests/seeded_demo.rs; exit 2; }
echo "== builds with the change"
b_ok=1
cargo build --offline >/dev/null 2>&1 || { echo "default build FAILED"; b_ok=0; }
cargo build --offline --no-default-features --features std,lfn,unicode >/dev/null 2>&1 || { echo "no-alloc build FAILED"; b_ok=0; }
cargo build --offline --no-default-features --features std,alloc,lfn >/dev/null 2>&1 || { echo "no-unicode build FAILED"; b_ok=0; }
RUSTFLAGS="--cfg rafalh_rust_fatfs_verif" cargo build --offline --target-dir $WT/target/hook >/dev/null 2>&1 || { echo "hook build FAILED"; b_ok=0; }
echo "builds ok=$b_ok"
echo "== suite with the change"
cargo test --offline --no-fail-fast 2>&1 | grep -E "^test .* ok$" | grep -v seeded_demo | sort > /tmp/confirm_$NAME.pass
python3 - "$NAME" <<'PY'
import json,sys,re
base=set(json.load(open('/root/.vp/BASELINE.json'))['stable_pass'])
got=set()
for l in open('/tmp/confirm_%s.pass'%sys.argv[1]):
    m=re.match(r'test (\S+)(?: - should panic)? \.\.\. ok',l)
    if m: got.add(m.group(1))
bs={b.split('::',2)[2] if b.count('::')>=2 else b for b in base}
missing=[b for b in bs if b not in got and not any(g.endswith(b) for g in got)]
print("baseline tests missing from the passing set:", missing)
open('/tmp/confirm_%s.missing'%sys.argv[1],'w').write(str(len(missing)))
PY
missing=$(cat /tmp/confirm_$NAME.missing)
cargo test --offline $DEMO_FLAGS --test seeded_demo >/tmp/confirm_$NAME.mut 2>&1; mut_rc=$?
echo "== demo with the change: rc=$mut_rc $(grep -E '^test result|^error' /tmp/confirm_$NAME.mut | head -2)"
git checkout -q -- src
rm -f tests/seeded_demo.rs
echo "clean_rc=$clean_rc (want 0) mutated_rc=$mut_rc (want != 0) builds=$b_ok missing=$missing"
if [ $clean_rc -eq 0 ] && [ $mut_rc -ne 0 ] && [ $b_ok -eq 1 ] && [ "$missing" = "0" ] && ! grep -q "could not compile" /tmp/confirm_$NAME.mut; then
    mkdir -p /verif/seeded/$NAME
    cp "$S/patch.diff" /verif/seeded/$NAME/patch.diff
    cp "$S/demo.rs" /verif/seeded/$NAME/demo.rs
    cp "$S/notes.md" /verif/seeded/$NAME/notes.md 2>/dev/null
    echo "CONFIRMED -> /verif/seeded/$NAME"
else
    echo "NOT CONFIRMED"
fi
rm -f /tmp/confirm_$NAME.*
