#!/bin/bash
# usage (from a vp run snapshot):  vp run --with-repo --timeout 8h -- tools/seed_matrix_bg.sh '<glob of seeded ids>' [extra IDs]
# Like seed_matrix.sh, but applies each seeded change to the snapshot of /repo ($VP_RUN_REPO) and runs the checks of this
# snapshot of /verif against it, so that work in /repo and /verif can go on meanwhile. Prints "<id> <ID> exit=<code> <verdict>".
set -u
PAT=$1; shift
HERE=$(pwd)
REPO=${VP_RUN_REPO:-/repo}
if [ "$REPO" != "/repo" ]; then
    sed -i "s|path = \"/repo\"|path = \"$REPO\"|" harness/Cargo.toml featdrv/Cargo.toml
fi
export VERIF_HOME=$HERE VERIF_SEED=${VERIF_SEED:-1}
for d in $(for p in $PAT; do ls -d seeded/$p; done | awk '!seen[$0]++'); do
    id=$(basename "$d")
    own=$(echo "$id" | cut -c1-3 | tr a-z A-Z)
    if ! git -C "$REPO" diff --quiet; then echo "$id: repo snapshot not clean"; git -C "$REPO" checkout -- .; fi
    if ! git -C "$REPO" apply "$HERE/$d/patch.diff"; then echo "$id: patch does not apply"; continue; fi
    for ID in $own "$@"; do
        OUT=$(mktemp -d /tmp/vout.XXXXXX)
        VERIF_OUT="$OUT" ./check.sh "$ID" quick > "$OUT/log" 2>&1
        code=$?
        line=$(grep -m1 "^VIOLATION" "$OUT/log" | sed 's/replay=[^ ]*//')
        msg=$(grep -A1 -m1 "^VIOLATION" "$OUT/log" | tail -1 | cut -c1-220)
        echo "$id $ID exit=$code ${line:+$line }${msg}"
        rm -rf "$OUT"
    done
    git -C "$REPO" checkout -- .
done
