#!/bin/bash
# usage (from a vp run snapshot):  vp run --with-repo --timeout 6h -- tools/bg_thorough.sh <tier> <seed> [ID ...]
# Runs the given tier of the listed checks (default: all) from THIS directory (a snapshot of /verif) against a snapshot
# of /repo ($VP_RUN_REPO) instead of /repo itself, so that mutants applied to /repo meanwhile do not leak in.
# Evidence and replays go to ./out. Prints one verdict line per check. These results are not evidence.
set -u
TIER=${1:-thorough}; SEED=${2:-1}; shift 2 || true
IDS=${*:-$(seq -f "C%02g" 1 20)}
HERE=$(pwd)
if [ -n "${VP_RUN_REPO:-}" ]; then
    sed -i "s|path = \"/repo\"|path = \"$VP_RUN_REPO\"|" harness/Cargo.toml featdrv/Cargo.toml
fi
export VERIF_HOME=$HERE VERIF_OUT=$HERE/out VERIF_SEED=$SEED
mkdir -p out
for id in $IDS; do
    s=$(date +%s)
    ./check.sh "$id" "$TIER" > "out/$id.log" 2>&1
    rc=$?
    e=$(date +%s)
    echo "$id rc=$rc t=$((e-s))s :: $(grep -v '^proptest' out/$id.log | tail -1 | cut -c1-300)"
    grep -A1 "^VIOLATION" "out/$id.log" | cut -c1-600
done
