#!/bin/bash
# usage: tools/confirm_seed.sh <ID> [name]  -- confirm an independently seeded change in its scratch worktree /tmp/wt/<ID>:
#   demo passes on the clean source; with the patch: crate builds, the 70 baseline tests still pass, demo fails.
# On success copies patch, demo and notes to /verif/seeded/<name>/ (default name = ID in lower case).
set -u
ID=$1; NAME=${2:-$(echo "$ID" | tr 'A-Z' 'a-z')}
WT=/tmp/wt/$ID
export CARGO_NET_OFFLINE=true CARGO_TARGET_DIR=$WT/target
cd "$WT" || exit 2
[ -f seeded/patch.diff ] || { echo "no seeded/patch.diff"; exit 2; }
git checkout -q -- src
cp -f seeded/demo.rs tests/seeded_demo.rs 2>/dev/null
echo "== demo on clean source"
cargo test --offline --test seeded_demo 2>&1 | grep -E "^test result|error" | head -3
clean_ok=$?
cargo test --offline --test seeded_demo >/dev/null 2>&1; clean_rc=$?
git apply seeded/patch.diff || { echo "patch does not apply"; exit 2; }
echo "== build with the change"
cargo build --offline 2>&1 | grep -E "^error|Finished" | head -3
echo "== suite with the change (passing tests, expected 70 + doctest)"
cargo test --offline --no-fail-fast 2>&1 | grep -E "^test .* ok$" | grep -v seeded_demo | sort > /tmp/confirm_$ID.pass
npass=$(grep -vc "seeded" /tmp/confirm_$ID.pass)
python3 - "$ID" <<'PY'
import json,sys,re
base=set(json.load(open('/root/.vp/BASELINE.json'))['stable_pass'])
got=set()
for l in open('/tmp/confirm_%s.pass'%sys.argv[1]):
    m=re.match(r'test (\S+)(?: - should panic)? \.\.\. ok',l)
    if m: got.add(m.group(1))
# baseline names are prefixed fatfs::<binary>::; compare by suffix
bs={b.split('::',2)[2] if b.count('::')>=2 else b for b in base}
missing=[b for b in bs if b not in got and not any(g.endswith(b) for g in got)]
print("baseline tests missing from the passing set:", missing)
PY
echo "passing lines: $npass"
echo "== demo with the change"
cargo test --offline --test seeded_demo 2>&1 | grep -E "^test result|error\[" | head -3
cargo test --offline --test seeded_demo >/dev/null 2>&1; mut_rc=$?
git checkout -q -- src
echo "clean_rc=$clean_rc (want 0) mutated_rc=$mut_rc (want != 0)"
if [ $clean_rc -eq 0 ] && [ $mut_rc -ne 0 ]; then
    mkdir -p /verif/seeded/$NAME
    cp seeded/patch.diff /verif/seeded/$NAME/patch.diff
    cp seeded/demo.rs /verif/seeded/$NAME/demo.rs
    cp seeded/notes.md /verif/seeded/$NAME/notes.md 2>/dev/null
    echo "CONFIRMED -> /verif/seeded/$NAME"
else
    echo "NOT CONFIRMED"
fi
