#!/bin/bash
# usage: tools/seed_matrix.sh <glob of seeded ids, e.g. 'c*r2*'> [extra IDs run against every change]
# For every seeded change: applies it to /repo, runs the quick check of its own property (from the directory name) and of
# the extra IDs, restores /repo, and writes seeded/<id>/caught.txt ("<ID> exit=<code> <first line of the verdict>").
set -u
cd /verif
PAT=$1; shift
for d in seeded/$PAT; do
    id=$(basename "$d")
    own=$(echo "$id" | cut -c1-3 | tr a-z A-Z)
    echo "== $id ($own $*)"
    tools/run_mutant.sh "$d/patch.diff" "$own" "$@" 2>&1 | cut -b1-400 | iconv -f utf-8 -t utf-8 -c | tee "$d/caught.txt"
done
