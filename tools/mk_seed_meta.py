#!/usr/bin/env python3
"""usage: tools/mk_seed_meta.py <descriptions.json> <round label>
Writes seeded/<id>/meta.json from the hand-written descriptions and the verdict line recorded by tools/seed_matrix.sh."""
import json, os, sys
M = json.load(open(sys.argv[1])); rnd = sys.argv[2]
for k, (prop, change, needs, hist) in M.items():
    d = f'/verif/seeded/{k}'
    caught = open(f'{d}/caught.txt', errors='replace').read().strip().splitlines()
    own = [l for l in caught if l.startswith(prop + ' ')]
    if not (own and 'exit=1' in own[0]):
        print('NOT caught by own check:', k)
    others = sorted({l.split()[0] for l in caught if 'exit=1' in l and not l.startswith(prop + ' ')})
    meta = {"id": k, "property": prop, "change": change, "needs_to_manifest": needs,
            "produced_by": f"fresh sub-agent ({rnd}) given only the property text, one-line descriptions of the changes seeded earlier for that property, and a scratch worktree under /tmp/wt",
            "confirmed": "tools/confirm_seed2.sh: demo passes on the clean source; with the patch the crate builds under default / no-alloc / no-unicode / hook configurations, the 70 baseline tests + doc-test pass, the demo fails",
            "caught_by": ([prop] if (own and "exit=1" in own[0]) else []) + others,
            "how_run": f"tools/run_mutant.sh seeded/{k}/patch.diff {prop}  (git -C /repo apply; ./check.sh {prop} quick with VERIF_OUT redirected; git -C /repo checkout -- .)",
            "result": own[0][:300], "history": hist}
    json.dump(meta, open(f'{d}/meta.json', 'w'), indent=1, ensure_ascii=False)
print(len(M), "meta files written")
