#!/usr/bin/env python3
"""usage: tools/seed_table.py <suffix, e.g. r2>  -- markdown table of the seeded changes of one round from their meta.json"""
import json, glob, sys
suf = sys.argv[1]
print("| seeded change | property | what it needs | caught by (quick tier) | note |")
print("|---|---|---|---|---|")
for m in sorted(glob.glob(f"/verif/seeded/c[0-9][0-9]{suf}*/meta.json")):
    d = json.load(open(m))
    esc = lambda t: t.replace("|", "\\|")
    print(f"| `seeded/{d['id']}` {esc(d['change'])} | {d['property']} | {esc(d['needs_to_manifest'])} | {', '.join(d['caught_by'])} | {esc(d['history'])} |")
