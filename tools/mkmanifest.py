#!/usr/bin/env python3
"""Regenerates /verif/MANIFEST.json from the table below (kept next to the checks so they stay in step)."""
import json, subprocess

ALL = ["C%02d" % i for i in range(1, 21)]

# id -> (category, technique, level text, level note, design_ref)
CHECKS = {
    "C01": ("exploration",
            "model-based property testing: proptest-generated operation histories run in lock-step against an in-memory reference tree, plus independent decode of the raw image after every call; proptest shrinking",
            "Generated-input search, no proof: random namespace histories (create/open/list/remove/rename over paths of depth <=3, up to 4 live file and 4 live directory handles) on generated volume configurations (FAT12/16/32 x sector 512..4096 x cluster 1..128 sectors x 1-2 FATs x small/large fixed roots x tiny free space). Every call's outcome must lie in the model's outcome set, and after every call the model tree must equal both the library's own recursive listing and an independent decode of the raw bytes.",
            "trusted: the reference model (outcome sets of DESIGN appendix B), refdec (independent FAT decoder), proptest; preconditions of DESIGN 4.3 (no rename/remove of objects with live handles, no '.'/'..' components); rename onto itself is a no-op",
            "DESIGN.md 5 C01"),
    "C02": ("exploration",
            "model-based property testing: proptest-generated seek/read/write/truncate/flush histories on 1-4 open files against a Vec<u8>+cursor model, boundary-biased offsets and lengths, read-back through fresh handles and an independent decode of the raw image",
            "Generated-input search: random file-I/O histories with offsets/lengths drawn from boundary sets around cluster edges, file size and 2^32, on cluster sizes 512 B..64 KiB and all FAT widths; every return value and every byte read must match the model; contents re-read through fresh handles, the library's listing and refdec at the end.",
            "trusted: the byte-array model, refdec, proptest; one handle per file at a time (documented precondition); files below a few clusters here, the 4 GiB end in C20",
            "DESIGN.md 5 C02"),
    "C03": ("exploration",
            "invariant checking over generated histories: refdec::fsck (independent FAT structural checker) on the raw image after every single call of proptest-generated namespace + file-I/O histories, including user errors and out-of-space on tiny volumes",
            "Generated-input search: the structural invariants of the property are evaluated on the raw bytes after every call (not only at the end) of random histories weighted towards tiny volumes (3..40 free clusters, 16-entry roots) and failing calls.",
            "trusted: refdec's transcription of the FAT specification (cross-checked against the library's formatter and the Linux-made images), proptest; file handles are flushed at the end of each mutating file call so deferred metadata is not mistaken for corruption",
            "DESIGN.md 5 C03"),
    "C04": ("exploration",
            "differential testing over generated histories: at generated checkpoints the session's own recursive listing is compared with (a) a second FileSystem::new on a copy of the bytes and (b) refdec's independent decode; extents read straight from the device",
            "Generated-input search with a differential oracle that does not depend on the reference model: histories with long-lived handles and unflushed writes, checkpoints at random positions, before/after unmount and at the end.",
            "trusted: refdec, the second mount being independent of in-memory session state, proptest",
            "DESIGN.md 5 C04"),
    "C05": ("exploration",
            "invariant checking over generated histories: stats() vs. zero entries counted by refdec in the raw FAT after every call / at random points, FS-info decoded after every unmount, independent space predictor for every out-of-space error, scripted fill/delete cycles",
            "Generated-input search: allocation-heavy random histories on volumes with 3..40 free clusters of every width (FAT32 with known / unknown / dirty-ignored FS-info count) plus scripted fill-to-full/delete-all cycles (6 quick, 200 thorough).",
            "trusted: refdec's FAT decoding and slot-run predictor, proptest; a count stored on a volume that was already dirty at mount and never recomputed by stats() is nobody's claim",
            "DESIGN.md 5 C05"),
    "C06": ("exploration",
            "property-based testing + bounded-exhaustive sweep: proptest-generated FormatVolumeOptions x boundary/random sizes really formatted on sparse devices and decoded by refdec + strict mount; every sector count swept through the guarded boot-sector hook against independent geometry rules (thorough: all 2^32-1 counts for default options)",
            "Generated-input search plus, in the thorough tier, complete enumeration of the total-sector range for default options (evidence marks that block exhaustive); quick tier: +-4096 windows around every power of two, all sizes up to 300000, a 2M-point stratified sample and strided sweeps for 4096-byte sectors, one FAT, each forced width and 4 KiB clusters.",
            "trusted: refdec's geometry rules, the boot-sector hook (cross-validated against sector 0 of every real format of the run), proptest",
            "DESIGN.md 5 C06"),
    "C07": ("exploration",
            "bounded-exhaustive + random input generation: every value of every 8/16-bit BPB field on five valid bases x strict/non-strict, boundary values of 32-bit fields and FS-info words, proptest-generated multi-field combinations and byte damage; oracle = no panic/overflow/budget overrun and agreement with an independent 64-bit parse",
            "Complete enumeration of single 8/16-bit field values (7.9 M mounts, marked exhaustive) plus generated 32-bit boundaries, 2-6 field combinations and random sectors; accepted volumes must satisfy the property's necessary conditions per refdec and agree on width, cluster size and cluster count.",
            "trusted: refdec::Geom::derive (u64 arithmetic), proptest; the library may reject more than the necessary conditions",
            "DESIGN.md 5 C07"),
    "C09": ("fault_enumeration",
            "exhaustive single-fault injection: every device-call position of each representative operation fails once with a tagged error on an instrumented device; oracle = the public call in progress returns Error::Io with that tag, within a device-call budget; random scripts enumerated the same way",
            "Fault enumeration: for each volume (FAT12/16/32, FAT32 with unknown FS-info count) x 26 representative operations, every k-th device call (read, write, seek, flush) of the operation fails once; sequences longer than the tier's cap (free-cluster recounts: two device calls per table entry) are enumerated at their first/last third of the cap and on a stride (evidence says which). Destructor-issued calls are exempt through the drop-depth hook.",
            "trusted: the instrumented device, the verif_drop_depth hook (guarded, add-only), single faults only",
            "DESIGN.md 5 C09"),
    "C10": ("exploration",
            "invariant checking over generated histories on imggen-built volumes: byte comparison of all FAT copies, reserved entries, padding entries and FAT32 high nibbles against the mount-time image after every call",
            "Generated-input search: random allocating/freeing histories on volumes with 1/2/3 FAT copies, mirroring on or off with each active copy (garbage in inactive ones), non-zero FAT32 reserved nibbles, garbage padding entries.",
            "trusted: refdec geometry, imggen (independent volume builder, cross-checked by mounting with the library in selftest), proptest",
            "DESIGN.md 5 C10"),
    "C11": ("exploration",
            "invariant checking over generated histories: every device write (offset,length) logged by the instrumented device is classified against refdec's region/ownership map before and after the call; canaries after the declared end and in unused reserved sectors",
            "Generated-input search: random histories on volumes embedded in a larger device with canary-filled reserved sectors; each write must fall in a region the current call may modify.",
            "trusted: refdec's ownership map, the device log, proptest; a dropped/replaced handle may write back its own entry",
            "DESIGN.md 5 C11"),
    "C12": ("exploration",
            "invariant checking over generated histories with every call boundary as abandonment point: independent structural diff against the mount-time image vs. on-disk status byte; copy-and-mount of the abandoned image; status byte after unmount()/drop",
            "Generated-input search: short random histories over every mutating call kind with initial status byte 0..3 on FAT12/16 (0x25) and FAT32 (0x41).",
            "trusted: refdec-based structural diff (timestamps, status byte, FS-info excluded), proptest",
            "DESIGN.md 5 C12"),
    "C13": ("exploration",
            "invariant checking over generated sessions: the instrumented device's write log over a proptest-generated read-only session (after a generated populating history) must be empty, with the single FS-info exception checked for location and content",
            "Generated-input search: populated volumes of every width (clean/dirty, FS-info count present/unknown) x random sequences of non-mutating calls incl. repeated unmount/drop + remount.",
            "trusted: the device write log, refdec geometry for the FS-info location, proptest; access-date updating disabled as the property states",
            "DESIGN.md 5 C13"),
    "C14": ("fault_enumeration",
            "crash-point enumeration over generated histories: the device records every write and flush; for every flush point every later prefix of the device-write sequence is materialised as a crash image, decoded independently (refdec) and remounted through the library",
            "Crash-point enumeration: all write-level prefixes after each flush point of each generated history (spans > 120 writes sampled), plus the flush-barrier condition (a device flush follows the last write of the flush call).",
            "crash model: prefix loss of device writes with flush barriers; no torn/reordered sectors; trusted: refdec, the device log, proptest",
            "DESIGN.md 5 C14"),
    "C15": ("exploration",
            "bounded-exhaustive + property-based input generation: every ASCII character, every BMP scalar in three positions, byte lengths 0..300, astral sample and proptest-generated strings through create_file/create_dir/rename on a fresh volume each; oracle = independent acceptance predicate, byte-identical image after rejection, unit-for-unit listing, fold-equality lookups incl. alias and near-misses",
            "Complete enumeration of the BMP (first/middle/last position) and of byte lengths 0..300 (blocks marked exhaustive) plus generated strings; folding oracle is std's char::to_uppercase, aliases are read by refdec.",
            "trusted: the acceptance predicate transcribed from the documented character set (U+FFFF excluded: padding value), refdec, std case mapping, proptest; '.'/'..' and '/' outside the domain",
            "DESIGN.md 5 C15"),
    "C16": ("exploration",
            "invariant checking over generated directory populations built to collide on both alias forms (same 6-char prefix; same 2-char prefix + same 16-bit hash found by search), with deletions; refdec checks uniqueness, 8.3 legality and slot checksums on the raw image after every step; device-call budget as termination oracle",
            "Generated-input search: scripted populations of 60..600 colliding names and proptest-generated populations (3000 quick / 80000 thorough) on FAT12/16/32.",
            "trusted: refdec's short-name legality table and checksum, proptest",
            "DESIGN.md 5 C16"),
    "C17": ("exploration",
            "bounded-exhaustive + random input generation over raw directory regions: all order/flag/checksum patterns of runs of 1..3 long-name slots x followers, every value of every byte of each slot of a valid run, proptest-generated slot soup; oracle = no panic / budget overrun, names <= 255 units, listing equals refdec's backwards run parser under at least one reading of the undefined bits",
            "Enumeration (blocks marked exhaustive where complete) plus generated soup on a fixed FAT12 root and a two-cluster chained directory; the fixed-buffer build is compared in C19.",
            "trusted: refdec's backwards long-name parser (formulation independent of the library's forward state machine), proptest",
            "DESIGN.md 5 C17"),
    "C18": ("exploration",
            "bounded-exhaustive round trip (all 47,616 dates; all 8.64 M times of day in the thorough tier) through set_*/drop/re-list/remount/raw words, plus model-based stamping checks on proptest-generated histories under a jumping harness clock",
            "Complete enumeration of the date domain in both tiers and of the 10 ms time-of-day domain in the thorough tier (quick: boundary grid + 200k random); stamping rules checked on generated histories with the access-date option on and off.",
            "trusted: own transcription of the DOS date/time bit layout (Ts::from_words), the stamping model, proptest; directories written into are exempt",
            "DESIGN.md 5 C18"),
    "C19": ("exploration",
            "differential testing across build configurations: proptest-generated histories and raw directory regions executed by one driver source compiled against fatfs with three feature sets; pairwise comparison of observation traces and final image hashes; ddmin shrinking of the op list",
            "Generated-input search: 40000 (quick) / 800000 (thorough) histories with names up to 258 characters from three alphabets, incl. the fixed-buffer half of C17 (raw long-name runs).",
            "trusted: the driver source being identical across builds, proptest; only the three listed feature sets",
            "DESIGN.md 5 C19"),
    "C20": ("exploration",
            "model-based + invariant checking on sparse simulated volumes: scripted and proptest-generated histories on 2 TiB / 16 TiB / maximum-cluster-count FAT32 volumes with the FS-info hint at, before and past the last cluster and pre-filled table windows; oracles = byte-array model, refdec fsck through a sparse FAT view, per-write region/ownership classification against independent 64-bit geometry, device high-water marks",
            "Generated-input search over large geometries (imggen-built and library-formatted), every hint/window configuration with a scripted 30-op history plus random short histories.",
            "trusted: refdec geometry (u64), sparse device (untouched bytes read as zero), proptest",
            "DESIGN.md 5 C20"),
}

PENDING_REASON = "check under construction in this session; not claimed yet (technique applies, see DESIGN.md)"

def main():
    hooks_commit = subprocess.run(["git", "-C", "/repo", "log", "--format=%H", "--grep=verif hooks", "-n", "5"], capture_output=True, text=True).stdout.split()
    checks = []
    for pid in ALL:
        if pid not in CHECKS:
            continue
        cat, tech, text, note, ref = CHECKS[pid]
        checks.append({
            "property_id": pid,
            "quick_cmd": "./check.sh %s quick" % pid,
            "thorough_cmd": "./check.sh %s thorough" % pid,
            "evidence_file": "/verif/evidence/%s.json" % pid,
            "replay_cmd_template": "./check.sh %s --replay {path}" % pid,
            "engine": "fv",
            "level_claimed": {"category": cat, "text": text, "design_ref": ref},
            "level_note": note,
            "technique": tech,
        })
    m = {
        "version": 1,
        "setup_cmd": "./setup.sh",
        "hooks": {
            "guard": "rafalh_rust_fatfs_verif",
            "enable": "rustc --cfg rafalh_rust_fatfs_verif, set through /verif/harness/.cargo/config.toml [build] rustflags (the harness depends on fatfs by path = /repo, so every check rebuilds /repo's working tree with the hooks on)",
            "baseline_off_cmd": "cd /repo && cargo test --workspace --no-fail-fast --offline",
            "source_commits": hooks_commit,
            "add_only": True,
        },
        "engines": [
            {"name": "fv", "path": "/verif/harness", "serves_properties": sorted(CHECKS.keys()),
             "kind_free_text": "Rust harness: proptest strategies + bounded-exhaustive enumerators driving the real fatfs crate on an instrumented in-memory device, with an independent FAT decoder (refdec) and an in-memory reference model as oracles"},
        ],
        "checks": checks,
        "not_applicable": [{"property_id": p, "reason": PENDING_REASON} for p in ALL if p not in CHECKS],
        "notes": "All checks: exit 0 = held on everything explored, exit 1 + 'VIOLATION property=<id> replay=<path>' = violation, exit 2 = machinery problem. VERIF_SEED selects the PRNG stream. Known findings: /verif/known_findings.json (KNOWN-FINDING lines).",
    }
    json.dump(m, open("/verif/MANIFEST.json", "w"), indent=1)
    print("wrote MANIFEST.json with", len(checks), "checks")

main()
