#!/usr/bin/env python3
"""Regenerates /verif/MANIFEST.json from the table below (kept next to the checks so they stay in step)."""
import json, subprocess

ALL = ["C%02d" % i for i in range(1, 21)]

# id -> (category, technique, level text, level note, design_ref)
CHECKS = {
    "C01": ("exploration",
            "model-based property testing: proptest-generated operation histories run in lock-step against an in-memory reference tree, plus independent decode of the raw image after every call; proptest shrinking",
            "Generated-input search, no proof: random namespace histories (create/open/list/remove/rename over paths of depth <=3, up to 4 live file and 4 live directory handles) on generated volume configurations (FAT12/16/32 x sector 512..4096 x cluster 1..128 sectors x 1-2 FATs x small/large fixed roots x tiny free space). Every call's outcome must lie in the model's outcome set, and after every call the model tree must equal both the library's own recursive listing and an independent decode of the raw bytes.",
            "trusted: the reference model (outcome sets of DESIGN appendix B), refdec (independent FAT decoder), proptest; preconditions of DESIGN 4.3 (no rename/remove of objects with live handles, no '.'/'..' components); rename onto itself is a no-op",
            "DESIGN.md 5 C01"),
}

PENDING_REASON = "check under construction in this session; not claimed yet (technique applies, see DESIGN.md)"

def main():
    hooks_commit = subprocess.run(["git", "-C", "/repo", "log", "--format=%H", "--grep=verif hooks", "-n", "5"], capture_output=True, text=True).stdout.split()
    checks = []
    for pid in ALL:
        if pid not in CHECKS:
            continue
        cat, tech, text, note, ref = CHECKS[pid]
        checks.append({
            "property_id": pid,
            "quick_cmd": "./check.sh %s quick" % pid,
            "thorough_cmd": "./check.sh %s thorough" % pid,
            "evidence_file": "/verif/evidence/%s.json" % pid,
            "replay_cmd_template": "./check.sh %s --replay {path}" % pid,
            "engine": "fv",
            "level_claimed": {"category": cat, "text": text, "design_ref": ref},
            "level_note": note,
            "technique": tech,
        })
    m = {
        "version": 1,
        "setup_cmd": "./setup.sh",
        "hooks": {
            "guard": "rafalh_rust_fatfs_verif",
            "enable": "rustc --cfg rafalh_rust_fatfs_verif, set through /verif/harness/.cargo/config.toml [build] rustflags (the harness depends on fatfs by path = /repo, so every check rebuilds /repo's working tree with the hooks on)",
            "baseline_off_cmd": "cd /repo && cargo test --workspace --no-fail-fast --offline",
            "source_commits": hooks_commit,
            "add_only": True,
        },
        "engines": [
            {"name": "fv", "path": "/verif/harness", "serves_properties": sorted(CHECKS.keys()),
             "kind_free_text": "Rust harness: proptest strategies + bounded-exhaustive enumerators driving the real fatfs crate on an instrumented in-memory device, with an independent FAT decoder (refdec) and an in-memory reference model as oracles"},
        ],
        "checks": checks,
        "not_applicable": [{"property_id": p, "reason": PENDING_REASON} for p in ALL if p not in CHECKS],
        "notes": "All checks: exit 0 = held on everything explored, exit 1 + 'VIOLATION property=<id> replay=<path>' = violation, exit 2 = machinery problem. VERIF_SEED selects the PRNG stream. Known findings: /verif/known_findings.json (KNOWN-FINDING lines).",
    }
    json.dump(m, open("/verif/MANIFEST.json", "w"), indent=1)
    print("wrote MANIFEST.json with", len(checks), "checks")

main()
