#!/usr/bin/env python3
"""Regenerates /verif/MANIFEST.json from the table below (kept next to the checks so they stay in step)."""
import json, subprocess

ALL = ["C%02d" % i for i in range(1, 21)]

# id -> (category, technique, level text, level note, design_ref)
CHECKS = {
    "C01": ("exploration",
            "model-based property testing: proptest-generated operation histories run in lock-step against an in-memory reference tree, plus independent decode of the raw image after every call; proptest shrinking",
            "Bounded-exhaustive core (every sequence of <= 3 quick / <= 4 thorough ops over a 20-instance alphabet on FAT12/16/32, marked exhaustive in the evidence) plus generated-input search: directory-pressure histories (one directory filled, emptied and grown: full fixed roots, directory growth, out-of-space) and random namespace histories (create/open/list/remove/rename over paths of depth <=3, up to 4 live file and 4 live directory handles) on generated volume configurations (FAT12/16/32 x sector 512..4096 x cluster 1..128 sectors x 1-2 FATs x small/large fixed roots x tiny free space x cluster counts on the FAT-width limits x storage that makes short transfers). Every call's outcome must lie in the model's outcome set, and after every call the model tree must equal both the library's own recursive listing and an independent decode of the raw bytes.",
            "trusted: the reference model (outcome sets of DESIGN appendix B), refdec (independent FAT decoder), proptest; preconditions of DESIGN 4.3 (no rename/remove of objects with live handles, no '.'/'..' components); rename onto itself is a no-op",
            "DESIGN.md 5 C01"),
    "C02": ("exploration",
            "model-based property testing: proptest-generated seek/read/write/truncate/flush histories on 1-4 open files against a Vec<u8>+cursor model, boundary-biased offsets and lengths, read-back through fresh handles and an independent decode of the raw image",
            "Bounded-exhaustive boundary block (initial length x seek target x read/write/truncate x length over the cluster-boundary set, marked exhaustive) plus generated-input search: random file-I/O histories with offsets/lengths drawn from boundary sets around cluster edges, file size and 2^32, on cluster sizes 512 B..64 KiB and all FAT widths; every return value and every byte read must match the model; contents re-read through fresh handles, the library's listing and refdec at the end.",
            "trusted: the byte-array model, refdec, proptest; one handle per file at a time (documented precondition); files below a few clusters here, the 4 GiB end in C20",
            "DESIGN.md 5 C02"),
    "C03": ("exploration",
            "invariant checking over generated histories: refdec::fsck (independent FAT structural checker) on the raw image after every single call of proptest-generated namespace + file-I/O histories, including user errors and out-of-space on tiny volumes",
            "Generated-input search: the structural invariants of the property are evaluated on the raw bytes after every call (not only at the end) of random histories weighted towards tiny volumes (3..40 free clusters, 16-entry roots) and failing calls, plus directory-pressure histories (full fixed roots, directory growth with no free cluster, re-created names), volumes whose cluster count sits on a FAT-width limit and storage that makes short transfers.",
            "trusted: refdec's transcription of the FAT specification (cross-checked against the library's formatter and the Linux-made images), proptest; file handles are flushed at the end of each mutating file call so deferred metadata is not mistaken for corruption",
            "DESIGN.md 5 C03"),
    "C04": ("exploration",
            "differential testing over generated histories: at generated checkpoints the session's own recursive listing is compared with (a) a second FileSystem::new on a copy of the bytes and (b) refdec's independent decode; extents read straight from the device",
            "Generated-input search with a differential oracle that does not depend on the reference model: histories with long-lived handles and unflushed writes, checkpoints at random positions, before/after unmount and at the end.",
            "trusted: refdec, the second mount being independent of in-memory session state, proptest",
            "DESIGN.md 5 C04"),
    "C05": ("exploration",
            "invariant checking over generated histories: stats() vs. zero entries counted by refdec in the raw FAT after every call / at random points, FS-info decoded after every unmount, independent space predictor for every out-of-space error, scripted fill/delete cycles",
            "Generated-input search: allocation-heavy random histories on volumes with 3..40 free clusters of every width (FAT32 with known / unknown / dirty-ignored FS-info count) plus scripted fill-to-full/delete-all cycles (6 quick, 200 thorough), directory-pressure histories, and a power cut at every prefix of the device writes of every unmount (the next session's stats() must equal the table).",
            "trusted: refdec's FAT decoding and slot-run predictor, proptest; a count stored on a volume that was already dirty at mount and never recomputed by stats() is nobody's claim",
            "DESIGN.md 5 C05"),
    "C06": ("exploration",
            "property-based testing + bounded-exhaustive sweep: proptest-generated FormatVolumeOptions x boundary/random sizes really formatted on sparse devices (two in three holding stale bytes, one in five making short transfers) and decoded by refdec + strict mount; sizes taken from the storage at the 42-sector and 2^32-1-sector boundaries; every sector count swept through the guarded boot-sector hook against independent geometry rules (thorough: all 2^32-1 counts for default options)",
            "Generated-input search plus, in the thorough tier, complete enumeration of the total-sector range for default options (evidence marks that block exhaustive); quick tier: +-4096 windows around every power of two, all sizes up to 300000, a 2M-point stratified sample and strided sweeps for 4096-byte sectors, one FAT, each forced width and 4 KiB clusters.",
            "trusted: refdec's geometry rules, the boot-sector hook (cross-validated against sector 0 of every real format of the run), proptest",
            "DESIGN.md 5 C06"),
    "C07": ("exploration",
            "bounded-exhaustive + random input generation: every value of every 8/16-bit BPB field on five valid bases x strict/non-strict, boundary values of 32-bit fields and FS-info words, proptest-generated multi-field combinations and byte damage; oracle = no panic/overflow/budget overrun and agreement with an independent 64-bit parse",
            "Complete enumeration of single 8/16-bit field values (7.9 M mounts, marked exhaustive) plus generated 32-bit boundaries, 2-6 field combinations and random sectors; accepted volumes must satisfy the property's necessary conditions per refdec (incl. an active FAT copy that exists when mirroring is off) and agree on width, cluster size and cluster count; one mount in four reads through a short-transfer storage.",
            "trusted: refdec::Geom::derive (u64 arithmetic), proptest; the library may reject more than the necessary conditions",
            "DESIGN.md 5 C07"),
    "C09": ("fault_enumeration",
            "exhaustive single-fault injection: every device-call position of each representative operation fails once with a tagged error on an instrumented device; oracle = the public call in progress returns Error::Io with that tag, within a device-call budget; the same enumeration on a std::io storage behind StdIoWrapper with every std::io::ErrorKind except Interrupted; random scripts enumerated the same way",
            "Fault enumeration: for each volume (FAT12/16/32, FAT32 with unknown FS-info count) x 34 representative operations (incl. eight that make a directory grow: exactly full directory, one free slot, FAT32 root on a cluster boundary), every k-th device call (read, write, seek, flush) of the operation fails once; sequences longer than the tier's cap (free-cluster recounts: two device calls per table entry) are enumerated at their first/last third of the cap and on a stride (evidence says which). Destructor-issued calls are exempt through the drop-depth hook. A second block repeats the enumeration for twelve operations on a std::io storage, the injected std::io::Error carrying each of eleven kinds; one volume makes short transfers.",
            "trusted: the instrumented device, the verif_drop_depth hook (guarded, add-only), single faults only",
            "DESIGN.md 5 C09"),
    "C10": ("exploration",
            "invariant checking over generated histories on imggen-built volumes: byte comparison of all FAT copies, reserved entries, padding entries and FAT32 high nibbles against the mount-time image after every call",
            "Generated-input search: random allocating/freeing histories on volumes with 1/2/3 FAT copies, mirroring on or off with each active copy (garbage in inactive ones), non-zero FAT32 reserved nibbles, garbage padding entries, a stray active-copy nibble with mirroring on; plus directory-pressure histories.",
            "trusted: refdec geometry, imggen (independent volume builder, cross-checked by mounting with the library in selftest), proptest",
            "DESIGN.md 5 C10"),
    "C11": ("exploration",
            "invariant checking over generated histories: every device write (offset,length) logged by the instrumented device is classified against refdec's region/ownership map before and after the call; canaries after the declared end and in unused reserved sectors",
            "Generated-input search: random histories on volumes embedded in a larger device with canary-filled reserved sectors; each write must fall in a region the current call may modify; plus directory-pressure histories and a scripted history on sparse 4 GiB..2 TiB volumes whose clusters aliasing the last clusters modulo 2^32 are pre-marked BAD (a wrapped offset lands in a cluster that is neither free nor the writer's).",
            "trusted: refdec's ownership map, the device log, proptest; a dropped/replaced handle may write back its own entry",
            "DESIGN.md 5 C11"),
    "C12": ("exploration",
            "invariant checking over generated histories with every call boundary as abandonment point: independent structural diff against the mount-time image vs. on-disk status byte; copy-and-mount of the abandoned image; status byte after unmount()/drop",
            "Generated-input search: short random histories over every mutating call kind with initial status byte 0..3 on FAT12/16 (0x25) and FAT32 (0x41), volumes whose table entry 1 carries cleared shutdown / error bits; 24 scripted first mutations of a fresh session; the same scripts with a transient storage fault at EVERY device call of the first mutation followed by a second mutation (a faulted call that reports success is judged like any other; one that reports the error is judged too unless the failing device call was the marking of the status byte itself), also on storage that makes short transfers.",
            "trusted: refdec-based structural diff (timestamps, status byte, FS-info excluded), proptest",
            "DESIGN.md 5 C12"),
    "C13": ("exploration",
            "invariant checking over generated sessions: the instrumented device's write log over a proptest-generated read-only session (after a generated populating history) must be empty, with the single FS-info exception checked for location and content",
            "Generated-input search: populated volumes of every width (clean/dirty, FS-info count present/unknown) x random sequences of non-mutating calls incl. repeated unmount/drop + remount; FS-info count / hint out of range, table entry 1 with cleared flag bits, options built in every setter order, sessions two days after the volume was written, storage that makes short transfers.",
            "trusted: the device write log, refdec geometry for the FS-info location, proptest; access-date updating disabled as the property states",
            "DESIGN.md 5 C13"),
    "C14": ("fault_enumeration",
            "crash-point enumeration over generated histories: the device records every write and flush; for every flush point every later prefix of the device-write sequence is materialised as a crash image, decoded independently (refdec) and remounted through the library",
            "Crash-point enumeration: all write-level prefixes after each flush point of each generated history (spans > 120 writes sampled), plus the flush-barrier condition (a device flush follows the last write of the flush call), plus a transient fault at every device call of the first explicit flush of a history followed by a retry of that flush.",
            "crash model: prefix loss of device writes with flush barriers; no torn/reordered sectors; trusted: refdec, the device log, proptest",
            "DESIGN.md 5 C14"),
    "C15": ("exploration",
            "bounded-exhaustive + property-based input generation: every ASCII character, every BMP scalar in three positions, byte lengths 0..300, astral sample and proptest-generated strings through create_file/create_dir/rename on a fresh volume each; oracle = independent acceptance predicate, byte-identical image after rejection, unit-for-unit listing, fold-equality lookups incl. alias and near-misses",
            "Complete enumeration of the BMP (first/middle/last position) and of byte lengths 0..300 (blocks marked exhaustive) plus generated strings; folding oracle is std's char::to_uppercase, aliases are read by refdec. Every rejected name of a fixed list additionally goes through nine entry-creating call shapes (create in a subdirectory, rename, file and directory moves in every direction) with a byte-identical image as oracle.",
            "trusted: the acceptance predicate transcribed from the documented character set (U+FFFF excluded: padding value), refdec, std case mapping, proptest; '.'/'..' and '/' outside the domain",
            "DESIGN.md 5 C15"),
    "C16": ("exploration",
            "invariant checking over generated directory populations built to collide on both alias forms (same 6-char prefix; same 2-char prefix + same 16-bit hash found by search), with deletions; refdec checks uniqueness, 8.3 legality and slot checksums on the raw image after every step; device-call budget as termination oracle",
            "Generated-input search: scripted populations of 60..600 colliding names and proptest-generated populations (3000 quick / 80000 thorough) on FAT12/16/32.",
            "trusted: refdec's short-name legality table and checksum, proptest",
            "DESIGN.md 5 C16"),
    "C17": ("exploration",
            "bounded-exhaustive + random input generation over raw directory regions: all order/flag/checksum patterns of runs of 1..3 long-name slots x followers, every value of every byte of each slot of a valid run, proptest-generated slot soup; oracle = no panic / budget overrun, names <= 255 units, listing equals refdec's backwards run parser under at least one reading of the undefined bits",
            "Enumeration (blocks marked exhaustive where complete) plus generated soup on a fixed FAT12 root and a two-cluster chained directory (default build, in-process, against the independent parser); block D feeds the order patterns and the soup to the build with the fixed long-name buffer through featdrv and compares its listing with the default build's.",
            "trusted: refdec's backwards long-name parser (formulation independent of the library's forward state machine), proptest",
            "DESIGN.md 5 C17"),
    "C18": ("exploration",
            "bounded-exhaustive round trip (all 47,616 dates; all 8.64 M times of day in the thorough tier) through set_*/drop/re-list/remount/raw words, plus model-based stamping checks on proptest-generated histories under a jumping harness clock",
            "Complete enumeration of the date domain in both tiers and of the 10 ms time-of-day domain in the thorough tier (quick: boundary grid + 200k random); stamping rules checked on generated histories with the access-date option on and off, once with a flush after every call and once with the library's deferred write-back left alone (several writes / clock jumps / set_* through one handle).",
            "trusted: own transcription of the DOS date/time bit layout (Ts::from_words), the stamping model, proptest; directories written into are exempt",
            "DESIGN.md 5 C18"),
    "C19": ("exploration",
            "differential testing across build configurations: proptest-generated histories and raw directory regions executed by one driver source compiled against fatfs with three feature sets; pairwise comparison of observation traces and final image hashes; ddmin shrinking of the op list",
            "Generated-input search: 40000 (quick) / 800000 (thorough) histories with names up to 258 characters from three alphabets, incl. raw root-directory regions (C17's slot soup and order patterns, mixed-case short-name-only entries) followed by lookups of the raw entries.",
            "trusted: the driver source being identical across builds, proptest; only the three listed feature sets",
            "DESIGN.md 5 C19"),
    "C20": ("exploration",
            "model-based + invariant checking on sparse simulated volumes: scripted and proptest-generated histories on 2 TiB / 16 TiB / maximum-cluster-count FAT32 volumes with the FS-info hint at, before and past the last cluster and pre-filled table windows; oracles = byte-array model, refdec fsck through a sparse FAT view, per-write region/ownership classification against independent 64-bit geometry, device high-water marks",
            "Generated-input search over large geometries (imggen-built and library-formatted), every hint/window configuration (hint at, 1, 40, 127..1000 clusters before and 1 past the last cluster; fully used tails) with a scripted 47-op history (incl. emptying and refilling a file that starts in a high cluster) plus random short histories.",
            "trusted: refdec geometry (u64), sparse device (untouched bytes read as zero), proptest",
            "DESIGN.md 5 C20"),
    "C08": ("exploration",
            "differential testing against generator ground truth: proptest-driven spec-level image builder (imggen, independent of the library's writer, confirmed by refdec on every image) x library read-back; then one library mutation followed by refdec validity, expected-tree read-back and a byte-level raw diff classified against the ownership map",
            "Generated-input search over 31 geometries (incl. cluster counts on the FAT-width limits, a stray active-copy nibble with mirroring on, table entry 1 with cleared flag bits) and 14 named encoding freedoms (12000 quick / 120000 thorough images), one storage in four making short transfers, each image read completely through the library (random chunk sizes) and then modified once.",
            "trusted: imggen + refdec (two independent transcriptions of the specification that must agree on every image before the library is consulted), proptest; valid volumes only",
            "DESIGN.md 5 C08"),
}

PENDING_REASON = "check under construction in this session; not claimed yet (technique applies, see DESIGN.md)"

# sentences appended to the level text (round 6 additions, DESIGN 10.5b)
ADDED = {
    "C01": " A third of the sessions keep access dates. Every alias the library makes up must be the name itself in upper case or a numbered form, otherwise two names of the tree collide through it.",
    "C02": " Flushes hit by a transient fault and repeated by the caller (Op::FlushRetry) are followed by the ordinary comparison after close.",
    "C03": " A third of the sessions keep access dates (reads, listings and path walks then rewrite directory entries).",
    "C05": " A third of the sessions keep access dates.",
    "C06": " The options are built under the panic guard, in both orders of the sector-size and cluster-size setters.",
    "C08": " The FAT32 FS-info free count may be stale (0, half, one less, more than the table has); long names may have aliases stored with the 0x05 lead byte.",
    "C09": " Further targets: reads with the access-date option on, and create / mkdir / move / append on a volume without a free cluster (out-of-space clean-up paths); the full and almost-full directory shapes are confirmed by refdec before the enumeration.",
    "C10": " Plus a transient fault (hard error or the retryable 'interrupted' condition) at every device call of 24 scripted operations on volumes with two and three mirrored copies: a call that reports success although the fault fired inside it is held to the same byte comparison.",
    "C13": " A third of the sessions run again in a process whose logger accepts every level (arguments of all log statements evaluated).",
    "C14": " Flushes repeated after a transient fault are flush points too; a creation time set through the flushed handle is compared in every crash image.",
    "C17": " Block B2: lead byte 0x05 / 0xE5 / 0x85 / a letter of the short entry x every checksum value carried by the run.",
    "C19": " A fourth name class (characters with case mappings, incl. sharp s / ligatures / dotless i, exact names only, no case variants in one history) is compared across the unicode and no-unicode builds as well.",
    "C20": " The next-free hint is modelled and every newly allocated cluster must be the first free one a search from it reaches (wrapping); a completely taken 4 GiB volume leaves the only free clusters just below, at, far below or behind the hint.",
}

def main():
    hooks_commit = subprocess.run(["git", "-C", "/repo", "log", "--format=%H", "--grep=verif hooks", "-n", "5"], capture_output=True, text=True).stdout.split()
    checks = []
    for pid in ALL:
        if pid not in CHECKS:
            continue
        cat, tech, text, note, ref = CHECKS[pid]
        checks.append({
            "property_id": pid,
            "quick_cmd": "./check.sh %s quick" % pid,
            "thorough_cmd": "./check.sh %s thorough" % pid,
            "evidence_file": "/verif/evidence/%s.json" % pid,
            "replay_cmd_template": "./check.sh %s --replay {path}" % pid,
            "engine": "fv",
            "level_claimed": {"category": cat, "text": text + ADDED.get(pid, ""), "design_ref": ref},
            "level_note": note,
            "technique": tech,
        })
    m = {
        "version": 1,
        "setup_cmd": "./setup.sh",
        "hooks": {
            "guard": "rafalh_rust_fatfs_verif",
            "enable": "rustc --cfg rafalh_rust_fatfs_verif, set through /verif/harness/.cargo/config.toml [build] rustflags (the harness depends on fatfs by path = /repo, so every check rebuilds /repo's working tree with the hooks on)",
            "baseline_off_cmd": "cd /repo && cargo test --workspace --no-fail-fast --offline",
            "source_commits": hooks_commit,
            "add_only": True,
        },
        "engines": [
            {"name": "fv", "path": "/verif/harness", "serves_properties": sorted(CHECKS.keys()),
             "kind_free_text": "Rust harness: proptest strategies + bounded-exhaustive enumerators driving the real fatfs crate on an instrumented in-memory device, with an independent FAT decoder (refdec) and an in-memory reference model as oracles"},
        ],
        "checks": checks,
        "not_applicable": [{"property_id": p, "reason": PENDING_REASON} for p in ALL if p not in CHECKS],
        "notes": "All checks: exit 0 = held on everything explored, exit 1 + 'VIOLATION property=<id> replay=<path>' = violation, exit 2 = machinery problem. VERIF_SEED selects the PRNG stream. Known findings: /verif/known_findings.json (none open at present; fixed: D1-D26; fixed entries with their regression cases). Seeded changes and which check catches them: /verif/seeded/*/meta.json, DESIGN.md 10.6.",
    }
    json.dump(m, open("/verif/MANIFEST.json", "w"), indent=1)
    print("wrote MANIFEST.json with", len(checks), "checks")

main()
