#!/bin/bash
# usage: tools/silence.sh <first seed> <last seed> [tier]   -- every check on the unchanged tree for a range of seeds;
# prints only checks that do not end in "held". Evidence/replays go to a scratch directory.
OUT=$(mktemp -d /tmp/silence.XXXXXX)
for s in $(seq "$1" "$2"); do
  for i in $(seq -w 1 20); do
    VERIF_OUT=$OUT VERIF_SEED=$s /verif/check.sh C$i "${3:-quick}" 2>&1 | grep -v "^proptest\|KNOWN" | tail -2 | grep -B1 -v "held$" | head -4
  done
  echo "seed $s done"
done
rm -rf "$OUT"
