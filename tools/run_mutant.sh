#!/bin/bash
# usage: tools/run_mutant.sh <patch.diff> <ID> [<ID> ...]
# Applies a seeded change to /repo, runs the quick check of each listed property with evidence and replay files
# redirected to a scratch directory, and restores /repo. Prints one line per property: "<ID> exit=<code> <verdict line>".
set -u
PATCH=$(readlink -f "$1"); shift
OUT=$(mktemp -d /tmp/vout.XXXXXX)
if ! git -C /repo diff --quiet; then echo "/repo working tree is not clean" >&2; exit 2; fi
if ! git -C /repo apply "$PATCH"; then echo "patch does not apply" >&2; exit 2; fi
for ID in "$@"; do
    LOG="$OUT/$ID.log"
    VERIF_OUT="$OUT" /verif/check.sh "$ID" "${TIER:-quick}" >"$LOG" 2>&1
    code=$?
    line=$(grep -m1 "^VIOLATION" "$LOG" || true)
    msg=$(grep -A1 -m1 "^VIOLATION" "$LOG" | tail -1 | cut -c1-260)
    echo "$ID exit=$code ${line:+$line }${msg}"
done
git -C /repo checkout -- .
rm -rf "$OUT"
