#!/bin/bash
# Offline build of the verification harness (fatfs is a path dependency on /repo, hooks enabled through
# harness/.cargo/config.toml rustflags).
set -eu
cd "$(dirname "$0")/harness"
export CARGO_NET_OFFLINE=true
cargo build --release --offline
./target/release/fv selftest
cd ../featdrv
for v in "alloc,unicode:A" "unicode:B" "alloc:C"; do
    cargo build --release --offline --features "${v%%:*}" --target-dir "target/${v##*:}"
done
