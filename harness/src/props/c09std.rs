//! C09, second storage type: a `std::io` storage wrapped in `fatfs::StdIoWrapper`, whose error type is
//! `std::io::Error`. The main enumeration (c09.rs) uses a storage with its own error type; here the injected error
//! carries each `std::io::ErrorKind` a real device can produce. `ErrorKind::Interrupted` is the one kind the storage
//! traits document as "retry", so it is not injected; every other kind must come back as `Error::Io` with that kind.

use crate::dev::Store;
use crate::run::{self, Block, CaseOut, Failure};
use crate::session::{guard, Caught};
use fatfs::{Read, Seek, Write};
use serde_json::json;
use std::cell::RefCell;
use std::io::ErrorKind;
use std::rc::Rc;

pub struct StdInner {
    pub data: Vec<u8>,
    pub pos: u64,
    pub calls: u64,
    pub fail_at: Option<u64>,
    pub kind: ErrorKind,
    pub fired: bool,
    pub fired_in_drop: bool,
    pub budget: u64,
}

#[derive(Clone)]
pub struct StdDev(pub Rc<RefCell<StdInner>>);

pub const TAG: &str = "verif injected fault";

impl StdInner {
    fn enter(&mut self) -> std::io::Result<()> {
        self.calls += 1;
        if self.calls > self.budget {
            // non-termination oracle: an error on every further call (see dev.rs for why not a panic)
            return Err(std::io::Error::new(ErrorKind::Other, "device-call budget exceeded"));
        }
        if self.fail_at == Some(self.calls) && !self.fired {
            self.fired = true;
            #[cfg(rafalh_rust_fatfs_verif)]
            {
                self.fired_in_drop = fatfs::verif_drop_depth() > 0;
            }
            return Err(std::io::Error::new(self.kind, TAG));
        }
        Ok(())
    }
}

impl std::io::Read for StdDev {
    fn read(&mut self, buf: &mut [u8]) -> std::io::Result<usize> {
        let mut d = self.0.borrow_mut();
        d.enter()?;
        let len = d.data.len() as u64;
        if d.pos >= len {
            return Ok(0);
        }
        let n = (buf.len() as u64).min(len - d.pos) as usize;
        let p = d.pos as usize;
        buf[..n].copy_from_slice(&d.data[p..p + n]);
        d.pos += n as u64;
        Ok(n)
    }
}

impl std::io::Write for StdDev {
    fn write(&mut self, buf: &[u8]) -> std::io::Result<usize> {
        let mut d = self.0.borrow_mut();
        d.enter()?;
        let len = d.data.len() as u64;
        if d.pos >= len {
            return Ok(0);
        }
        let n = (buf.len() as u64).min(len - d.pos) as usize;
        let p = d.pos as usize;
        d.data[p..p + n].copy_from_slice(&buf[..n]);
        d.pos += n as u64;
        Ok(n)
    }
    fn flush(&mut self) -> std::io::Result<()> {
        self.0.borrow_mut().enter()
    }
}

impl std::io::Seek for StdDev {
    fn seek(&mut self, pos: std::io::SeekFrom) -> std::io::Result<u64> {
        let mut d = self.0.borrow_mut();
        d.enter()?;
        let len = d.data.len() as i128;
        let np: i128 = match pos {
            std::io::SeekFrom::Start(x) => x as i128,
            std::io::SeekFrom::Current(x) => d.pos as i128 + x as i128,
            std::io::SeekFrom::End(x) => len + x as i128,
        };
        if np < 0 {
            return Err(std::io::Error::new(ErrorKind::InvalidInput, "seek before start"));
        }
        d.pos = np as u64;
        Ok(d.pos)
    }
}

type SFs = fatfs::FileSystem<fatfs::StdIoWrapper<StdDev>, fatfs::NullTimeProvider, fatfs::LossyOemCpConverter>;
type SErr = fatfs::Error<std::io::Error>;

pub const KINDS: &[ErrorKind] = &[ErrorKind::WouldBlock, ErrorKind::TimedOut, ErrorKind::Other, ErrorKind::PermissionDenied, ErrorKind::InvalidData, ErrorKind::BrokenPipe, ErrorKind::UnexpectedEof, ErrorKind::WriteZero, ErrorKind::NotFound, ErrorKind::AlreadyExists, ErrorKind::InvalidInput];

/// the operations under fault injection (on the populated volume of c09::populated)
pub const TARGETS: &[&str] = &["stats", "list_root", "open_deep_and_read", "create_write_flush", "overwrite_middle", "truncate_mid", "mkdir", "remove_file", "rename_in_place", "move_dir", "read_status_flags", "unmount"];

fn run_target(fs: &SFs, t: usize) -> Result<(), SErr> {
    let root = fs.root_dir();
    match TARGETS[t] {
        "stats" => fs.stats().map(|_| ()),
        "list_root" => {
            for e in root.iter() {
                let e = e?;
                let _ = e.file_name();
            }
            Ok(())
        }
        "open_deep_and_read" => {
            let mut f = root.open_file("dir1/sub/deep file.txt")?;
            let mut buf = [0u8; 700];
            loop {
                if f.read(&mut buf)? == 0 {
                    break;
                }
            }
            Ok(())
        }
        "create_write_flush" => {
            let mut f = root.create_file("dir2/newly created file with a long name.dat")?;
            f.write_all(&[0x5A; 1300])?;
            f.flush()
        }
        "overwrite_middle" => {
            let mut f = root.open_file("big.bin")?;
            f.seek(fatfs::SeekFrom::Start(700))?;
            f.write_all(&[0xA5; 900])?;
            f.flush()
        }
        "truncate_mid" => {
            let mut f = root.open_file("big.bin")?;
            f.seek(fatfs::SeekFrom::Start(300))?;
            f.truncate()?;
            f.flush()
        }
        "mkdir" => root.create_dir("dir2/a new directory with a long name").map(|_| ()),
        "remove_file" => root.remove("big.bin"),
        "rename_in_place" => root.rename("a rather long file name, longer than 26 units.text", &root, "renamed to another long name.text"),
        "move_dir" => root.rename("dir1/sub", &root, "dir2/sub"),
        "read_status_flags" => fs.read_status_flags().map(|_| ()),
        _ => Ok(()),
    }
}

#[derive(Debug)]
enum Seen {
    NotReached,
    Surfaced,
    InDrop,
    Bad(String),
}

/// one run: mount fault-free, arm the k-th device call of the target (k = 0: count only), run the target
fn execute(base: &[u8], t: usize, k: u64, kind: ErrorKind, budget: u64) -> (u64, Seen) {
    let dev = StdDev(Rc::new(RefCell::new(StdInner { data: base.to_vec(), pos: 0, calls: 0, fail_at: None, kind, fired: false, fired_in_drop: false, budget: u64::MAX })));
    let d2 = dev.clone();
    let r = guard(move || {
        let fs: SFs = fatfs::FileSystem::new(fatfs::StdIoWrapper::new(d2.clone()), fatfs::FsOptions::new().time_provider(fatfs::NullTimeProvider::new())).map_err(|e| format!("mount: {:?}", e))?;
        if TARGETS[t] == "unmount" {
            // something to write back at unmount
            let root = fs.root_dir();
            let mut f = root.open_file("empty.txt").map_err(|e| format!("setup: {:?}", e))?;
            f.write_all(&[1u8; 600]).map_err(|e| format!("setup: {:?}", e))?;
            drop(f);
            drop(root);
            let _ = fs.stats();
        }
        let start = d2.0.borrow().calls;
        {
            let mut i = d2.0.borrow_mut();
            if k > 0 {
                i.fail_at = Some(start + k);
            }
            i.budget = start.saturating_add(budget);
        }
        let res = if TARGETS[t] == "unmount" { fs.unmount() } else { run_target(&fs, t) };
        let end = d2.0.borrow().calls;
        // whatever happens after the target (destructors) is not under test
        d2.0.borrow_mut().fail_at = None;
        Ok::<_, String>((end - start, res.map_err(|e| match e {
            fatfs::Error::Io(io) => (true, io.kind(), io.to_string()),
            other => (false, ErrorKind::Other, format!("{:?}", other)),
        })))
    });
    let (fired, in_drop, over) = {
        let i = dev.0.borrow();
        (i.fired, i.fired_in_drop, i.calls > i.budget)
    };
    match r {
        Caught::Panic(p) => (0, Seen::Bad(format!("panic: {}", p))),
        Caught::Ok(Err(e)) => (0, Seen::Bad(format!("harness: {}", e))),
        Caught::Ok(Ok((n, res))) => {
            if over {
                return (n, Seen::Bad("did not finish within the device-call budget (an error that is retried forever?)".into()));
            }
            if k == 0 {
                return (n, match res {
                    Ok(()) => Seen::NotReached,
                    Err(e) => Seen::Bad(format!("the operation fails without any fault: {:?}", e)),
                });
            }
            if !fired {
                return (n, Seen::NotReached);
            }
            if in_drop {
                return (n, Seen::InDrop);
            }
            match res {
                Err((true, got, msg)) if got == kind && msg.contains(TAG) => (n, Seen::Surfaced),
                Err((true, got, msg)) => (n, Seen::Bad(format!("the call returned Io({:?}: {}) instead of the injected {:?}", got, msg, kind))),
                Err((false, _, msg)) => (n, Seen::Bad(format!("the call returned {} instead of Io({:?})", msg, kind))),
                Ok(()) => (n, Seen::Bad(format!("the call returned Ok although a device call failed with {:?} (error swallowed or retried)", kind))),
            }
        }
    }
}

pub fn replay(v: &serde_json::Value) -> Result<Option<String>, String> {
    let vol: crate::vol::VolCfg = serde_json::from_value(v["case"]["vol"].clone()).map_err(|e| e.to_string())?;
    let t = v["case"]["target"].as_u64().unwrap_or(0) as usize % TARGETS.len();
    let k = v["case"]["k"].as_u64().unwrap_or(1);
    let ki = v["case"]["kind"].as_u64().unwrap_or(0) as usize % KINDS.len();
    let base = base_bytes(&super::c09::populated(&vol)?);
    let (n, _) = execute(&base, t, 0, KINDS[ki], u64::MAX / 4);
    match execute(&base, t, k, KINDS[ki], 50 * n + 1000).1 {
        Seen::Bad(m) => Ok(Some(format!("{} on FAT{} (std::io storage): fault at device call {} with {:?}: {}", TARGETS[t], vol.fat, k, KINDS[ki], m))),
        _ => Ok(None),
    }
}

fn base_bytes(st: &Store) -> Vec<u8> {
    let mut v = vec![0u8; st.len() as usize];
    st.read_at(0, &mut v);
    v
}

/// every device call of every target x a rotating subset of error kinds (each kind is used at every position of at
/// least one target and volume; WouldBlock / TimedOut at every position of every target)
pub fn block(vols: &[crate::vol::VolCfg], bases: &[Store], cap: u64) -> Block {
    let small: Vec<usize> = (0..vols.len()).filter(|i| bases[*i].len() <= (8 << 20)).collect();
    let bytes: Vec<Vec<u8>> = small.iter().map(|i| base_bytes(&bases[*i])).collect();
    let work: Vec<(usize, usize)> = (0..small.len()).flat_map(|v| (0..TARGETS.len()).map(move |t| (v, t))).collect();
    run::run_indexed("std_io_storage_every_position_and_error_kind", work.len() as u64, |idx, blk| {
        let (vi, t) = work[idx as usize];
        let vol = &vols[small[vi]];
        let base = &bytes[vi];
        let (n, free) = execute(base, t, 0, ErrorKind::Other, u64::MAX / 4);
        if let Seen::Bad(m) = free {
            if m.starts_with("the operation fails without any fault") {
                // e.g. no room for the renamed entry in a full 16-entry root: nothing to inject into
                *blk.classes.entry("targets_not_applicable_on_this_volume".into()).or_insert(0) += 1;
                return None;
            }
            return Some(Failure { message: format!("{} on FAT{} (std::io storage): {}", TARGETS[t], vol.fat, m), case: json!({"vol": vol, "target": t, "k": 0, "kind": 0}), kind: "stdio".into() });
        }
        let ks: Vec<u64> = if n <= cap { (1..=n).collect() } else { (1..=cap / 2).chain((n - cap / 2 + 1)..=n).collect() };
        for k in ks {
            for (ki, kind) in KINDS.iter().enumerate() {
                // the two kinds a non-blocking or slow device really produces at every position, the others rotating
                if ki >= 2 && (k as usize + t + vi) % (KINDS.len() - 2) != ki - 2 {
                    continue;
                }
                let (_, seen) = execute(base, t, k, *kind, 50 * n + 1000);
                let mut out = CaseOut::default();
                out.hash = run::hash_str(&format!("std|{}|{}|{}|{:?}", vi, t, k, kind));
                match &seen {
                    Seen::Surfaced => {
                        out.nontrivial = true;
                        out.classes.insert("surfaced".into(), 1);
                    }
                    Seen::InDrop => {
                        out.classes.insert("fired_in_destructor_exempt".into(), 1);
                    }
                    Seen::NotReached => {
                        out.classes.insert("not_reached".into(), 1);
                    }
                    Seen::Bad(m) => out.violation = Some(format!("{} on FAT{} (std::io storage): fault at device call {} of {} with {:?}: {}", TARGETS[t], vol.fat, k, n, kind, m)),
                }
                blk.record(&out, || json!({"target": TARGETS[t], "fat": vol.fat, "k": k, "of": n, "kind": format!("{:?}", kind)}));
                if let Some(m) = out.violation {
                    return Some(Failure { message: m, case: json!({"vol": vol, "target": t, "k": k, "kind": ki}), kind: "stdio".into() });
                }
            }
        }
        None
    })
}
