//! Shared driver for the history-based properties: generated operation histories run in lock-step against the
//! reference model, with the oracles (aspects) of one property switched on.

use crate::gen::{self, Case, GenCfg};
use crate::ops::{run_history, RunCfg, Trace};
use crate::run::{self, Block, CaseOut, Failure, Report, Tier};
use serde_json::Value;

pub struct HistProp {
    pub id: &'static str,
    pub level: &'static str,
    pub rule: &'static str,
    pub run_cfg: RunCfg,
    pub gen_cfg: GenCfg,
    pub nontrivial: fn(&Trace) -> bool,
    pub quick_cases: u32,
    pub thorough_cases: u32,
    /// directory-pressure histories (gen::pressure_case_strategy): (quick, thorough)
    pub pressure_cases: (u32, u32),
    pub assumptions: Vec<&'static str>,
}

pub fn eval_case(hp: &HistProp, case: &Case) -> CaseOut {
    let (trace, viol) = run_history(&hp.run_cfg, &case.vol, &case.ops);
    let mut out = CaseOut::default();
    out.nontrivial = (hp.nontrivial)(&trace);
    out.hash = run::hash_str(&serde_json::to_string(case).unwrap_or_default());
    for (k, v) in &trace.classes {
        // class = number of cases in which the event happened at least once
        if *v > 0 {
            out.classes.insert(format!("cases_with_{}", k), 1);
        }
    }
    out.classes.insert("ops_run".into(), trace.ops_run);
    out.classes.insert("ops_skipped_precondition".into(), trace.ops_skipped);
    if trace.desync {
        out.classes.insert("cases_desynced".into(), 1);
    }
    if trace.aborted.is_some() {
        out.classes.insert("cases_aborted_by_panic".into(), 1);
    }
    out.classes.insert(format!("cases_fat{}", case.vol.fat), 1);
    out.excluded_known = trace.excluded_known;
    out.violation = viol.map(|v| format!("[{:?} at step {}] {}", v.aspect, v.step, v.msg));
    out
}

pub fn replay_value(hp: &HistProp, v: &Value) -> Result<Option<String>, String> {
    let case: Case = serde_json::from_value(v["case"].clone()).map_err(|e| format!("bad case in replay: {}", e))?;
    Ok(eval_case(hp, &case).violation)
}

pub fn regress_block(hp: &HistProp) -> Block {
    let mut b = Block::new("regress");
    for f in run::regress_files(hp.id) {
        match run::load_replay(&f) {
            Ok(v) => {
                let case: Result<Case, _> = serde_json::from_value(v["case"].clone());
                if let Ok(case) = case {
                    let out = eval_case(hp, &case);
                    b.record(&out, || serde_json::to_value(&case).unwrap());
                    if let Some(m) = out.violation {
                        if b.failure.is_none() {
                            b.failure = Some(Failure { message: format!("regression case {}: {}", f, m), case: serde_json::to_value(&case).unwrap(), kind: "history".into() });
                        }
                    }
                }
            }
            Err(e) => eprintln!("{}", e),
        }
    }
    b
}

pub fn random_block(hp: &HistProp, name: &str, seed: u64, cases: u32) -> Block {
    let gc = hp.gen_cfg.clone();
    run::run_random(name, seed, cases, "history", move || run::boxed(gen::case_strategy(gc.clone())), |c: &Case| eval_case(hp, c))
}

/// Known findings of this property: run each probe with the exclusion predicates off. A probe that still fails
/// with its signature yields a KNOWN-FINDING line; one that fails differently is an ordinary violation; one that
/// no longer fails is silent. `fixed` entries are ordinary regression cases (no suppression at all).
pub fn known_block(hp: &HistProp, rep: &mut Report) -> Block {
    let mut b = Block::new("known_finding_probes");
    for k in run::load_known().iter().filter(|k| k.property == hp.id && !k.probe.is_empty()) {
        let path = format!("{}/{}", run::verif_dir(), k.probe);
        let Ok(v) = run::load_replay(&path) else {
            eprintln!("known finding {}: probe {} unreadable", k.key, path);
            continue;
        };
        let Ok(case) = serde_json::from_value::<Case>(v["case"].clone()) else { continue };
        let mut cfg = hp.run_cfg.clone();
        cfg.known = Default::default();
        let probe_hp = HistProp { id: hp.id, level: hp.level, rule: hp.rule, run_cfg: cfg, gen_cfg: hp.gen_cfg.clone(), nontrivial: hp.nontrivial, quick_cases: 0, thorough_cases: 0, pressure_cases: (0, 0), assumptions: vec![] };
        let out = eval_case(&probe_hp, &case);
        b.record(&out, || serde_json::to_value(&case).unwrap());
        match (&out.violation, k.status.as_str()) {
            (Some(m), "known") if m.contains(&k.signature) => {
                rep.known_lines.push(format!("KNOWN-FINDING: property={} {} [{}]", hp.id, k.what, k.key));
            }
            (Some(m), _) => {
                if b.failure.is_none() {
                    b.failure = Some(Failure { message: format!("probe {}: {}", k.probe, m), case: serde_json::to_value(&case).unwrap(), kind: "history".into() });
                }
            }
            (None, _) => {}
        }
    }
    b
}

pub fn pressure_block(hp: &HistProp, seed: u64, tier: Tier) -> Option<Block> {
    let cases = tier.pick(hp.pressure_cases.0, hp.pressure_cases.1);
    if cases == 0 {
        return None;
    }
    let gc = hp.gen_cfg.clone();
    Some(run::run_random("dir_pressure_histories", seed ^ 0xD1F, cases, "history", move || run::boxed(gen::pressure_case_strategy(gc.clone())), |c: &Case| eval_case(hp, c)))
}

pub fn run(hp: &HistProp, tier: Tier, seed: u64) -> i32 {
    let mut rep = Report::new(hp.id, tier, seed, hp.level, hp.rule);
    for a in &hp.assumptions {
        rep.assume(a);
    }
    let kb = known_block(hp, &mut rep);
    rep.add(kb);
    rep.add(regress_block(hp));
    if !rep.failed() {
        rep.add(random_block(hp, "random_histories", seed, tier.pick(hp.quick_cases, hp.thorough_cases)));
    }
    if !rep.failed() {
        if let Some(b) = pressure_block(hp, seed, tier) {
            rep.add(b);
        }
    }
    rep.finish()
}
