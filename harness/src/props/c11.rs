//! C11 - writes stay inside the volume and inside what the operation may change
use super::hist::HistProp;
use crate::gen::GenCfg;
use crate::ops::{Aspect, RunCfg, Trace};

fn nontrivial(t: &Trace) -> bool {
    t.has("cross_cluster_write") && (t.has("dir_growth") || t.has("mkdir")) && t.has("region_checked_op")
}

pub fn prop() -> HistProp {
    let mut rc = RunCfg::new(&[Aspect::Regions, Aspect::Panic, Aspect::Budget]);
    rc.regions = true;
    rc.flush_each = true;
    let mut gc = GenCfg::mixed();
    gc.gen_geom_pct = 50;
    gc.tiny_free_pct = 30;
    gc.max_ops = 30;
    gc.populate_pct = 10;
    HistProp {
        id: "C11",
        level: "exploration",
        rule: "random histories on volumes embedded in a larger device (canary sectors after the declared end) with multi-sector reserved areas filled with a canary; every device write of every call (offset, length from the device log) is classified against refdec's region/ownership map taken before and after the call: allowed = status byte, FS-info sector, FAT region, fixed root area, clusters of a directory on one of the call's paths or parent of the handle's file, clusters of the file the call writes, clusters free before the call; everything else (boot code, other reserved sectors, backup boot sector, slack after the last cluster, beyond the end, another object's cluster) is a violation; canaries re-checked at the end; non-trivial = history with a cross-cluster data write and a directory creation/growth; distinct by hash(config, ops)",
        run_cfg: rc,
        gen_cfg: gc,
        nontrivial,
        quick_cases: 10000,
        thorough_cases: 80000,
        pressure_cases: (2000, 30000),
        assumptions: vec!["a handle that is dropped or replaced may write back its own directory entry (its parent directory is in scope)"],
    }
}


// ---------------------------------------------------------------------------------------------------------
use super::{c20, hist};
use crate::gen::Case;
use crate::ops::Op;
use crate::vol::VolCfg;
use crate::run::{self, Report, Tier};

pub fn run(tier: Tier, seed: u64) -> i32 {
    let hp = prop();
    let mut rep = Report::new(hp.id, tier, seed, hp.level, hp.rule);
    rep.rule.push_str("; plus the scripted 47-op history of C20 on sparse volumes of 4 GiB .. 2 TiB (and 4096-byte sectors up to the cluster limit) with the next-free hint at / near the last cluster: every device write must land in the cluster the independent 64-bit geometry assigns to the object being written (a byte offset that wraps at 2^32 lands in somebody else's cluster or in a reserved sector)");
    for a in &hp.assumptions {
        rep.assume(a);
    }
    let kb = hist::known_block(&hp, &mut rep);
    rep.add(kb);
    rep.add(hist::regress_block(&hp));
    if !rep.failed() {
        rep.add(hist::random_block(&hp, "random_histories", seed, tier.pick(hp.quick_cases, hp.thorough_cases)));
    }
    if !rep.failed() {
        if let Some(b) = hist::pressure_block(&hp, seed, tier) {
            rep.add(b);
        }
    }
    // clusters given back and handed out again: a file emptied (or shortened, or removed) in one session, its clusters
    // taken by another file in the next, then the first one written again - every write must land in clusters that
    // are its own or free at that moment
    if !rep.failed() {
        let mut vols: Vec<VolCfg> = [1usize, 0, 8, 12, 3].iter().map(|p| VolCfg::from_preset(*p)).collect();
        vols.push(VolCfg::from_gen_preset(0));
        vols.push(VolCfg::from_gen_preset(5));
        let hp_ref = &hp;
        let b = run::run_indexed("freed_clusters_reused_by_another_file", (vols.len() * 3) as u64, |i, blk| {
            let vol = &vols[i as usize / 3];
            let variant = i % 3;
            let cs = vol.cluster_size();
            let of = |p: &str| Op::OpenFile { via: 0, path: p.into(), keep: 1 };
            let mut ops = vec![
                Op::CreateFile { via: 0, path: "first.bin".into(), keep: 1 },
                Op::Write { h: 0, len: cs, seed: 1 },
                Op::Write { h: 0, len: cs + 10, seed: 2 },
                Op::CloseFile { h: 0 },
                Op::CreateFile { via: 0, path: "other.bin".into(), keep: 1 },
                Op::Write { h: 0, len: 10, seed: 3 },
                Op::CloseFile { h: 0 },
            ];
            match variant {
                0 => ops.extend([of("first.bin"), Op::Truncate { h: 0 }, Op::CloseFile { h: 0 }]),
                1 => ops.extend([of("first.bin"), Op::Seek { h: 0, whence: 0, off: 5 }, Op::Truncate { h: 0 }, Op::CloseFile { h: 0 }]),
                _ => ops.extend([Op::Remove { via: 0, path: "first.bin".into() }, Op::CreateFile { via: 0, path: "first.bin".into(), keep: 0 }]),
            }
            ops.extend([
                Op::Remount { how: (variant % 2) as u8 },
                Op::CreateFile { via: 0, path: "taker.bin".into(), keep: 1 },
                Op::Write { h: 0, len: cs, seed: 4 },
                Op::Write { h: 0, len: cs, seed: 5 },
                Op::Write { h: 0, len: cs, seed: 6 },
                Op::CloseFile { h: 0 },
                of("first.bin"),
                Op::Seek { h: 0, whence: 2, off: 0 },
                Op::Write { h: 0, len: cs / 2, seed: 7 },
                Op::Write { h: 0, len: cs, seed: 8 },
                Op::CloseFile { h: 0 },
                Op::Remount { how: 0 },
                of("taker.bin"),
                Op::Read { h: 0, len: 3 * cs },
                Op::CloseFile { h: 0 },
            ]);
            let case = Case { vol: vol.clone(), ops };
            let out = hist::eval_case(hp_ref, &case);
            blk.record(&out, || serde_json::json!({"vol": vol, "variant": variant}));
            out.violation.map(|m| run::Failure { message: m, case: serde_json::to_value(&case).unwrap(), kind: "history".into() })
        });
        rep.add(b);
    }
    // an allocation cut short by a storage fault and repeated by the caller, then another file allocating, then both
    // files written again: whichever table write the fault hit, no write of the rest of the session may land in a cluster
    // of the other file (a chain that already names a cluster still marked free would hand it to both)
    if !rep.failed() {
        let vols: Vec<VolCfg> = [1usize, 8, 12, 3].iter().map(|p| VolCfg::from_preset(*p)).collect();
        let hp_ref = &hp;
        let b = run::run_indexed("allocation_hit_by_a_fault_then_another_file_allocates", (vols.len() * 2) as u64, |i, blk| {
            let vol = &vols[i as usize / 2];
            let intr = i % 2 == 1;
            let cs = vol.cluster_size();
            for k in 0..80u16 {
                let ops = alloc_fault_ops(cs, k, intr);
                let case = Case { vol: vol.clone(), ops };
                let mut out = hist::eval_case(hp_ref, &case);
                let touched = out.classes.contains_key("cases_with_write_failed_with_injected_fault_then_retried") || out.classes.contains_key("cases_with_write_survived_injected_fault");
                out.nontrivial = touched;
                out.hash = run::hash_str(&format!("allocfault|{}|{}|{:?}", k, intr, vol));
                blk.record(&out, || serde_json::json!({"vol": vol, "fault_at_device_call": k, "interrupted": intr}));
                if let Some(m) = out.violation {
                    return Some(run::Failure { message: format!("fault at device call {} of an allocating write, write repeated: {}", k, m), case: serde_json::to_value(&case).unwrap(), kind: "history".into() });
                }
                if !touched {
                    break;
                }
            }
            None
        });
        rep.add(b);
    }
    // a truncation cut short by a storage fault (at every device call of it) and NOT repeated; the handle is closed,
    // the volume mounted afresh, then another file allocates, then the truncated file is written again through the same handle: no write of the rest of the session
    // may land in a cluster of the other file (a kept part that still links into clusters already given back would)
    if !rep.failed() {
        let vols: Vec<VolCfg> = [1usize, 8, 3, 9, 12].iter().map(|p| VolCfg::from_preset(*p)).collect();
        let hp_ref = &hp;
        let b = run::run_indexed("truncation_hit_by_a_fault_then_another_file_allocates", vols.len() as u64, |i, blk| {
            let vol = &vols[i as usize];
            let cs = vol.cluster_size();
            for k in 0..120u16 {
                let mut ops = vec![Op::CreateFile { via: 0, path: "a.bin".into(), keep: 1 }];
                for j in 0..4u8 {
                    ops.push(Op::Write { h: 0, len: cs, seed: 1 + j });
                }
                ops.extend([
                    Op::Flush { h: 0 },
                    Op::Seek { h: 0, whence: 0, off: cs as i64 },
                    Op::FaultNext { k, hold: 1, interrupted: false, burst: 0 },
                    Op::Truncate { h: 0 },
                    Op::CloseFile { h: 0 },
                    // a fresh session: on FAT12/16 the search for free clusters starts at the beginning again
                    Op::Remount { how: (k % 2) as u8 },
                    Op::CreateFile { via: 0, path: "b.bin".into(), keep: 2 },
                    Op::Write { h: 1, len: cs, seed: 7 },
                    Op::Write { h: 1, len: cs, seed: 8 },
                    Op::Write { h: 1, len: cs, seed: 9 },
                    Op::OpenFile { via: 0, path: "a.bin".into(), keep: 1 },
                    Op::Seek { h: 0, whence: 2, off: 0 },
                    Op::Write { h: 0, len: 20, seed: 10 },
                    Op::Write { h: 0, len: cs, seed: 11 },
                    Op::Seek { h: 1, whence: 0, off: 3 },
                    Op::Write { h: 1, len: 30, seed: 12 },
                    Op::CloseFile { h: 0 },
                    Op::CloseFile { h: 1 },
                ]);
                let case = Case { vol: vol.clone(), ops };
                let mut out = hist::eval_case(hp_ref, &case);
                let fired = out.classes.contains_key("cases_with_fault_fired");
                out.nontrivial = fired;
                out.hash = run::hash_str(&format!("truncfault|{}|{:?}", k, vol));
                blk.record(&out, || serde_json::json!({"vol": vol, "fault_at_device_call": k}));
                if let Some(m) = out.violation {
                    return Some(run::Failure { message: format!("fault at device call {} of a truncation: {}", k, m), case: serde_json::to_value(&case).unwrap(), kind: "history".into() });
                }
                if !fired {
                    break;
                }
            }
            None
        });
        rep.add(b);
    }
    // FAT32 volumes without a usable information sector (field 0 / the unused marker 0xFFFF), mounted with strict
    // checking off: if the library takes such a volume it must not invent a place to write the structure to
    if !rep.failed() {
        let mut hp2 = prop();
        hp2.run_cfg.lenient_mount = true;
        let mut vols: Vec<VolCfg> = Vec::new();
        for fsinfo in [0u16, 0xFFFF] {
            let mut v = VolCfg::from_gen_preset(5);
            if let Some(g) = v.gen.as_mut() {
                g.fsinfo = fsinfo;
                g.mirror_off = None;
                g.root_cluster = 2;
            }
            vols.push(v);
        }
        let hp_ref = &hp2;
        let b = run::run_indexed("no_usable_fsinfo_sector_nonstrict_mount", vols.len() as u64, |i, blk| {
            let vol = &vols[i as usize];
            let cs = vol.cluster_size();
            let ops = vec![
                Op::CreateFile { via: 0, path: "a.bin".into(), keep: 1 },
                Op::Write { h: 0, len: cs, seed: 1 },
                Op::Write { h: 0, len: 9, seed: 2 },
                Op::CloseFile { h: 0 },
                Op::CreateDir { via: 0, path: "d".into(), keep: 0 },
                Op::Stats,
                Op::Remount { how: 0 },
                Op::Remove { via: 0, path: "a.bin".into() },
                Op::Remount { how: 1 },
            ];
            let case = Case { vol: vol.clone(), ops };
            let mut out = hist::eval_case(hp_ref, &case);
            out.nontrivial = true;
            if out.classes.get("ops_run").copied().unwrap_or(0) == 0 && out.violation.as_deref().map_or(false, |m| m.contains("mount of a valid volume failed") || m.contains("imggen") || m.contains("refdec rejects")) {
                // the library (or the independent decoder) does not take the volume: nothing to judge
                out.violation = None;
                out.classes.insert("volume_refused".into(), 1);
            }
            blk.record(&out, || serde_json::json!({"vol": vol}));
            out.violation.map(|m| run::Failure { message: m, case: serde_json::to_value(&case).unwrap(), kind: "history".into() })
        });
        rep.add(b);
    }
    if !rep.failed() {
        let mut lcs = c20::large_cfgs();
        for l in lcs.iter_mut() {
            l.alias_bad = true;
        }
        let geoms: Vec<usize> = tier.pick(vec![0, 2, 4, 5], (0..c20::GEOMS.len()).collect());
        let mut work: Vec<(usize, usize)> = Vec::new();
        for g in &geoms {
            for li in 0..lcs.len() {
                if tier == Tier::Thorough || (li + *g) % 4 == 0 {
                    work.push((*g, li));
                }
            }
        }
        let hp_ref = &hp;
        let b = run::run_indexed("scripted_history_on_large_sparse_volumes", work.len() as u64, |i, blk| {
            let (g, li) = work[i as usize];
            let vol = c20::large_vol(g, lcs[li].clone());
            let case = Case { vol: vol.clone(), ops: c20::scripted_ops(vol.cluster_size()) };
            let out = hist::eval_case(hp_ref, &case);
            blk.record(&out, || serde_json::json!({"vol": vol, "ops": "scripted (47 ops)"}));
            out.violation.map(|m| run::Failure { message: m, case: serde_json::to_value(&case).unwrap(), kind: "history".into() })
        });
        rep.add(b);
    }
    rep.finish()
}

/// two files, the second cluster of the first one allocated by a write that a storage fault hits at its k-th device
/// call and that the caller repeats; then the other file allocates, then both are written again and read back
pub fn alloc_fault_ops(cs: u32, k: u16, intr: bool) -> Vec<Op> {
    vec![
        Op::CreateFile { via: 0, path: "a.bin".into(), keep: 1 },
        Op::Write { h: 0, len: cs, seed: 1 },
        // starts on the boundary at the end of the chain: allocates and links a cluster
        Op::WriteRetry { h: 0, len: cs, seed: 2, k, interrupted: intr },
        Op::CreateFile { via: 0, path: "b.bin".into(), keep: 2 },
        Op::Write { h: 1, len: cs, seed: 3 },
        Op::Write { h: 1, len: cs, seed: 4 },
        Op::Write { h: 0, len: cs, seed: 5 },
        Op::Seek { h: 0, whence: 0, off: cs as i64 + 3 },
        Op::Write { h: 0, len: 20, seed: 6 },
        Op::Seek { h: 1, whence: 0, off: 5 },
        Op::Write { h: 1, len: 20, seed: 7 },
        Op::CloseFile { h: 0 },
        Op::CloseFile { h: 1 },
        Op::OpenFile { via: 0, path: "b.bin".into(), keep: 1 },
        Op::Read { h: 0, len: cs },
        Op::Read { h: 0, len: cs },
        Op::CloseFile { h: 0 },
    ]
}
