//! C11 - writes stay inside the volume and inside what the operation may change
use super::hist::HistProp;
use crate::gen::GenCfg;
use crate::ops::{Aspect, RunCfg, Trace};

fn nontrivial(t: &Trace) -> bool {
    t.has("cross_cluster_write") && (t.has("dir_growth") || t.has("mkdir")) && t.has("region_checked_op")
}

pub fn prop() -> HistProp {
    let mut rc = RunCfg::new(&[Aspect::Regions, Aspect::Panic, Aspect::Budget]);
    rc.regions = true;
    rc.flush_each = true;
    let mut gc = GenCfg::mixed();
    gc.gen_geom_pct = 50;
    gc.tiny_free_pct = 30;
    gc.max_ops = 30;
    HistProp {
        id: "C11",
        level: "exploration",
        rule: "random histories on volumes embedded in a larger device (canary sectors after the declared end) with multi-sector reserved areas filled with a canary; every device write of every call (offset, length from the device log) is classified against refdec's region/ownership map taken before and after the call: allowed = status byte, FS-info sector, FAT region, fixed root area, clusters of a directory on one of the call's paths or parent of the handle's file, clusters of the file the call writes, clusters free before the call; everything else (boot code, other reserved sectors, backup boot sector, slack after the last cluster, beyond the end, another object's cluster) is a violation; canaries re-checked at the end; non-trivial = history with a cross-cluster data write and a directory creation/growth; distinct by hash(config, ops)",
        run_cfg: rc,
        gen_cfg: gc,
        nontrivial,
        quick_cases: 5000,
        thorough_cases: 80000,
        pressure_cases: (2000, 30000),
        assumptions: vec!["a handle that is dropped or replaced may write back its own directory entry (its parent directory is in scope)"],
    }
}
