//! C10 - FAT copies and reserved table bits are maintained exactly as the format requires
use super::hist::{self, HistProp};
use crate::gen::{Case, GenCfg};
use crate::ops::{Aspect, Op, RunCfg, Trace};
use crate::run::{self, Block, Report, Tier};
use crate::vol::VolCfg;

fn nontrivial(t: &Trace) -> bool {
    (t.has("alloc_write") || t.has("mkdir")) && (t.has("remove") || t.has("truncate_shrinks"))
}

pub fn prop() -> HistProp {
    let mut rc = RunCfg::new(&[Aspect::FatCopies, Aspect::Panic, Aspect::Budget]);
    rc.fatcopies = true;
    let mut gc = GenCfg::mixed();
    gc.gen_geom_pct = 65;
    gc.tiny_free_pct = 40;
    gc.populate_pct = 10;
    // a third of the sessions keep access dates (the option rewrites directory entries on reads and listings)
    gc.access_date = vec![false, false, true];
    HistProp {
        id: "C10",
        level: "exploration",
        rule: "random allocating/freeing histories on library-formatted volumes (1-2 mirrored copies) and on imggen volumes with 1/2/3 copies, mirroring off with each active copy and garbage in the inactive ones, non-zero FAT32 high nibbles, garbage in padding entries; after every call on the raw bytes: mirrored copies byte-identical, inactive copies untouched, entries 0/1 unchanged, padding entries past the last cluster unchanged, every FAT32 top nibble unchanged; non-trivial = at least one allocation and one free in the history; distinct by hash(config, ops)",
        run_cfg: rc,
        gen_cfg: gc,
        nontrivial,
        quick_cases: 16000,
        thorough_cases: 150000,
        pressure_cases: (2000, 40000),
        assumptions: vec!["status bits in FAT[1] are not modified by the library (it keeps its dirty flag in the boot sector)"],
    }
}

pub fn run(tier: Tier, seed: u64) -> i32 {
    let hp = prop();
    let mut rep = Report::new(hp.id, tier, seed, hp.level, hp.rule);
    rep.rule.push_str("; plus a transient storage fault (an error, the retryable 'interrupted' condition once, or six times in a row) at EVERY device call of each of 24 scripted single operations (truncations, overwrite, append, create, mkdir, remove, rename, move ...) on mirrored volumes with 2 and 3 copies: a call that reports success although the fault fired inside it (retried, or swallowed) is held to the same byte comparison; a call that reports the error is not judged and ends the case");
    for a in &hp.assumptions {
        rep.assume(a);
    }
    let kb = hist::known_block(&hp, &mut rep);
    rep.add(kb);
    rep.add(hist::regress_block(&hp));
    if !rep.failed() {
        // two mirrored copies (library format) and three (imggen geometry); thorough: every width with both
        let mut fvols: Vec<VolCfg> = vec![VolCfg::from_preset(1), VolCfg::from_gen_preset(3), VolCfg::from_preset(12)];
        if tier == Tier::Thorough {
            fvols.push(VolCfg::from_preset(8));
            fvols.push(VolCfg::from_gen_preset(0));
            fvols.push(VolCfg::from_gen_preset(7));
            let mut sh = VolCfg::from_preset(8);
            sh.short_io = 21;
            fvols.push(sh);
        }
        let n_scripts = super::c12::first_mutation_scripts(512).len();
        let kmax: u16 = tier.pick(600, 6000);
        let hp_ref = &hp;
        // kinds: a hard error; "interrupted" once; "interrupted" six times in a row (the call must still go through)
        let fb: Block = run::run_indexed("transient_fault_at_every_device_call_of_one_operation", (fvols.len() * n_scripts * 3) as u64, |i, blk| {
            let interrupted = i % 3 >= 1;
            let burst: u8 = if i % 3 == 2 { 5 } else { 0 };
            let i = i as usize / 3;
            let v = &fvols[i / n_scripts];
            let cs = v.cluster_size();
            let (name, script) = super::c12::first_mutation_scripts(cs).swap_remove(i % n_scripts);
            // quick tier: every other position on the (large, slow to copy) FAT32 volume, which half depends on the seed
            let (k0, step) = if tier == Tier::Quick && v.fat == 32 { ((seed % 2) as u16, 2usize) } else { (0, 1) };
            for k in (k0..kmax).step_by(step) {
                let mut ops = super::c12::populate_ops(cs);
                ops.push(Op::FaultNext { k, hold: script.len() as u8, interrupted, burst });
                ops.extend(script.iter().cloned());
                let case = Case { vol: v.clone(), ops };
                let mut out = hist::eval_case(hp_ref, &case);
                let fired = out.classes.contains_key("cases_with_fault_fired");
                out.nontrivial = fired;
                out.hash = run::hash_str(&format!("fault|{}|{}|{}|{}|{:?}", name, k, interrupted, burst, v));
                blk.record(&out, || serde_json::json!({"script": name, "fault_at_device_call": k, "interrupted": interrupted, "burst": burst, "vol": v}));
                if let Some(m) = out.violation {
                    return Some(run::Failure { message: format!("transient fault{} at device call {} of '{}': {}", if interrupted { " (interrupted)" } else { "" }, k, name, m), case: serde_json::to_value(&case).unwrap(), kind: "history".into() });
                }
                if !fired {
                    break;
                }
            }
            None
        });
        rep.add(fb);
    }
    if !rep.failed() {
        rep.add(hist::random_block(&hp, "random_histories", seed, tier.pick(hp.quick_cases, hp.thorough_cases)));
    }
    if !rep.failed() {
        if let Some(b) = hist::pressure_block(&hp, seed, tier) {
            rep.add(b);
        }
    }
    rep.finish()
}
