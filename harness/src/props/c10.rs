//! C10 - FAT copies and reserved table bits are maintained exactly as the format requires
use super::hist::{self, HistProp};
use crate::gen::{Case, GenCfg};
use crate::ops::{Aspect, Op, RunCfg, Trace};
use crate::run::{self, Block, Report, Tier};
use crate::vol::VolCfg;

fn nontrivial(t: &Trace) -> bool {
    (t.has("alloc_write") || t.has("mkdir")) && (t.has("remove") || t.has("truncate_shrinks"))
}

pub fn prop() -> HistProp {
    let mut rc = RunCfg::new(&[Aspect::FatCopies, Aspect::Panic, Aspect::Budget]);
    rc.fatcopies = true;
    let mut gc = GenCfg::mixed();
    gc.gen_geom_pct = 65;
    gc.tiny_free_pct = 40;
    gc.populate_pct = 10;
    // a third of the sessions keep access dates (the option rewrites directory entries on reads and listings)
    gc.access_date = vec![false, false, true];
    HistProp {
        id: "C10",
        level: "exploration",
        rule: "random allocating/freeing histories on library-formatted volumes (1-2 mirrored copies) and on imggen volumes with 1/2/3 copies, mirroring off with each active copy and garbage in the inactive ones, non-zero FAT32 high nibbles, garbage in padding entries; after every call on the raw bytes: mirrored copies byte-identical, inactive copies untouched, entries 0/1 unchanged, padding entries past the last cluster unchanged, every FAT32 top nibble unchanged; non-trivial = at least one allocation and one free in the history; distinct by hash(config, ops)",
        run_cfg: rc,
        gen_cfg: gc,
        nontrivial,
        quick_cases: 16000,
        thorough_cases: 150000,
        pressure_cases: (2000, 40000),
        assumptions: vec!["status bits in FAT[1] are not modified by the library (it keeps its dirty flag in the boot sector)"],
    }
}

pub fn run(tier: Tier, seed: u64) -> i32 {
    let hp = prop();
    let mut rep = Report::new(hp.id, tier, seed, hp.level, hp.rule);
    rep.rule.push_str("; plus a transient storage fault (an error, the retryable 'interrupted' condition once, or six times in a row) at EVERY device call of each of 24 scripted single operations (truncations, overwrite, append, create, mkdir, remove, rename, move ...) on mirrored volumes with 2 and 3 copies: a call that reports success although the fault fired inside it (retried, or swallowed) is held to the same byte comparison; a call that reports the error is not judged and ends the case");
    for a in &hp.assumptions {
        rep.assume(a);
    }
    let kb = hist::known_block(&hp, &mut rep);
    rep.add(kb);
    rep.add(hist::regress_block(&hp));
    if !rep.failed() {
        // two mirrored copies (library format) and three (imggen geometry); thorough: every width with both
        let mut fvols: Vec<VolCfg> = vec![VolCfg::from_preset(1), VolCfg::from_gen_preset(3), VolCfg::from_preset(12)];
        if tier == Tier::Thorough {
            fvols.push(VolCfg::from_preset(8));
            fvols.push(VolCfg::from_gen_preset(0));
            fvols.push(VolCfg::from_gen_preset(7));
            let mut sh = VolCfg::from_preset(8);
            sh.short_io = 21;
            fvols.push(sh);
        }
        let n_scripts = super::c12::first_mutation_scripts(512).len();
        let kmax: u16 = tier.pick(600, 6000);
        let hp_ref = &hp;
        // kinds: a hard error; "interrupted" once; "interrupted" six times in a row (the call must still go through)
        let fb: Block = run::run_indexed("transient_fault_at_every_device_call_of_one_operation", (fvols.len() * n_scripts * 3) as u64, |i, blk| {
            let interrupted = i % 3 >= 1;
            let burst: u8 = if i % 3 == 2 { 5 } else { 0 };
            let i = i as usize / 3;
            let v = &fvols[i / n_scripts];
            let cs = v.cluster_size();
            let (name, script) = super::c12::first_mutation_scripts(cs).swap_remove(i % n_scripts);
            // quick tier: every other position on the (large, slow to copy) FAT32 volume, which half depends on the seed
            let (k0, step) = if tier == Tier::Quick && v.fat == 32 { ((seed % 2) as u16, 2usize) } else { (0, 1) };
            for k in (k0..kmax).step_by(step) {
                let mut ops = super::c12::populate_ops(cs);
                ops.push(Op::FaultNext { k, hold: script.len() as u8, interrupted, burst });
                ops.extend(script.iter().cloned());
                let case = Case { vol: v.clone(), ops };
                let mut out = hist::eval_case(hp_ref, &case);
                let fired = out.classes.contains_key("cases_with_fault_fired");
                out.nontrivial = fired;
                out.hash = run::hash_str(&format!("fault|{}|{}|{}|{}|{:?}", name, k, interrupted, burst, v));
                blk.record(&out, || serde_json::json!({"script": name, "fault_at_device_call": k, "interrupted": interrupted, "burst": burst, "vol": v}));
                if let Some(m) = out.violation {
                    return Some(run::Failure { message: format!("transient fault{} at device call {} of '{}': {}", if interrupted { " (interrupted)" } else { "" }, k, name, m), case: serde_json::to_value(&case).unwrap(), kind: "history".into() });
                }
                if !fired {
                    break;
                }
            }
            None
        });
        rep.add(fb);
    }
    // the two reserved leading entries on volumes the library formats itself, for every media descriptor a caller may
    // ask for: entry 0 = the descriptor in the low byte, all other bits set; entry 1 = the end-of-chain pattern; in every
    // copy, before and after a session that allocates and frees
    if !rep.failed() {
        let medias = [0xF0u8, 0xF8, 0xF9, 0xFA, 0xFB, 0xFC, 0xFD, 0xFE, 0xFF];
        let mut b = run::run_indexed("reserved_entries_for_every_media_descriptor", (medias.len() * 3 * 2) as u64, |i, blk| {
            let i = i as usize;
            let media = medias[i / 6];
            let (fat, sectors, bits) = [(fatfs::FatType::Fat12, 2000u32, 12u32), (fatfs::FatType::Fat16, 9000, 16), (fatfs::FatType::Fat32, 70_000, 32)][(i / 2) % 3];
            let fats = 1 + (i % 2) as u8;
            let mut out = run::CaseOut::default();
            out.hash = run::hash_str(&format!("media|{}", i));
            out.nontrivial = media != 0xF8;
            out.violation = reserved_entries_case(media, fat, sectors, bits, fats).err();
            let cj = serde_json::json!({"media": media, "width": bits, "sectors": sectors, "fats": fats});
            blk.record(&out, || cj.clone());
            out.violation.map(|m| run::Failure { message: m, case: cj, kind: "media".into() })
        });
        b.exhaustive = true;
        rep.add(b);
    }
    if !rep.failed() {
        rep.add(hist::random_block(&hp, "random_histories", seed, tier.pick(hp.quick_cases, hp.thorough_cases)));
    }
    if !rep.failed() {
        if let Some(b) = hist::pressure_block(&hp, seed, tier) {
            rep.add(b);
        }
    }
    rep.finish()
}

pub fn reserved_entries_case(media: u8, fat: fatfs::FatType, sectors: u32, bits: u32, fats: u8) -> Result<(), String> {
    use crate::refdec;
    use crate::session::{Clock, MountOpts, Session};
    use fatfs::Write;
    let dev = crate::dev::MemDev::new(crate::dev::Store::sparse(sectors as u64 * 512, 0xD1));
    let mut dh = dev.handle();
    fatfs::format_volume(&mut dh, fatfs::FormatVolumeOptions::new().total_sectors(sectors).bytes_per_cluster(512).fat_type(fat).fats(fats).media(media)).map_err(|e| format!("HARNESS: format with media {:#04x}: {:?}", media, e))?;
    let g = dev.with_store(|st| refdec::Geom::parse(st)).map_err(|e| format!("HARNESS: {}", e))?;
    let want0: u32 = match bits {
        12 => 0xF00 | media as u32,
        16 => 0xFF00 | media as u32,
        _ => 0x0FFF_FF00 | media as u32,
    };
    let check = |when: &str| -> Result<(), String> {
        for c in 0..g.nfats {
            let (e0, e1) = dev.with_store(|st| (g.fat_raw(st, c, 0), g.fat_raw(st, c, 1)));
            let (e0m, e1m) = if bits == 32 { (e0 & 0x0FFF_FFFF, e1 & 0x0FFF_FFFF) } else { (e0, e1) };
            if e0m != want0 {
                return Err(format!("{}: entry 0 of FAT copy {} is {:#x} on a FAT{} volume formatted with media descriptor {:#04x} (expected {:#x})", when, c, e0, bits, media, want0));
            }
            let eoc_min = match bits {
                12 => 0xFF8,
                16 => 0xFFF8,
                _ => 0x0FFF_FFF8,
            };
            // (FAT16/32 keep the clean-shutdown and no-error flags in the two top bits of entry 1: set on a fresh volume)
            if e1m < eoc_min {
                return Err(format!("{}: entry 1 of FAT copy {} is {:#x}: not an end-of-chain value", when, c, e1));
            }
        }
        Ok(())
    };
    check("after format")?;
    let clock = Clock::new(600_000_000_000);
    let s = Session::mount(&dev, &clock, &MountOpts::default()).map_err(|e| format!("mount of a volume formatted with media {:#04x}: {:?}", media, e))?;
    {
        let r = s.root();
        let mut f = r.create_file("a file.bin").map_err(|e| format!("{:?}", e))?;
        f.write_all(&vec![3u8; 1500]).map_err(|e| format!("{:?}", e))?;
        drop(f);
        r.create_dir("d").map(|_| ()).map_err(|e| format!("{:?}", e))?;
        r.remove("a file.bin").map_err(|e| format!("{:?}", e))?;
    }
    s.unmount().map_err(|e| format!("unmount: {:?}", e))?;
    check("after a session that allocated and freed")
}
