//! C10 - FAT copies and reserved table bits are maintained exactly as the format requires
use super::hist::HistProp;
use crate::gen::GenCfg;
use crate::ops::{Aspect, RunCfg, Trace};

fn nontrivial(t: &Trace) -> bool {
    (t.has("alloc_write") || t.has("mkdir")) && (t.has("remove") || t.has("truncate_shrinks"))
}

pub fn prop() -> HistProp {
    let mut rc = RunCfg::new(&[Aspect::FatCopies, Aspect::Panic, Aspect::Budget]);
    rc.fatcopies = true;
    let mut gc = GenCfg::mixed();
    gc.gen_geom_pct = 65;
    gc.tiny_free_pct = 40;
    gc.populate_pct = 10;
    // a third of the sessions keep access dates (the option rewrites directory entries on reads and listings)
    gc.access_date = vec![false, false, true];
    HistProp {
        id: "C10",
        level: "exploration",
        rule: "random allocating/freeing histories on library-formatted volumes (1-2 mirrored copies) and on imggen volumes with 1/2/3 copies, mirroring off with each active copy and garbage in the inactive ones, non-zero FAT32 high nibbles, garbage in padding entries; after every call on the raw bytes: mirrored copies byte-identical, inactive copies untouched, entries 0/1 unchanged, padding entries past the last cluster unchanged, every FAT32 top nibble unchanged; non-trivial = at least one allocation and one free in the history; distinct by hash(config, ops)",
        run_cfg: rc,
        gen_cfg: gc,
        nontrivial,
        quick_cases: 16000,
        thorough_cases: 150000,
        pressure_cases: (2000, 40000),
        assumptions: vec!["status bits in FAT[1] are not modified by the library (it keeps its dirty flag in the boot sector)"],
    }
}
