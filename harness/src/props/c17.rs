//! C17 - directory decoding is total on arbitrary slot contents
use crate::dev::{MemDev, Store};
use crate::refdec::{self, parse_run_backwards_with, sfn_checksum, short_display, Geom, RunVerdict, Slot};
use crate::run::{self, Block, CaseOut, Failure, Report, Tier};
use crate::session::{guard, Caught, Clock, MountOpts, Session};
use crate::vol::{self, VolCfg};
use proptest::prelude::*;
use serde::{Deserialize, Serialize};

#[derive(Clone, Debug, Serialize, Deserialize)]
pub struct DirCase {
    /// false: fixed root of a FAT12 volume; true: cluster-chained subdirectory
    pub chained: bool,
    /// raw 32-byte slots (hex-free: plain byte arrays)
    pub slots: Vec<Vec<u8>>,
}

pub struct Bases {
    pub fixed: Store,
    pub fixed_geom: Geom,
    pub fixed_dir_cluster: u32,
    pub chained: Store,
    pub chained_geom: Geom,
    pub chained_off: u64,
    pub chained_slots: usize,
    pub chained_dir_cluster: u32,
}

pub fn make_bases() -> Result<Bases, String> {
    // fixed root: FAT12, 32 root entries, plus an empty directory whose cluster serves as a valid target
    let dev = vol::make_device(&VolCfg::from_preset(1))?;
    let clock = Clock::new(0);
    let s = Session::mount(&dev, &clock, &MountOpts::default()).map_err(|e| format!("{:?}", e))?;
    s.root().create_dir("z").map_err(|e| format!("{:?}", e))?;
    s.unmount().map_err(|e| format!("{:?}", e))?;
    let mut fixed = dev.take_store();
    let fg = Geom::parse(&fixed)?;
    let d = refdec::decode(&fixed, Default::default())?;
    let zc = d.root.entries.iter().find(|e| e.visible_string() == "z").ok_or("no z")?.first_cluster;
    // wipe the root so that only generated slots are in it (z's cluster stays allocated: fine, nobody checks)
    fixed.write_at(fg.root_off(), &vec![0u8; fg.root_bytes() as usize]);
    // chained: FAT12 with 1 KiB clusters; directory "d" grown to two clusters
    let dev = vol::make_device(&VolCfg::from_preset(3))?;
    let s = Session::mount(&dev, &clock, &MountOpts::default()).map_err(|e| format!("{:?}", e))?;
    {
        let r = s.root();
        r.create_dir("z").map_err(|e| format!("{:?}", e))?;
        let dd = r.create_dir("d").map_err(|e| format!("{:?}", e))?;
        for i in 0..20 {
            dd.create_file(&format!("filler with a long name {:02}", i)).map_err(|e| format!("{:?}", e))?;
        }
    }
    s.unmount().map_err(|e| format!("{:?}", e))?;
    let mut chained = dev.take_store();
    let cg = Geom::parse(&chained)?;
    let d = refdec::decode(&chained, Default::default())?;
    let de = d.root.entries.iter().find(|e| e.visible_string() == "d").ok_or("no d")?;
    let zc2 = d.root.entries.iter().find(|e| e.visible_string() == "z").ok_or("no z")?.first_cluster;
    let clusters = de.clusters.clone();
    if clusters.len() < 2 || clusters[1] != clusters[0] + 1 {
        return Err(format!("directory d is not two consecutive clusters: {:?}", clusters));
    }
    let off = cg.cluster_off(clusters[0]) + 64; // after '.' and '..'
    let nslots = (clusters.len() as u64 * cg.cluster_size() / 32) as usize - 2;
    chained.write_at(off, &vec![0u8; nslots * 32]);
    Ok(Bases { fixed, fixed_geom: fg, fixed_dir_cluster: zc, chained, chained_geom: cg, chained_off: off, chained_slots: nslots, chained_dir_cluster: zc2 })
}

thread_local! {
    static DEVS: std::cell::RefCell<[Option<MemDev>; 2]> = const { std::cell::RefCell::new([None, None]) };
}

#[derive(Clone, Debug, PartialEq)]
enum Exp {
    None,
    Exactly(Vec<u16>),
    Any,
}

/// expected listing under one reading of the undefined bits: (short display bytes, long-name expectation)
fn expected(slots: &[Slot], attr_mask: u8, idx_mask: u8, reject_bit7: bool) -> Vec<(Vec<u8>, Exp)> {
    let mut out = Vec::new();
    let mut pending: Vec<&Slot> = Vec::new();
    for s in slots {
        if s.raw[0] == 0 {
            break;
        }
        if s.raw[0] == 0xE5 {
            pending.clear();
            continue;
        }
        if s.raw[11] & attr_mask == 0x0F {
            pending.push(s);
            continue;
        }
        let mut short = [0u8; 11];
        short.copy_from_slice(&s.raw[..11]);
        if s.raw[11] & 0x08 != 0 {
            // volume label: not listed
            pending.clear();
            continue;
        }
        let exp = match parse_run_backwards_with(&pending, &short, idx_mask, reject_bit7) {
            RunVerdict::None => Exp::None,
            RunVerdict::Broken(_) => {
                // broken because of length or emptiness of an otherwise well-ordered, malformed-padding run: the
                // property only demands "no partial or foreign name": keep it strict except for padding cases below
                Exp::None
            }
            RunVerdict::Ok { units, well_padded, .. } => {
                if well_padded {
                    Exp::Exactly(units)
                } else {
                    Exp::Any
                }
            }
        };
        // a run that is well ordered and checksummed but whose terminator/padding is malformed may be read either way
        let exp = if exp == Exp::None && !pending.is_empty() && malformed_padding_only(&pending, &short, idx_mask, reject_bit7) { Exp::Any } else { exp };
        pending.clear();
        out.push((short_display(&short, 0), exp));
    }
    out
}

/// true when the run is valid in order/sequence/checksum and only its NUL/0xFFFF layout is off
/// (e.g. "empty" because it starts with NUL but carries garbage after it)
fn malformed_padding_only(pending: &[&Slot], short: &[u8; 11], idx_mask: u8, reject_bit7: bool) -> bool {
    let chk = sfn_checksum(short);
    let mut expect = 1u8;
    let mut units: Vec<u16> = Vec::new();
    let mut complete = false;
    for s in pending.iter().rev() {
        let ord = s.raw[0];
        if reject_bit7 && ord & 0x80 != 0 {
            return false;
        }
        if ord & idx_mask != expect || s.raw[13] != chk || expect > 20 {
            return false;
        }
        units.extend_from_slice(&s.lfn_units());
        if ord & 0x40 != 0 {
            complete = true;
            break;
        }
        expect += 1;
    }
    if !complete {
        return false;
    }
    match units.iter().position(|u| *u == 0) {
        Some(p) => units[p + 1..].iter().any(|u| *u != 0xFFFF),
        None => false,
    }
}

fn to_slots(base_off: u64, raw: &[Vec<u8>]) -> Vec<Slot> {
    raw.iter()
        .enumerate()
        .map(|(i, r)| {
            let mut a = [0u8; 32];
            let n = r.len().min(32);
            a[..n].copy_from_slice(&r[..n]);
            Slot { abs: base_off + i as u64 * 32, raw: a }
        })
        .collect()
}

pub fn eval(b: &Bases, c: &DirCase) -> CaseOut {
    let mut out = CaseOut::default();
    out.hash = run::hash_str(&serde_json::to_string(c).unwrap_or_default());
    let (store, g, off, cap, dirc) = if c.chained { (&b.chained, &b.chained_geom, b.chained_off, b.chained_slots, b.chained_dir_cluster) } else { (&b.fixed, &b.fixed_geom, b.fixed_geom.root_off(), b.fixed_geom.raw.root_ent_cnt as usize, b.fixed_dir_cluster) };
    let mut slots = to_slots(off, &c.slots);
    slots.truncate(cap);
    // force cluster pointers of short entries valid: files empty, directories at a real directory cluster
    for s in slots.iter_mut() {
        let is_lfn_any = s.raw[11] & 0x0F == 0x0F;
        if s.raw[0] != 0 && s.raw[0] != 0xE5 && !is_lfn_any {
            s.raw[20] = 0;
            s.raw[21] = 0;
            if s.raw[11] & 0x10 != 0 {
                s.raw[26] = (dirc & 0xFF) as u8;
                s.raw[27] = (dirc >> 8) as u8;
                s.raw[28..32].copy_from_slice(&[0, 0, 0, 0]);
            } else {
                s.raw[26] = 0;
                s.raw[27] = 0;
                s.raw[28..32].copy_from_slice(&[0, 0, 0, 0]);
            }
        }
    }
    let mut bytes = vec![0u8; cap * 32];
    for (i, s) in slots.iter().enumerate() {
        bytes[i * 32..i * 32 + 32].copy_from_slice(&s.raw);
    }
    // one device per thread and placement, region rewritten completely for every case (the library's writes are discarded)
    let dev = DEVS.with(|d| {
        let mut d = d.borrow_mut();
        let slot = if c.chained { 1 } else { 0 };
        if d[slot].is_none() {
            let nd = MemDev::new(store.clone());
            nd.with(|x| x.discard_writes = true);
            d[slot] = Some(nd);
        }
        d[slot].as_ref().unwrap().handle()
    });
    // one region in four is read from a storage that makes short transfers (set per case: the device is shared)
    let sh = bytes.iter().take(96).fold(0x9E37_79B9u64, |a, b| (a ^ *b as u64).wrapping_mul(0x100_0000_01B3)) ^ bytes.len() as u64;
    dev.with(|d| {
        d.store.write_at(off, &bytes);
        d.budget = d.calls + 2_000_000;
        d.budget_hit = false;
        d.pos = 0;
        d.short_io = if sh % 4 == 0 { sh | 1 } else { 0 };
    });
    let chained = c.chained;
    let devh = dev.handle();
    let r = guard(move || {
        let clock = Clock::new(0);
        let s = Session::mount(&devh, &clock, &MountOpts::default()).map_err(|e| format!("mount: {:?}", e))?;
        let dir = if chained { s.root().open_dir("d").map_err(|e| format!("open_dir d: {:?}", e))? } else { s.root() };
        let mut listing: Vec<(Vec<u8>, Option<Vec<u16>>, usize)> = Vec::new();
        let mut n = 0usize;
        for e in dir.iter() {
            n += 1;
            if n > 4096 {
                return Err("iteration does not end".to_string());
            }
            let e = e.map_err(|e| format!("iteration error: {:?}", e))?;
            let sb = e.short_file_name_as_bytes().to_vec();
            if chained && (sb == b"." || sb == b"..") && listing.len() < 2 && n <= 2 {
                continue;
            }
            let lfn = e.long_file_name_as_ucs2_units().map(|u| u.to_vec());
            // every accessor
            let name = e.file_name();
            let _ = (e.short_file_name(), e.attributes(), e.is_dir(), e.is_file(), e.len(), e.created(), e.modified(), e.accessed());
            let _ = format!("{:?}", e);
            if e.is_dir() {
                let _ = e.to_dir();
            } else {
                let _ = e.to_file();
            }
            listing.push((sb, lfn, name.encode_utf16().count()));
        }
        drop(dir);
        drop(s); // the per-thread device discards writes, so the destructors are harmless (and nothing leaks)
        Ok(listing)
    });
    let budget_hit = dev.with(|d| d.budget_hit);
    let describe = || format!("{} directory with slots {}", if c.chained { "chained" } else { "fixed-root" }, slots.iter().take(8).map(|s| hex(&s.raw)).collect::<Vec<_>>().join(" | "));
    let listing = match r {
        Caught::Panic(p) => {
            DEVS.with(|d| *d.borrow_mut() = [None, None]);
            out.violation = Some(format!("iterating a {} panicked: {}", describe(), p));
            return out;
        }
        Caught::Ok(Err(e)) => {
            out.violation = Some(format!("{}: {}", describe(), e));
            return out;
        }
        Caught::Ok(Ok(l)) => l,
    };
    if budget_hit {
        out.violation = Some(format!("iterating a {} exceeded the device-call budget", describe()));
        return out;
    }
    for (sb, lfn, name_units) in &listing {
        if lfn.as_ref().map_or(0, |l| l.len()) > 255 || *name_units > 255 {
            out.violation = Some(format!("{}: entry {:?} has a name of {} units (> 255)", describe(), String::from_utf8_lossy(sb), lfn.as_ref().map_or(*name_units, |l| l.len())));
            return out;
        }
    }
    // compare with the independent verdict under each reading of the undefined bits
    let readings: [(u8, u8, bool, &str); 4] = [(0x3F, 0x3F, true, "attr&0x3F, index=ord&0x3F, bit7 invalid"), (0x3F, 0x1F, false, "attr&0x3F, index=ord&0x1F"), (0x0F, 0x3F, true, "attr&0x0F, index=ord&0x3F, bit7 invalid"), (0x0F, 0x1F, false, "attr&0x0F, index=ord&0x1F")];
    let mut mismatch: Vec<String> = Vec::new();
    let mut any_broken = false;
    for (am, im, b7, label) in readings.iter() {
        let exp = expected(&slots, *am, *im, *b7);
        let mut ok = exp.len() == listing.len();
        let mut why = if ok { String::new() } else { format!("{} entries listed, {} expected", listing.len(), exp.len()) };
        if ok {
            for ((sb, lfn, _), (esb, e)) in listing.iter().zip(exp.iter()) {
                // the library presents 0x05 as 0xE5 in the first byte as well
                if sb != esb {
                    ok = false;
                    why = format!("short name {:?} vs {:?}", String::from_utf8_lossy(sb), String::from_utf8_lossy(esb));
                    break;
                }
                let good = match e {
                    Exp::None => lfn.is_none(),
                    Exp::Exactly(u) => lfn.as_deref() == Some(&u[..]),
                    Exp::Any => true,
                };
                if !good {
                    ok = false;
                    why = format!("entry {:?}: library long name {:?}, expected {:?}", String::from_utf8_lossy(sb), lfn.as_ref().map(|l| String::from_utf16_lossy(l)), e);
                    break;
                }
            }
        }
        if exp.iter().any(|(_, e)| *e == Exp::None) {
            any_broken = true;
        }
        if ok {
            mismatch.clear();
            break;
        }
        mismatch.push(format!("[{}] {}", label, why));
    }
    if !mismatch.is_empty() {
        out.violation = Some(format!("{}: the listing matches no reading of the specification: {}", describe(), mismatch.join("; ")));
        return out;
    }
    let has_lfn = slots.iter().any(|s| s.raw[11] & 0x0F == 0x0F && s.raw[0] != 0 && s.raw[0] != 0xE5);
    out.nontrivial = has_lfn && any_broken;
    out.classes.insert("entries_listed".into(), listing.len() as u64);
    out.classes.insert("entries_with_long_name".into(), listing.iter().filter(|l| l.1.is_some()).count() as u64);
    let _ = g;
    out
}

fn hex(b: &[u8]) -> String {
    b.iter().map(|x| format!("{:02x}", x)).collect()
}

// --------------------------------------------------------------------------------------------
// builders

pub fn short_slot(name: &[u8; 11], attr: u8) -> Vec<u8> {
    let mut s = vec![0u8; 32];
    s[..11].copy_from_slice(name);
    s[11] = attr;
    s[14] = 0x21;
    s[16] = 0x21;
    s[18] = 0x21;
    s[24] = 0x21;
    s
}

pub fn lfn_slot(order: u8, chk: u8, units: &[u16; 13], attr: u8) -> Vec<u8> {
    let mut s = vec![0u8; 32];
    s[0] = order;
    s[11] = attr;
    s[13] = chk;
    let pos = [1, 3, 5, 7, 9, 14, 16, 18, 20, 22, 24, 28, 30];
    for (i, p) in pos.iter().enumerate() {
        s[*p..*p + 2].copy_from_slice(&units[i].to_le_bytes());
    }
    s
}

pub fn run_for_name(name: &[u16], short: &[u8; 11]) -> Vec<Vec<u8>> {
    let chk = sfn_checksum(short);
    let n = (name.len() + 12) / 13;
    let mut out = Vec::new();
    for i in (0..n).rev() {
        let mut u = [0xFFFFu16; 13];
        let part = &name[i * 13..((i + 1) * 13).min(name.len())];
        u[..part.len()].copy_from_slice(part);
        if part.len() < 13 {
            u[part.len()] = 0;
        }
        let mut ord = (i + 1) as u8;
        if i == n - 1 {
            ord |= 0x40;
        }
        out.push(lfn_slot(ord, chk, &u, 0x0F));
    }
    out
}

// index 0 with only the undefined bits / the last flag set (0x20, 0x80, 0xA0, 0xC0, 0xE0) included: a continuation slot
// "0" after a run that has reached index 1
const ORDERS: &[u8] = &[0x01, 0x02, 0x03, 0x04, 0x41, 0x42, 0x43, 0x44, 0x14, 0x15, 0x54, 0x55, 0x21, 0x61, 0x81, 0xC1, 0x40, 0x60, 0x5F, 0x1F, 0x3F, 0x7F, 0x20, 0x80, 0xA0, 0xC0, 0xE0, 0x13, 0x53];

fn units_for(tag: u16) -> [u16; 13] {
    let mut u = [0u16; 13];
    for (i, x) in u.iter_mut().enumerate() {
        *x = 0x61 + ((tag as usize + i) % 26) as u16;
    }
    u
}

/// block A: all order / checksum patterns for runs of n long-name slots, with a follower pattern
pub fn pattern_case(n: usize, mut idx: u64, chained: bool) -> DirCase {
    let short: [u8; 11] = *b"SHORTNMETXT";
    let good = sfn_checksum(&short);
    let mut slots = Vec::new();
    for k in 0..n {
        let o = ORDERS[(idx % ORDERS.len() as u64) as usize];
        idx /= ORDERS.len() as u64;
        let chk = if idx % 2 == 0 { good } else { good.wrapping_add(1) };
        idx /= 2;
        let mut u = units_for(k as u16 * 3);
        // the slot nearest to the short entry sometimes carries a terminator
        if k == n - 1 && idx % 2 == 1 {
            u[5] = 0;
            for x in u[6..].iter_mut() {
                *x = 0xFFFF;
            }
        }
        slots.push(lfn_slot(o, chk, &u, 0x0F));
    }
    idx /= 2;
    match idx % 6 {
        0 => slots.push(short_slot(&short, 0x20)),
        1 => {
            let mut d = short_slot(b"DELETED TXT", 0x20);
            d[0] = 0xE5;
            slots.push(d);
            slots.push(short_slot(&short, 0x20));
        }
        2 => {
            slots.push(short_slot(b"VOLLABEL   ", 0x08));
            slots.push(short_slot(&short, 0x20));
        }
        3 => {
            slots.push(vec![0u8; 32]);
            slots.push(short_slot(&short, 0x20));
        }
        4 => {
            slots.extend(run_for_name(&"second valid name".encode_utf16().collect::<Vec<_>>(), b"SECOND~1   "));
            slots.push(short_slot(b"SECOND~1   ", 0x10));
        }
        _ => slots.push(short_slot(&short, 0x10)),
    }
    DirCase { chained, slots }
}

pub fn soup_strategy() -> impl Strategy<Value = DirCase> {
    let piece = prop_oneof![
        // a valid run + short entry, optionally damaged in one byte
        6 => ("[a-zA-Z0-9 ._éß語-]{1,40}", "[A-Z0-9]{1,8}", prop::option::weighted(0.5, (0usize..200, any::<u8>())), prop::sample::select(vec![0x20u8, 0x10, 0x00, 0x01, 0x27, 0x30, 0x16])).prop_map(|(name, sh, dmg, attr)| {
            let mut short = [b' '; 11];
            short[..sh.len()].copy_from_slice(sh.as_bytes());
            let units: Vec<u16> = name.encode_utf16().collect();
            let mut v = run_for_name(&units, &short);
            v.push(short_slot(&short, attr));
            if let Some((pos, val)) = dmg {
                let total = v.len() * 32;
                let p = pos % total;
                v[p / 32][p % 32] = val;
            }
            v
        }),
        // long runs: 19..21 slots, with or without terminator
        // (BMP only, or with valid surrogate pairs / lone surrogates sprinkled in: a pair is two units but one character)
        2 => (245usize..=262, any::<bool>(), 0usize..4, prop::collection::vec(0usize..260, 0..12)).prop_map(|(len, dir, mode, at)| {
            let mut units: Vec<u16> = (0..len).map(|i| 0x41 + (i % 26) as u16).collect();
            for p in at {
                match mode {
                    1 if p + 1 < len => {
                        units[p] = 0xD83D;
                        units[p + 1] = 0xDE00 + (p as u16 & 0x3F);
                    }
                    2 if p < len => units[p] = if p % 2 == 0 { 0xD800 } else { 0xDFFF },
                    3 if p + 1 < len && p >= len.saturating_sub(14) => {
                        units[p] = 0xD83D;
                        units[p + 1] = 0xDE00;
                    }
                    _ => {}
                }
            }
            let short = *b"LONGRUN~1  ";
            let chk = sfn_checksum(&short);
            let n = (len + 12) / 13;
            let mut v = Vec::new();
            for i in (0..n).rev() {
                let mut u = [0xFFFFu16; 13];
                let part = &units[i * 13..((i + 1) * 13).min(len)];
                u[..part.len()].copy_from_slice(part);
                if part.len() < 13 {
                    u[part.len()] = 0;
                }
                let mut ord = (i + 1) as u8;
                if i == n - 1 {
                    ord |= 0x40;
                }
                v.push(lfn_slot(ord, chk, &u, 0x0F));
            }
            v.push(short_slot(&short, if dir { 0x10 } else { 0x20 }));
            v
        }),
        // a valid run of 2..9 slots whose FIRST on-disk slot got another order byte: deleted (0xE5 reads as "last flag,
        // index 5" to a careless parser), the 0x05 escape, end marker, last flag lost, index off by one, ...
        2 => ("[a-z0-9 ]{14,110}", prop::sample::select(vec![0xE5u8, 0x05, 0x00, 0x45, 0x25, 0xC5, 0x65, 0xA5]), any::<bool>(), any::<u8>()).prop_map(|(name, first, rel, k)| {
            let short = *b"FIRSTSLTTXT";
            let units: Vec<u16> = name.encode_utf16().collect();
            let mut v = run_for_name(&units, &short);
            let n = v.len() as u8;
            v[0][0] = if rel { [n, n + 1, 0x40 | (n + 1), 0x40 | (n - 1), 0xE5, 0x80 | n][k as usize % 6] } else { first };
            v.push(short_slot(&short, 0x20));
            v
        }),
        // runs numbered 21..31 whose name is short: the upper slots are pure 0xFFFF padding (index > 20 is never valid)
        1 => (21usize..=31, 1usize..60, any::<bool>()).prop_map(|(nslots, len, zero_pad)| {
            let short = *b"TOOMANY~1  ";
            let chk = sfn_checksum(&short);
            let units: Vec<u16> = (0..len).map(|i| 0x61 + (i % 26) as u16).collect();
            let mut v = Vec::new();
            for i in (0..nslots).rev() {
                let mut u = [if zero_pad { 0u16 } else { 0xFFFFu16 }; 13];
                if i * 13 < len {
                    let part = &units[i * 13..((i + 1) * 13).min(len)];
                    u = [0xFFFFu16; 13];
                    u[..part.len()].copy_from_slice(part);
                    if part.len() < 13 {
                        u[part.len()] = 0;
                    }
                }
                let mut ord = (i + 1) as u8;
                if i == nslots - 1 {
                    ord |= 0x40;
                }
                v.push(lfn_slot(ord, chk, &u, 0x0F));
            }
            v.push(short_slot(&short, 0x20));
            v
        }),
        // garbage long-name slots
        3 => (any::<u8>(), any::<u8>(), prop::collection::vec(any::<u16>(), 13..=13), prop::sample::select(vec![0x0Fu8, 0x0F, 0x1F, 0x2F, 0x3F, 0x4F, 0x8F])).prop_map(|(o, c, u, a)| {
            let mut arr = [0u16; 13];
            arr.copy_from_slice(&u);
            vec![lfn_slot(o, c, &arr, a)]
        }),
        // short entries with arbitrary bytes (names with 0x05, 0xE5 inside, control bytes, OEM bytes, odd dates)
        3 => prop::collection::vec(any::<u8>(), 32..=32).prop_map(|mut b| {
            if b[11] & 0x0F == 0x0F {
                b[11] &= 0xF7;
            }
            vec![b]
        }),
        1 => Just(vec![{
            let mut d = short_slot(b"GONE    TXT", 0x20);
            d[0] = 0xE5;
            d
        }]),
        1 => Just(vec![short_slot(b"LABEL      ", 0x08)]),
        1 => Just(vec![vec![0u8; 32]]),
        1 => prop::collection::vec(any::<u8>(), 32..=32).prop_map(|b| vec![b]),
    ];
    (any::<bool>(), prop::collection::vec(piece, 1..8)).prop_map(|(chained, pieces)| DirCase { chained, slots: pieces.into_iter().flatten().collect() })
}

/// the same regions through the build with the fixed long-name buffer (featdrv variant B) against the default build
/// (variant A): identical listings, no crash
fn fixed_buffer_batch(cases: &[DirCase]) -> Result<Vec<CaseOut>, String> {
    let hs: Vec<super::c19::FHist> = cases.iter().map(|c| super::c19::FHist { class: 0, kind: 0, ops: vec![super::c19::FOp::RawDir(c.slots.clone())] }).collect();
    super::c19::eval_batch(&hs)
}

pub fn replay(v: &serde_json::Value) -> Result<Option<String>, String> {
    let c: DirCase = serde_json::from_value(v["case"].clone()).map_err(|e| format!("bad case: {}", e))?;
    if v["kind"].as_str() == Some("fixedbuf") {
        return Ok(fixed_buffer_batch(&[c])?.into_iter().next().and_then(|o| o.violation));
    }
    let b = make_bases()?;
    if let Some(m) = eval(&b, &c).violation {
        return Ok(Some(m));
    }
    // a case found by the block that runs under a logger accepting every level only fails there
    crate::session::set_logging(true);
    let r = eval(&b, &c).violation.map(|m| format!("(logger at trace level) {}", m));
    crate::session::set_logging(false);
    Ok(r)
}

fn fail(c: &DirCase, m: String) -> Failure {
    Failure { message: m, case: serde_json::to_value(c).unwrap(), kind: "dirslots".into() }
}

pub fn run(tier: Tier, seed: u64) -> i32 {
    let rule = "directory regions (fixed FAT12 root and a two-cluster chained directory) filled with generated 32-byte slots, cluster fields forced valid: block A = every order/last-flag/checksum pattern of runs of 1..3 long-name slots over 29 interesting order bytes (incl. index 0 with only flag / undefined bits) x follower (short entry, deleted slot, label, end marker, second run, directory); block B = every value of each of the 32 bytes of each slot of a valid two-slot run and of its short entry, and every checksum value of the run x lead byte 0x05 / 0xE5 / 0x85 / a letter of the short entry; block C = random slot soup (valid runs with one damaged byte, 19-21 slot runs of 245..262 units with and without terminator, BMP-only or with surrogate pairs / lone surrogates, valid runs whose first on-disk slot got another order byte (deleted mark, 0x05, index off by one ...), runs numbered 21..31 with padding-only upper slots, garbage long-name slots incl. attr 0x1F/0x2F/0x3F, arbitrary short slots, deleted, labels, end markers); oracle = iteration and every accessor + Debug terminate without panic within a device-call budget, names <= 255 units, and the listing (entries, short names, long names) equals refdec's backwards run parser under at least one reading of the undefined bits; block C2 = the order patterns of 1..2 slots and a soup sample again under a logger that accepts every level; block D = the order patterns of 1..3 slots and the slot soup through the build with the fixed long-name buffer, listing compared with the default build's (no crash, same entries); non-trivial = region with a long-name slot whose run is broken; distinct by hash of the region";
    let mut rep = Report::new("C17", tier, seed, "exploration", rule);
    rep.assume("undefined bits (attr bits 4-5 of long-name slots, order-byte bits 5 and 7) may be read either way; a run whose order/checksum are valid but whose NUL/0xFFFF layout is malformed may be returned or dropped");
    rep.assume("blocks A-C drive the default (alloc) build in-process against the independent parser; block D feeds the same families to the fixed-buffer build and the default build through featdrv and compares their listings");
    let b = match make_bases() {
        Ok(b) => b,
        Err(e) => {
            eprintln!("{}", e);
            return 2;
        }
    };
    let b = &b;
    let mut reg = Block::new("regress");
    for f in run::regress_files("C17") {
        if let Ok(v) = run::load_replay(&f) {
            if let Ok(c) = serde_json::from_value::<DirCase>(v["case"].clone()) {
                let out = eval(b, &c);
                reg.record(&out, || v["case"].clone());
                if let Some(m) = out.violation {
                    if reg.failure.is_none() {
                        reg.failure = Some(fail(&c, format!("regression case {}: {}", f, m)));
                    }
                }
            }
        }
    }
    rep.add(reg);
    // block A
    for n in 1..=3usize {
        if rep.failed() {
            break;
        }
        let per_slot = ORDERS.len() as u64 * 2;
        let total = per_slot.pow(n as u32) * 2 * 6;
        let stride = if n == 3 { tier.pick(7u64, 1u64) } else { 1 };
        let mut a = run::run_indexed(&format!("lfn_run_patterns_{}_slots", n), total / stride, |i, blk| {
            let idx = i * stride + if stride > 1 { seed % stride } else { 0 };
            let c = pattern_case(n, idx, idx % 2 == 1);
            let out = eval(b, &c);
            blk.record(&out, || serde_json::to_value(&c).unwrap());
            out.violation.map(|m| fail(&c, m))
        });
        a.exhaustive = stride == 1;
        rep.add(a);
    }
    // block B: single byte values
    if !rep.failed() {
        let short = *b"BYTEFLIPTXT";
        let name: Vec<u16> = "a long name of 20 un".encode_utf16().collect();
        let mut base_slots = run_for_name(&name, &short);
        base_slots.push(short_slot(&short, 0x20));
        let ns = base_slots.len() as u64;
        let mut bb = run::run_indexed("every_value_of_every_byte_of_each_slot", ns * 32 * 256 * 2, |i, blk| {
            let chained = i % 2 == 1;
            let i = i / 2;
            let val = (i % 256) as u8;
            let byte = ((i / 256) % 32) as usize;
            let slot = (i / (256 * 32)) as usize;
            let mut slots = base_slots.clone();
            slots[slot][byte] = val;
            let c = DirCase { chained, slots };
            let out = eval(b, &c);
            blk.record(&out, || serde_json::to_value(&c).unwrap());
            out.violation.map(|m| fail(&c, m))
        });
        bb.exhaustive = true;
        rep.add(bb);
    }
    // block B2: the lead byte 0x05 (the stored form of a name that begins with the character 0xE5) x every checksum
    // value carried by the whole run: exactly the checksum of the eleven bytes AS STORED ties the run to the entry
    if !rep.failed() {
        let name: Vec<u16> = "a long name of 20 un".encode_utf16().collect();
        let leads = [0x05u8, b'B', 0xE5, 0x85];
        let mut b2 = run::run_indexed("lead_byte_05_x_every_run_checksum", leads.len() as u64 * 256 * 2, |i, blk| {
            let chained = i % 2 == 1;
            let i = i / 2;
            let chk = (i % 256) as u8;
            let mut short = *b"BYTEFLIPTXT";
            short[0] = leads[(i / 256) as usize];
            let mut slots = run_for_name(&name, &short);
            for s in slots.iter_mut() {
                s[13] = chk;
            }
            slots.push(short_slot(&short, 0x20));
            let c = DirCase { chained, slots };
            let out = eval(b, &c);
            blk.record(&out, || serde_json::to_value(&c).unwrap());
            out.violation.map(|m| fail(&c, m))
        });
        b2.exhaustive = true;
        rep.add(b2);
    }
    // block C: soup
    if !rep.failed() {
        let n = tier.pick(500_000u32, 5_000_000u32);
        rep.add(run::run_random("random_slot_soup", seed, n, "dirslots", || run::boxed(soup_strategy()), |c: &DirCase| eval(b, c)));
    }
    // block C2: the same families in a process whose logger accepts every level (the default features compile every log
    // statement in; their arguments are evaluated only then)
    if !rep.failed() {
        crate::session::set_logging(true);
        let per_slot = ORDERS.len() as u64 * 2;
        for n in 1..=2usize {
            if rep.failed() {
                break;
            }
            let total = per_slot.pow(n as u32) * 2 * 6;
            let mut a = run::run_indexed(&format!("lfn_run_patterns_{}_slots_with_a_trace_level_logger", n), total, |i, blk| {
                let c = pattern_case(n, i, i % 2 == 1);
                let out = eval(b, &c);
                blk.record(&out, || serde_json::to_value(&c).unwrap());
                out.violation.map(|m| fail(&c, format!("(logger at trace level) {}", m)))
            });
            a.exhaustive = true;
            rep.add(a);
        }
        if !rep.failed() {
            let n = tier.pick(100_000u32, 1_000_000u32);
            rep.add(run::run_random("random_slot_soup_with_a_trace_level_logger", seed ^ 0x10C, n, "dirslots", || run::boxed(soup_strategy()), |c: &DirCase| eval(b, c)));
        }
        crate::session::set_logging(false);
    }
    // block D: the fixed-buffer build (no alloc feature) on the same families, as a differential against the default build
    if !rep.failed() {
        let per_slot = ORDERS.len() as u64 * 2;
        let n1 = per_slot * 12;
        let n2 = per_slot.pow(2) * 12;
        let n3 = tier.pick(40_000u64, 600_000u64);
        let nsoup = tier.pick(30_000u64, 600_000u64);
        let total = n1 + n2 + n3 + nsoup;
        let batch = 500u64;
        let nb = (total + batch - 1) / batch;
        let d = run::run_indexed("fixed_buffer_build_differential", nb, |bi, blk| {
            use proptest::strategy::ValueTree;
            use proptest::test_runner::{Config, RngAlgorithm, TestRng, TestRunner};
            let mut seed_bytes = [0u8; 32];
            let mut m = run::Mix::new(seed, 0xC17B + bi);
            for ch in seed_bytes.chunks_mut(8) {
                ch.copy_from_slice(&m.next().to_le_bytes());
            }
            let mut runner = TestRunner::new_with_rng(Config::default(), TestRng::from_seed(RngAlgorithm::ChaCha, &seed_bytes));
            let strat = soup_strategy();
            let mut cases: Vec<DirCase> = Vec::new();
            for k in bi * batch..((bi + 1) * batch).min(total) {
                if k < n1 {
                    cases.push(pattern_case(1, k, false));
                } else if k < n1 + n2 {
                    cases.push(pattern_case(2, k - n1, false));
                } else if k < n1 + n2 + n3 {
                    let space = per_slot.pow(3) * 12;
                    cases.push(pattern_case(3, m.next() % space, false));
                } else if let Ok(t) = strat.new_tree(&mut runner) {
                    let mut c = t.current();
                    c.chained = false;
                    cases.push(c);
                }
            }
            let outs = match fixed_buffer_batch(&cases) {
                Ok(o) => o,
                Err(e) => return Some(Failure { message: format!("harness: {}", e), case: serde_json::Value::Null, kind: "abort".into() }),
            };
            for (c, out) in cases.iter().zip(outs.iter()) {
                let mut o = CaseOut::default();
                o.hash = out.hash;
                o.nontrivial = c.slots.iter().any(|s| s.len() == 32 && s[11] & 0x0F == 0x0F && s[0] != 0 && s[0] != 0xE5);
                o.violation = out.violation.clone();
                blk.record(&o, || serde_json::to_value(c).unwrap());
                if let Some(mm) = &out.violation {
                    return Some(Failure { message: format!("root directory region through the fixed-buffer build: {}", mm), case: serde_json::to_value(c).unwrap(), kind: "fixedbuf".into() });
                }
            }
            None
        });
        if d.failure.as_ref().map_or(false, |f| f.kind == "abort") {
            eprintln!("{}", d.failure.as_ref().unwrap().message);
            return 2;
        }
        rep.add(d);
    }
    if !rep.failed() && tier == Tier::Thorough {
        rep.add(run::fuzz_block("dirslots", 8_000_000, seed, 2048));
    }
    rep.finish()
}
