//! C20 - large volumes: 64-bit addressing, last clusters, allocation wrap-around
use super::hist::{self, HistProp};
use crate::gen::{self, Case, GenCfg, K};
use crate::imggen::GenGeom;
use crate::ops::{Aspect, Op, RunCfg, Trace};
use crate::refdec::Fk;
use crate::run::{self, Block, Report, Tier};
use crate::vol::{LargeCfg, VolCfg};
use proptest::prelude::*;

fn nontrivial(t: &Trace) -> bool {
    t.has("data_cluster_beyond_4g") || t.has("alloc_wrapped")
}

/// (bps, spc, total sectors, built by imggen?)
pub const GEOMS: &[(u16, u8, u32, bool)] = &[
    (512, 64, u32::MAX, true),
    (512, 128, u32::MAX, true),
    (512, 8, 8_400_000, true),
    (512, 32, 1 << 31, true),
    // exactly the largest cluster count FAT32 allows (0x0FFFFFF4; highest cluster number 0x0FFFFFF5): FAT size given
    (4096, 1, 0x0FFF_FFF4 + 2 * 262_144 + 32, true),
    (4096, 32, u32::MAX, true),
    (512, 64, u32::MAX, false),
    (4096, 8, 1 << 30, false),
    (512, 16, 0x7000_0000, false),
    // just above 4 GiB with the fewest clusters FAT32 allows (64 KiB clusters): small enough a table to be filled
    // completely, so that "the only free cluster" can be placed anywhere relative to the hint
    (512, 128, 8_420_000, true),
];

pub fn large_vol(geom_idx: usize, l: LargeCfg) -> VolCfg {
    let (bps, spc, total, by_gen) = GEOMS[geom_idx % GEOMS.len()];
    VolCfg {
        fat: 32,
        bps,
        spc,
        fats: 2,
        root_entries: 0,
        total_sectors: total,
        free_lo: None,
        free_hi: 0,
        fsinfo_unknown: false,
        pad_sectors: 8,
        status0: 0,
        access_date: false,
        gen: if by_gen { Some(GenGeom { rsvd: 32, fatsz: if geom_idx % GEOMS.len() == 4 { 262_144 } else { 0 }, root_from_end: l.root_at_end, ..Default::default() }) } else { None },
        large: Some(l),
        short_io: 0,
        populate: None,
        stale_free: None,
        measure: false,
    }
}

pub fn large_cfgs() -> Vec<LargeCfg> {
    let mut v = Vec::new();
    for hint in [Some(0), Some(-1), Some(1), Some(-40), None] {
        v.push(LargeCfg { hint_rel: hint, tail_window: 0, tail_free: vec![], head_used: 0, alias_bad: false, root_at_end: 0 });
        v.push(LargeCfg { hint_rel: hint, tail_window: 64, tail_free: vec![0], head_used: 9, alias_bad: false, root_at_end: 0 });
        v.push(LargeCfg { hint_rel: hint, tail_window: 64, tail_free: vec![], head_used: 9, alias_bad: false, root_at_end: 0 });
        v.push(LargeCfg { hint_rel: hint, tail_window: 3000, tail_free: vec![0, 1, 2, 50], head_used: 0, alias_bad: false, root_at_end: 0 });
        v.push(LargeCfg { hint_rel: hint, tail_window: 48, tail_free: vec![1, 3], head_used: 2, alias_bad: true, root_at_end: 0 });
    }
    // the root directory itself in the last / second-to-last cluster (beyond 4 GiB and 1 TiB on these volumes)
    for (k, hint) in [(1u8, Some(-5i32)), (2, Some(0)), (1, None), (2, Some(-1))] {
        v.push(LargeCfg { hint_rel: hint, tail_window: 0, tail_free: vec![], head_used: 0, alias_bad: false, root_at_end: k });
    }
    // hints far enough before the end that a scan in blocks cannot reach the end in one step, with everything from the
    // hint to the last cluster in use (or only the very last one free): the scan has to run off the end and wrap
    for (h, w) in [(-127i32, 200u32), (-128, 200), (-129, 200), (-200, 300), (-257, 300), (-1000, 1100)] {
        v.push(LargeCfg { hint_rel: Some(h), tail_window: w, tail_free: vec![], head_used: 4, alias_bad: false, root_at_end: 0 });
        v.push(LargeCfg { hint_rel: Some(h), tail_window: w, tail_free: vec![0], head_used: 0, alias_bad: false, root_at_end: 0 });
    }
    v
}

pub fn prop() -> HistProp {
    let mut rc = RunCfg::new(&[Aspect::File, Aspect::Fsck, Aspect::Regions, Aspect::Large, Aspect::Panic, Aspect::Budget, Aspect::Stats]);
    rc.regions = true;
    rc.placement = true;
    rc.flush_each = true;
    rc.fsck_kinds = vec![Fk::FatRange, Fk::Cycle, Fk::CrossLink, Fk::Lost, Fk::SizeChain, Fk::DotEntries, Fk::AfterEnd, Fk::LfnRun, Fk::Orphan];
    rc.budget_per_op = 3_000_000;
    let mut gc = GenCfg::fileio();
    gc.max_ops = 14;
    gc.weights = vec![(K::NewFileWritten, 16), (K::Write, 16), (K::Read, 8), (K::Seek, 8), (K::OpenSeekRead, 6), (K::Extents, 5), (K::Truncate, 5), (K::CloseFile, 4), (K::CreateDir, 5), (K::Remove, 8), (K::Rename, 3), (K::Remount, 3), (K::Stats, 2), (K::List, 2)];
    gc.max_depth = 2;
    gc.max_io_pct = 320;
    HistProp {
        id: "C20",
        level: "exploration",
        rule: "sparse simulated FAT32 volumes built by imggen and by the library's formatter: 2^32-1 sectors of 512 bytes (2 TiB - 512 B) with 32 KiB and 64 KiB clusters, 1 TiB, 4 GiB+, 4096-byte sectors with 0x0FFFFFF4 clusters and with 2^32-1 sectors (16 TiB); FS-info next-free hint at the last cluster, last-1, last+1 (invalid), last-40 or unknown; trailing table windows pre-filled so that the scan must wrap, with free clusters left at the very end; a 4 GiB volume of 64 KiB clusters whose table is completely taken except one or two clusters placed just below, at, far below or behind the hint; every newly allocated cluster must be the first free one a search from the modelled next-free hint (wrapping from the last cluster to cluster 2) reaches; the largest volume also formatted without a sector count (the formatter measures a storage of exactly 2^32-1 sectors); scripted and random short histories (create, multi-cluster write, read back, seek, extents, truncate, remove, mkdir, remount) under the byte-array model, refdec fsck through a sparse FAT view, the region/ownership check of every device write against independent 64-bit geometry, and the device's high-water marks (nothing read or written past the declared end); non-trivial = a data cluster at a byte offset >= 2^32 or an allocation that wrapped around; distinct by hash(config, ops)",
        run_cfg: rc,
        gen_cfg: gc,
        nontrivial,
        quick_cases: 300,
        thorough_cases: 10000,
        pressure_cases: (0, 0),
        assumptions: vec!["untouched bytes of the sparse device read as zero", "FS-info free count in the generated volumes is exact (a recount of 2^26 entries is legitimately long)"],
    }
}

pub fn scripted_ops(cs: u32) -> Vec<Op> {
    vec![
        Op::CreateFile { via: 0, path: "big file one.bin".into(), keep: 1 },
        Op::Write { h: 0, len: cs + 5, seed: 1 },
        Op::Write { h: 0, len: 2 * cs, seed: 2 },
        Op::Seek { h: 0, whence: 0, off: 1 },
        Op::Read { h: 0, len: 2 * cs },
        Op::Extents { h: 0 },
        Op::CreateDir { via: 0, path: "d".into(), keep: 0 },
        Op::CreateFile { via: 0, path: "d/second".into(), keep: 2 },
        Op::Write { h: 1, len: 3, seed: 3 },
        Op::Write { h: 1, len: cs, seed: 4 },
        Op::CloseFile { h: 1 },
        Op::Stats,
        Op::Remount { how: 0 },
        Op::OpenFile { via: 0, path: "BIG FILE ONE.BIN".into(), keep: 1 },
        Op::Seek { h: 0, whence: 2, off: -7 },
        Op::Read { h: 0, len: 100 },
        Op::Seek { h: 0, whence: 0, off: cs as i64 },
        Op::Truncate { h: 0 },
        Op::Write { h: 0, len: cs + 1, seed: 5 },
        Op::Extents { h: 0 },
        Op::CloseFile { h: 0 },
        Op::OpenFile { via: 0, path: "d/second".into(), keep: 0 },
        Op::Remove { via: 0, path: "big file one.bin".into() },
        Op::CreateFile { via: 0, path: "third".into(), keep: 3 },
        Op::Write { h: 2, len: 2 * cs + 9, seed: 6 },
        Op::CloseFile { h: 2 },
        Op::List { via: 0 },
        Op::Stats,
        Op::Remount { how: 1 },
        Op::OpenFile { via: 0, path: "third".into(), keep: 0 },
        // a file that starts in a high cluster is emptied (its entry must stop naming any cluster, high word included),
        // reopened after a remount, and filled again from wherever the allocator is by then
        Op::CreateFile { via: 0, path: "emptied later.bin".into(), keep: 1 },
        Op::Write { h: 0, len: cs + 5, seed: 7 },
        Op::CloseFile { h: 0 },
        Op::Remount { how: 0 },
        Op::OpenFile { via: 0, path: "emptied later.bin".into(), keep: 1 },
        Op::Truncate { h: 0 },
        Op::CloseFile { h: 0 },
        Op::Stats,
        Op::Remount { how: 1 },
        Op::OpenFile { via: 0, path: "emptied later.bin".into(), keep: 1 },
        Op::Read { h: 0, len: 10 },
        Op::Write { h: 0, len: 2 * cs + 1, seed: 8 },
        Op::CloseFile { h: 0 },
        Op::Remount { how: 0 },
        Op::OpenFile { via: 0, path: "emptied later.bin".into(), keep: 0 },
        Op::Remove { via: 0, path: "emptied later.bin".into() },
        Op::Stats,
    ]
}

pub fn run(tier: Tier, seed: u64) -> i32 {
    let hp = prop();
    let mut rep = Report::new("C20", tier, seed, hp.level, hp.rule);
    for a in &hp.assumptions {
        rep.assume(a);
    }
    let kb = hist::known_block(&hp, &mut rep);
    rep.add(kb);
    rep.add(hist::regress_block(&hp));
    // scripted histories on every geometry x hint/window configuration
    let lcs = large_cfgs();
    let geoms: Vec<usize> = tier.pick(vec![0, 2, 4, 5, 6], (0..GEOMS.len()).collect());
    let mut work: Vec<(usize, usize)> = Vec::new();
    for g in &geoms {
        for (li, _) in lcs.iter().enumerate() {
            if tier == Tier::Thorough || (li + *g) % 2 == 0 || *g == 0 {
                work.push((*g, li));
            }
        }
    }
    // the library-formatted 2^32-1-sector volume once more, this time with the formatter measuring the storage itself
    // (geometry index + 100 = same geometry, no sector count given, no canary sectors behind the volume)
    for li in [0usize, 1] {
        work.push((106, li));
    }
    let hp_ref = &hp;
    let b = run::run_indexed("scripted_histories_all_hint_and_window_configs", work.len() as u64, |i, blk| {
        let (g, li) = work[i as usize];
        let mut vol = large_vol(g % 100, lcs[li].clone());
        if g >= 100 {
            vol.measure = true;
            vol.pad_sectors = 0;
        }
        let case = Case { vol: vol.clone(), ops: scripted_ops(vol.cluster_size()) };
        let out = hist::eval_case(hp_ref, &case);
        blk.record(&out, || serde_json::json!({"vol": vol, "ops": "scripted (47 ops)"}));
        out.violation.map(|m| {
            let fails = |ops: &[Op]| hist::eval_case(hp_ref, &Case { vol: vol.clone(), ops: ops.to_vec() }).violation.is_some();
            let min = run::ddmin(&case.ops, &fails);
            let mc = Case { vol: vol.clone(), ops: min };
            let msg = hist::eval_case(hp_ref, &mc).violation.unwrap_or(m);
            run::Failure { message: msg, case: serde_json::to_value(&mc).unwrap(), kind: "history".into() }
        })
    });
    rep.add(b);
    // a volume without free clusters except one or two placed around the hint: whatever the hint, a file can be
    // written as long as the table has a free entry, and the cluster it gets is the one the search reaches first
    if !rep.failed() {
        let mut nf: Vec<LargeCfg> = Vec::new();
        for hint in [Some(0), Some(-1), Some(-2), Some(-40), Some(1), None, Some(-30000)] {
            for free in [vec![1u32], vec![0], vec![2], vec![41], vec![0, 1], vec![5000], vec![3, 39], vec![30001], vec![29999, 30000]] {
                nf.push(LargeCfg { hint_rel: hint, tail_window: u32::MAX, tail_free: free, head_used: 1, alias_bad: false, root_at_end: 0 });
            }
        }
        let small = GEOMS.len() - 1;
        let b = run::run_indexed("only_free_clusters_placed_around_the_hint", nf.len() as u64, |i, blk| {
            let vol = large_vol(small, nf[i as usize].clone());
            let cs = vol.cluster_size();
            let ops = vec![
                Op::CreateFile { via: 0, path: "x.bin".into(), keep: 1 },
                Op::Write { h: 0, len: 5, seed: 1 },
                Op::CloseFile { h: 0 },
                Op::Stats,
                Op::CreateFile { via: 0, path: "y.bin".into(), keep: 1 },
                Op::Write { h: 0, len: cs + 1, seed: 2 },
                Op::CloseFile { h: 0 },
                Op::Remove { via: 0, path: "x.bin".into() },
                Op::CreateFile { via: 0, path: "z.bin".into(), keep: 1 },
                Op::Write { h: 0, len: 7, seed: 3 },
                Op::Seek { h: 0, whence: 0, off: 0 },
                Op::Truncate { h: 0 },
                Op::Write { h: 0, len: 9, seed: 4 },
                Op::CloseFile { h: 0 },
                Op::Remount { how: 0 },
                Op::Stats,
                Op::Remove { via: 0, path: "y.bin".into() },
                Op::CreateDir { via: 0, path: "d".into(), keep: 0 },
                Op::Stats,
            ];
            let case = Case { vol: vol.clone(), ops };
            let out = hist::eval_case(hp_ref, &case);
            blk.record(&out, || serde_json::json!({"vol": vol, "ops": "scripted (19 ops)"}));
            out.violation.map(|m| run::Failure { message: m, case: serde_json::to_value(&case).unwrap(), kind: "history".into() })
        });
        rep.add(b);
    }
    if !rep.failed() {
        let gc = hp.gen_cfg.clone();
        let lcs2 = lcs.clone();
        let ngeo = tier.pick(6usize, GEOMS.len());
        let n = tier.pick(hp.quick_cases, hp.thorough_cases);
        let blk: Block = run::run_random(
            "random_histories_on_large_volumes",
            seed,
            n,
            "history",
            move || {
                let gc = gc.clone();
                let lcs2 = lcs2.clone();
                run::boxed((any::<u16>(), any::<u16>(), prop::collection::vec(gen::rich_name_strategy(), 6..=6), prop::collection::vec(gen::raw_op_strategy(), 1..=14)).prop_map(move |(g, l, extra, raws)| {
                    let vol = large_vol((g as usize * ngeo) >> 16, lcs2[(l as usize * lcs2.len()) >> 16].clone());
                    let nt = gen::NameTable::new(&gc, &extra);
                    let cs = vol.cluster_size();
                    let mut mem: Vec<String> = Vec::new();
                    let ops = raws.iter().flat_map(|r| gen::decode_op(&gc, &nt, cs, r, &mut mem)).collect();
                    Case { vol, ops }
                }))
            },
            |c: &Case| hist::eval_case(hp_ref, c),
        );
        rep.add(blk);
    }
    rep.finish()
}
