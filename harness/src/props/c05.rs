//! C05 - free-space accounting is exact and space is fully reclaimed
use super::hist::{self, HistProp};
use crate::gen::{Case, GenCfg, K};
use crate::ops::{Aspect, Op, RunCfg, Trace};
use crate::refdec::Fk;
use crate::run::{self, Block, Report, Tier};
use crate::vol::VolCfg;

fn nontrivial(t: &Trace) -> bool {
    (t.has("alloc_write") || t.has("mkdir")) && (t.has("remove") || t.has("truncate_shrinks")) && (t.has("stats_at_zero_free") || t.has("write_no_space") || t.has("no_space"))
}

fn base(stats_each: bool) -> HistProp {
    let mut rc = RunCfg::new(&[Aspect::Stats, Aspect::Fsck, Aspect::Panic, Aspect::Budget]);
    rc.fsck_kinds = vec![Fk::Lost, Fk::SizeChain, Fk::FatRange, Fk::CrossLink, Fk::Cycle];
    rc.stats_each = stats_each;
    let mut gc = GenCfg::mixed();
    gc.weights = vec![
        (K::Stats, if stats_each { 0 } else { 8 }),
        (K::OpenFile, 3),
        (K::CreateFile, 14),
        (K::CreateDir, 8),
        (K::Write, 24),
        (K::NewFileWritten, 14),
        (K::SeekTruncate, 6),
        (K::Seek, 5),
        (K::CloseFile, 4),
        (K::Truncate, 8),
        (K::Remove, 16),
        (K::Rename, 6),
        (K::Remount, 3),
    ];
    gc.weights.retain(|w| w.1 > 0);
    gc.tiny_free_pct = 85;
    gc.max_io_pct = 400;
    gc.fsinfo_unknown_pct = 30;
    gc.status0 = vec![0, 0, 0, 1];
    gc.invalid_names = true;
    gc.max_depth = 2;
    gc.populate_pct = 10;
    // a third of the sessions keep access dates (the option rewrites directory entries on reads and listings)
    gc.access_date = vec![false, false, true];
    HistProp {
        id: "C05",
        level: "exploration",
        rule: "allocation-heavy random histories (create, multi-cluster write, truncate, remove, mkdir, rename, remount) on volumes with 3..40 free clusters of every FAT width (FAT32 with known / unknown / ignored-because-dirty FS-info count), stats() compared with the number of zero entries refdec counts in the raw table after every call (mode A) or at random points (mode B); FS-info count and hint checked after every unmount; every NotEnoughSpace must be justified by the independent space predictor; lost clusters / size-chain mismatches count as unreclaimed space; plus scripted fill-to-full / delete-all cycles; non-trivial = free count moved in both directions and reached 0 (or a call was refused for lack of space); distinct by hash(config, ops)",
        run_cfg: rc,
        gen_cfg: gc,
        nontrivial,
        quick_cases: 10000,
        thorough_cases: 200000,
        pressure_cases: (4000, 60000),
        assumptions: vec!["FS-info count in generated volumes is exact or unknown (a wrong stored count is documented to be returned as is)", "documented preconditions of DESIGN 4.3"],
    }
}

pub fn prop() -> HistProp {
    base(true)
}

/// scripted fill-to-full / delete-all cycles
fn cycle_case(vol: VolCfg, cycles: usize, files: usize, writes: usize, len: u32) -> Case {
    let mut ops = vec![Op::Stats];
    for c in 0..cycles {
        for f in 0..files {
            ops.push(Op::CreateFile { via: 0, path: format!("f{}_{}", c % 3, f), keep: 1 });
            for w in 0..writes {
                ops.push(Op::Write { h: 0, len, seed: (c * 7 + f * 3 + w) as u8 });
            }
            ops.push(Op::CloseFile { h: 0 });
        }
        ops.push(Op::CreateDir { via: 0, path: format!("dir{}", c % 2), keep: 0 });
        ops.push(Op::CreateFile { via: 0, path: format!("dir{}/inner file with a long name {}", c % 2, c), keep: 1 });
        ops.push(Op::Write { h: 0, len, seed: 9 });
        ops.push(Op::CloseFile { h: 0 });
        ops.push(Op::Stats);
        if c % 4 == 3 {
            ops.push(Op::Remount { how: (c % 8 == 7) as u8 });
        }
        for f in 0..files {
            if f % 2 == 0 {
                ops.push(Op::OpenFile { via: 0, path: format!("f{}_{}", c % 3, f), keep: 1 });
                ops.push(Op::Truncate { h: 0 });
                ops.push(Op::CloseFile { h: 0 });
            }
            ops.push(Op::Remove { via: 0, path: format!("f{}_{}", c % 3, f) });
        }
        ops.push(Op::Remove { via: 0, path: format!("dir{}/inner file with a long name {}", c % 2, c) });
        ops.push(Op::Remove { via: 0, path: format!("dir{}", c % 2) });
        ops.push(Op::Stats);
    }
    Case { vol, ops }
}

pub fn run(tier: Tier, seed: u64) -> i32 {
    let a = base(true);
    let b = base(false);
    let mut rep = Report::new("C05", tier, seed, a.level, a.rule);
    for x in &a.assumptions {
        rep.assume(x);
    }
    let kb = hist::known_block(&a, &mut rep);
    rep.add(kb);
    rep.add(hist::regress_block(&a));
    // scripted cycles
    if !rep.failed() {
        let mut blk = Block::new("fill_delete_cycles");
        let cycles = tier.pick(6, 200);
        let mut vols = Vec::new();
        for p in [0usize, 1, 3, 5, 8, 9, 12, 13] {
            for lo in [6u16, 20] {
                let mut v = VolCfg::from_preset(p);
                v.free_lo = Some(lo);
                v.free_hi = 2;
                vols.push(v.clone());
                if v.fat == 32 {
                    v.fsinfo_unknown = true;
                    vols.push(v);
                }
            }
        }
        for g in [0usize, 5, 6] {
            let mut v = VolCfg::from_gen_preset(g);
            v.free_lo = Some(10);
            vols.push(v);
        }
        for (i, v) in vols.iter().enumerate() {
            let cs = v.cluster_size();
            let case = cycle_case(v.clone(), cycles, 4, 6, cs + 17 + i as u32);
            for hp in [&a, &b] {
                let mut out = hist::eval_case(hp, &case);
                out.hash = run::hash_str(&format!("cycle{}{}", i, hp.run_cfg.stats_each));
                blk.record(&out, || serde_json::json!({"vol": v, "cycles": cycles, "ops": case.ops.len(), "first_ops": &case.ops[..12.min(case.ops.len())]}));
                if let Some(m) = out.violation {
                    if blk.failure.is_none() {
                        // minimise the op list
                        let fails = |ops: &[Op]| hist::eval_case(hp, &Case { vol: v.clone(), ops: ops.to_vec() }).violation.is_some();
                        let min_ops = run::ddmin(&case.ops, &fails);
                        let mc = Case { vol: v.clone(), ops: min_ops };
                        let msg = hist::eval_case(hp, &mc).violation.unwrap_or(m);
                        blk.failure = Some(run::Failure { message: msg, case: serde_json::to_value(&mc).unwrap(), kind: "history".into() });
                    }
                }
            }
        }
        rep.add(blk);
    }
    // a stale (too low) free count in the FAT32 information sector is only a hint: whatever it says, a call may be
    // refused for lack of space only when the TABLE has no free cluster (no statistics query and no remount here: what
    // stats() reports from a stale hint is documented as possibly incorrect)
    if !rep.failed() {
        let mut blk = Block::new("stale_fsinfo_count_is_only_a_hint");
        let mut vols = Vec::new();
        for stale in [0u32, 1, 2, 5] {
            let mut v = VolCfg::from_preset(12);
            v.stale_free = Some(stale);
            vols.push(v.clone());
            let mut t = VolCfg::from_preset(13);
            t.stale_free = Some(stale);
            t.free_lo = Some(9);
            vols.push(t);
            let mut g = VolCfg::from_gen_preset(7);
            g.stale_free = Some(stale);
            vols.push(g);
        }
        for (i, v) in vols.iter().enumerate() {
            let cs = v.cluster_size();
            let mut ops = vec![Op::CreateFile { via: 0, path: "first.bin".into(), keep: 1 }];
            for j in 0..4u8 {
                ops.push(Op::Write { h: 0, len: cs, seed: j });
            }
            ops.push(Op::CloseFile { h: 0 });
            ops.push(Op::CreateDir { via: 0, path: "d".into(), keep: 0 });
            ops.push(Op::CreateFile { via: 0, path: "d/a file with a long name in a new directory.txt".into(), keep: 2 });
            ops.push(Op::Write { h: 1, len: 10, seed: 7 });
            ops.push(Op::CloseFile { h: 1 });
            ops.push(Op::Remove { via: 0, path: "first.bin".into() });
            ops.push(Op::CreateFile { via: 0, path: "second.bin".into(), keep: 1 });
            for j in 0..3u8 {
                ops.push(Op::Write { h: 0, len: cs, seed: 20 + j });
            }
            ops.push(Op::Seek { h: 0, whence: 0, off: cs as i64 });
            ops.push(Op::Truncate { h: 0 });
            ops.push(Op::Write { h: 0, len: cs, seed: 30 });
            ops.push(Op::CloseFile { h: 0 });
            // by now the session has allocated more clusters than the stored count admitted: the count is known to be
            // wrong, and what the unmount stores is the table's count or "unknown" - never a number made from the stale one
            ops.push(Op::Remount { how: (i % 2) as u8 });
            ops.push(Op::Stats);
            let case = Case { vol: v.clone(), ops };
            let mut out = hist::eval_case(&b, &case);
            out.hash = run::hash_str(&format!("stale{}", i));
            out.nontrivial = true;
            blk.record(&out, || serde_json::json!({"vol": v, "ops": case.ops.len()}));
            if let Some(m) = out.violation {
                if blk.failure.is_none() {
                    blk.failure = Some(run::Failure { message: format!("FS-info free count stored as {:?}: {}", v.stale_free, m), case: serde_json::to_value(&case).unwrap(), kind: "history".into() });
                }
            }
        }
        rep.add(blk);
    }
    // a foreign next-free hint (valid, just past the last cluster, far out of range, reserved values, "unknown") and a
    // session that only FREES clusters: it stores a new count, and the hint it stores with it has to be in range
    if !rep.failed() {
        let mut blk = Block::new("foreign_next_free_hint_then_a_session_that_only_frees");
        let mut work: Vec<(usize, i64, u8)> = Vec::new();
        for preset in [12usize, 13] {
            for hint in [0i64, 1, -1, 2, 40, -2, -3, -4] {
                for how in [0u8, 1] {
                    work.push((preset, hint, how));
                }
            }
        }
        for (wi, (preset, hint, how)) in work.iter().enumerate() {
            let mut out = run::CaseOut::default();
            out.hash = run::hash_str(&format!("hint{}", wi));
            out.nontrivial = true;
            out.violation = foreign_hint_case(*preset, *hint, *how).err();
            let cj = serde_json::json!({"preset": preset, "hint": hint, "how": how});
            blk.record(&out, || cj.clone());
            if let Some(m) = out.violation {
                if blk.failure.is_none() {
                    blk.failure = Some(run::Failure { message: m, case: cj, kind: "hint".into() });
                }
            }
        }
        rep.add(blk);
    }
    if !rep.failed() {
        let n = tier.pick(a.quick_cases, a.thorough_cases);
        rep.add(hist::random_block(&a, "random_stats_after_every_call", seed, n / 2));
    }
    if !rep.failed() {
        let n = tier.pick(a.quick_cases, a.thorough_cases);
        rep.add(hist::random_block(&b, "random_stats_at_random_points", seed ^ 0x55, n / 2));
    }
    if !rep.failed() {
        if let Some(blk) = hist::pressure_block(&a, seed, tier) {
            rep.add(blk);
        }
    }
    rep.finish()
}

/// `hint`: >= 0: last cluster + hint (0 = the last cluster itself, 1 = just past it ...); -1: 0xFFFFFFFF ("unknown"),
/// -2: 0, -3: 1, -4: 0x0FFFFFFF. `how`: 0 = remove a two-cluster file, 1 = truncate it to its first cluster.
pub fn foreign_hint_case(preset: usize, hint: i64, how: u8) -> Result<(), String> {
    use crate::refdec;
    use crate::session::{Clock, MountOpts, Session};
    use fatfs::{Seek, Write};
    let v = VolCfg::from_preset(preset);
    let dev = crate::vol::make_device(&v)?;
    let clock = Clock::new(600_000_000_000);
    let cs = v.cluster_size() as usize;
    {
        let s = Session::mount(&dev, &clock, &MountOpts::default()).map_err(|e| format!("HARNESS: mount: {:?}", e))?;
        let mut f = s.root().create_file("two clusters.bin").map_err(|e| format!("HARNESS: {:?}", e))?;
        f.write_all(&vec![7u8; cs + 9]).map_err(|e| format!("HARNESS: {:?}", e))?;
        drop(f);
        s.unmount().map_err(|e| format!("HARNESS: unmount: {:?}", e))?;
    }
    let g = dev.with_store(|st| refdec::Geom::parse(st)).map_err(|e| format!("HARNESS: {}", e))?;
    let maxc = g.max_cluster();
    let raw: u32 = match hint {
        -1 => 0xFFFF_FFFF,
        -2 => 0,
        -3 => 1,
        -4 => 0x0FFF_FFFF,
        h => (maxc as i64 + h) as u32,
    };
    dev.with(|d| d.store.write_at(g.fsinfo_off() + 492, &raw.to_le_bytes()));
    {
        let s = Session::mount(&dev, &clock, &MountOpts::default()).map_err(|e| format!("mount of a volume whose FS-info next-free hint is {:#x}: {:?}", raw, e))?;
        if how == 0 {
            s.root().remove("two clusters.bin").map_err(|e| format!("remove: {:?}", e))?;
        } else {
            let mut f = s.root().open_file("two clusters.bin").map_err(|e| format!("open: {:?}", e))?;
            f.seek(fatfs::SeekFrom::Start(5)).map_err(|e| format!("seek: {:?}", e))?;
            f.truncate().map_err(|e| format!("truncate: {:?}", e))?;
            drop(f);
        }
        s.unmount().map_err(|e| format!("unmount: {:?}", e))?;
    }
    let (_, _, count, next, _) = dev.with_store(|st| refdec::fsinfo(st, &g));
    let table = dev.with_store(|st| g.count_free(st));
    if count != 0xFFFF_FFFF && count as u64 != table {
        return Err(format!("FS-info hint {:#x} at mount, a session that only frees: the information sector written at unmount says {} free clusters, the table has {}", raw, count, table));
    }
    if next != 0xFFFF_FFFF && !(2..=maxc).contains(&next) {
        return Err(format!("FS-info hint {:#x} at mount, a session that only frees: the information sector written at unmount carries the next-free hint {:#x}, outside 2..={:#x}", raw, next, maxc));
    }
    Ok(())
}
