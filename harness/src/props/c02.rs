//! C02 - a file is a growable byte array with a cursor, at every offset and buffer size
use super::hist::HistProp;
use crate::gen::GenCfg;
use crate::ops::{Aspect, RunCfg, Trace};

fn nontrivial(t: &Trace) -> bool {
    t.has("cross_cluster_write") || t.has("cross_cluster_read") || (t.has("truncate_mid_cluster") && t.has("write")) || t.n("mkfile") >= 2
}

pub fn prop() -> HistProp {
    let mut rc = RunCfg::new(&[Aspect::File, Aspect::Panic, Aspect::Budget]);
    rc.flush_each = false;
    rc.known.partial_create_nospace = crate::run::known_active("C03", "partial-create-out-of-space");
    let mut gc = GenCfg::fileio();
    gc.max_depth = 1;
    HistProp {
        id: "C02",
        level: "exploration",
        rule: "random histories of seek(Start/Current/End)/read/write/truncate/flush/reopen on 1-4 simultaneously open files, offsets and lengths drawn from a boundary set around 0, k*cluster-1, k*cluster, k*cluster+1, size, 2^32 and random values, on volumes with cluster sizes 512 B..64 KiB and all FAT widths; oracle = Vec<u8> + cursor per handle, contents re-read through fresh handles, the raw image and the library's listing at the end; non-trivial = a read or write that starts at a non-zero in-cluster offset and crosses a cluster boundary, or a truncate at a non-zero in-cluster offset followed by a write, or >= 2 files written in one history; distinct by hash(config, ops)",
        run_cfg: rc,
        gen_cfg: gc,
        nontrivial,
        quick_cases: 30000,
        thorough_cases: 600000,
        assumptions: vec!["one handle per file at a time (documented precondition)", "files stay below 4 clusters in this tier; the 4 GiB end of the range is covered by C20"],
    }
}
