//! C02 - a file is a growable byte array with a cursor, at every offset and buffer size
use super::hist::HistProp;
use crate::gen::GenCfg;
use crate::ops::{Aspect, RunCfg, Trace};

fn nontrivial(t: &Trace) -> bool {
    t.has("cross_cluster_write") || t.has("cross_cluster_read") || (t.has("truncate_mid_cluster") && t.has("write")) || t.n("mkfile") >= 2
}

pub fn prop() -> HistProp {
    let mut rc = RunCfg::new(&[Aspect::File, Aspect::Panic, Aspect::Budget]);
    rc.flush_each = false;
    rc.idle_second_handle = true;
    rc.known.partial_create_nospace = crate::run::known_active("C03", "partial-create-out-of-space");
    let mut gc = GenCfg::fileio();
    gc.max_depth = 1;
    HistProp {
        id: "C02",
        level: "exploration",
        rule: "random histories of seek(Start/Current/End)/read/write/truncate/flush/reopen on 1-4 simultaneously open files, offsets and lengths drawn from a boundary set around 0, k*cluster-1, k*cluster, k*cluster+1, size, 2^32 and random values, on volumes with cluster sizes 512 B..64 KiB and all FAT widths; oracle = Vec<u8> + cursor per handle, contents re-read through fresh handles, the raw image and the library's listing at the end; non-trivial = a read or write that starts at a non-zero in-cluster offset and crosses a cluster boundary, or a truncate at a non-zero in-cluster offset followed by a write, or >= 2 files written in one history; distinct by hash(config, ops)",
        run_cfg: rc,
        gen_cfg: gc,
        nontrivial,
        quick_cases: 30000,
        thorough_cases: 600000,
        pressure_cases: (0, 0),
        assumptions: vec!["one handle per file at a time (documented precondition)", "files stay below 4 clusters in this tier; the 4 GiB end of the range is covered by C20"],
    }
}

// ---------------------------------------------------------------------------------------------------------
// bounded-exhaustive boundary block: (initial length, seek target, operation, length) over the boundary set

use super::hist;
use crate::gen::Case;
use crate::ops::Op;
use crate::run::{self, Block, Report, Tier};
use crate::vol::VolCfg;

fn boundary_set(cs: i64, len: i64) -> Vec<i64> {
    let mut v = vec![0, 1, cs - 1, cs, cs + 1, 2 * cs - 1, 2 * cs, 2 * cs + 1, 3 * cs, len - 1, len, len + 1];
    v.retain(|x| *x >= 0);
    v.sort();
    v.dedup();
    v
}

pub fn run(tier: Tier, seed: u64) -> i32 {
    let hp = prop();
    let mut rep = Report::new(hp.id, tier, seed, hp.level, hp.rule);
    rep.rule.push_str("; bounded-exhaustive boundary block: for each cluster size (quick: 512 and 4096; thorough: 512, 1024, 2048, 4096, 65536) EVERY combination of initial file length x seek target x {read n, write n, truncate} x n over {0, 1, cs-1, cs, cs+1, 2cs-1, 2cs, 2cs+1, 3cs, len-1, len, len+1}, followed by a write and a read-back through a fresh handle");
    for a in &hp.assumptions {
        rep.assume(a);
    }
    let kb = hist::known_block(&hp, &mut rep);
    rep.add(kb);
    rep.add(hist::regress_block(&hp));
    let presets: Vec<usize> = tier.pick(vec![0, 4], vec![0, 3, 7, 4, 6, 12]);
    let mut cases: Vec<Case> = Vec::new();
    for p in presets {
        let vol = VolCfg::from_preset(p);
        let cs = vol.cluster_size() as i64;
        for len in boundary_set(cs, 0) {
            for target in boundary_set(cs, len) {
                let lens = boundary_set(cs, len);
                let mut variants: Vec<Vec<Op>> = vec![vec![Op::Truncate { h: 0 }]];
                for n in &lens {
                    variants.push(vec![Op::Read { h: 0, len: *n as u32 }, Op::Read { h: 0, len: *n as u32 }]);
                    variants.push(vec![Op::Write { h: 0, len: *n as u32, seed: 7 }, Op::Write { h: 0, len: *n as u32, seed: 8 }]);
                }
                for var in variants {
                    let mut ops = vec![Op::CreateFile { via: 0, path: "f".into(), keep: 1 }];
                    let mut left = len;
                    while left > 0 {
                        let n = left.min(cs);
                        ops.push(Op::Write { h: 0, len: n as u32, seed: 1 });
                        left -= n;
                    }
                    ops.push(Op::Seek { h: 0, whence: 0, off: target });
                    ops.extend(var);
                    ops.push(Op::Seek { h: 0, whence: 1, off: -1 });
                    ops.push(Op::Write { h: 0, len: 3, seed: 9 });
                    ops.push(Op::Seek { h: 0, whence: 2, off: -(cs + 1) });
                    ops.push(Op::Read { h: 0, len: (2 * cs) as u32 });
                    ops.push(Op::CloseFile { h: 0 });
                    ops.push(Op::OpenFile { via: 0, path: "f".into(), keep: 0 });
                    cases.push(Case { vol: vol.clone(), ops });
                }
            }
        }
    }
    let hp_ref = &hp;
    let cases_ref = &cases;
    let mut b: Block = run::run_indexed("exhaustive_boundary_combinations", cases.len() as u64, |i, blk| {
        let case = &cases_ref[i as usize];
        let mut out = hist::eval_case(hp_ref, case);
        out.nontrivial = true;
        blk.record(&out, || serde_json::to_value(case).unwrap());
        out.violation.map(|m| run::Failure { message: m, case: serde_json::to_value(case).unwrap(), kind: "history".into() })
    });
    b.exhaustive = true;
    rep.add(b);
    // FAT32 files that live in the highest clusters of the volume (cluster numbers above 65535: the first cluster needs
    // both words of the directory entry): emptied, closed, reopened, written again, with another file next to them
    if !rep.failed() {
        let mut vols: Vec<VolCfg> = Vec::new();
        for (p, hi) in [(12usize, 40u16), (12, 0), (13, 25), (13, 0)] {
            let mut v = VolCfg::from_preset(p);
            v.free_lo = Some(0);
            // hi = 0: the free space begins exactly at cluster 65536 (0x1_0000), so the first file created owns the
            // cluster whose number is what a stale high word alone would spell
            v.free_hi = if hi != 0 {
                hi
            } else {
                let maxc = crate::vol::make_device(&VolCfg::from_preset(p)).ok().and_then(|d| d.with_store(|st| crate::refdec::Geom::parse(st)).ok()).map_or(0, |g| g.max_cluster());
                if maxc < 65_600 {
                    continue;
                }
                (maxc - 65_536 + 1) as u16
            };
            vols.push(v);
        }
        let hp_ref = &hp;
        let hb = run::run_indexed("files_in_the_highest_clusters_emptied_and_rewritten", (vols.len() * 3) as u64, |i, blk| {
            let v = &vols[i as usize / 3];
            let variant = i % 3;
            let cs = v.cluster_size();
            let of = |p: &str, k: u8| Op::OpenFile { via: 0, path: p.into(), keep: k };
            let mut ops = vec![
                Op::CreateFile { via: 0, path: "victim.bin".into(), keep: 2 },
                Op::Write { h: 1, len: cs, seed: 9 },
                Op::Write { h: 1, len: 7, seed: 8 },
                Op::CloseFile { h: 1 },
                Op::CreateFile { via: 0, path: "emptied.bin".into(), keep: 1 },
                Op::Write { h: 0, len: cs, seed: 1 },
                Op::Write { h: 0, len: cs, seed: 2 },
                Op::Write { h: 0, len: 5, seed: 3 },
                Op::CloseFile { h: 0 },
                of("emptied.bin", 1),
            ];
            match variant {
                0 => ops.extend([Op::Truncate { h: 0 }, Op::CloseFile { h: 0 }]),
                1 => ops.extend([Op::Seek { h: 0, whence: 0, off: cs as i64 }, Op::Truncate { h: 0 }, Op::Seek { h: 0, whence: 0, off: 0 }, Op::Truncate { h: 0 }, Op::CloseFile { h: 0 }]),
                _ => ops.extend([Op::Truncate { h: 0 }, Op::Flush { h: 0 }, Op::Read { h: 0, len: 10 }, Op::CloseFile { h: 0 }, Op::Remount { how: 0 }]),
            }
            ops.extend([
                of("emptied.bin", 1),
                Op::Read { h: 0, len: 10 },
                Op::Write { h: 0, len: 20, seed: 4 },
                Op::Write { h: 0, len: cs, seed: 5 },
                Op::CloseFile { h: 0 },
                of("victim.bin", 1),
                Op::Read { h: 0, len: cs },
                Op::Read { h: 0, len: 7 },
                Op::CloseFile { h: 0 },
                of("emptied.bin", 1),
                Op::Read { h: 0, len: cs },
                Op::Read { h: 0, len: cs },
                Op::CloseFile { h: 0 },
            ]);
            let case = Case { vol: v.clone(), ops };
            let out = hist::eval_case(hp_ref, &case);
            blk.record(&out, || serde_json::json!({"vol": v, "variant": variant}));
            out.violation.map(|m| run::Failure { message: m, case: serde_json::to_value(&case).unwrap(), kind: "history".into() })
        });
        rep.add(hb);
    }
    if !rep.failed() {
        rep.add(hist::random_block(&hp, "random_histories", seed, tier.pick(hp.quick_cases, hp.thorough_cases)));
    }
    rep.finish()
}
