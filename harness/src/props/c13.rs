//! C13 - read-only use never writes to the storage
use crate::gen::{self, GenCfg, NameTable, K};
use crate::ops::{Aspect, Op, Run, RunCfg};
use crate::run::{self, Block, CaseOut, Failure, Report, Tier};
use crate::vol::VolCfg;
use proptest::prelude::*;
use serde::{Deserialize, Serialize};

#[derive(Clone, Debug, Serialize, Deserialize)]
pub struct RoCase {
    pub vol: VolCfg,
    pub setup: Vec<Op>,
    pub ro: Vec<Op>,
    pub dirty: bool,
    pub fsinfo_unknown: bool,
    pub end_by_drop: bool,
    /// FAT32: 0 = leave the FS-info next-free hint alone, else one of the odd values below (foreign volumes)
    #[serde(default)]
    pub odd_hint: u8,
    /// FAT32: 0 = leave the free count alone, 1 = total clusters + 1 (out of range), 2 = 0xFFFFFFFE
    #[serde(default)]
    pub odd_count: u8,
    /// the populating session is not unmounted but abandoned with its handles open and unflushed (power cut): the
    /// volume is really dirty, with whatever half-updated entries the history left (e.g. a truncated chain whose
    /// directory entry still carries the old size)
    #[serde(default)]
    pub abandon_setup: bool,
    /// the volume carries the I/O-error status bit (0x02) at mount: it is not "dirty", the stored count stays usable
    #[serde(default)]
    pub io_error_bit: bool,
    /// the application has a logger installed that accepts every level: the arguments of every log statement of the
    /// library are evaluated (a log statement with a side effect only acts in such a process)
    #[serde(default)]
    pub logger: bool,
    /// FAT32: an odd value patched into the boot sector (0 = none; see Run::ro_odd_bpb)
    #[serde(default)]
    pub odd_bpb: u8,
}

fn setup_gen() -> GenCfg {
    let mut g = GenCfg::mixed();
    g.max_ops = 25;
    g.invalid_names = false;
    g.tiny_free_pct = 10;
    g.gen_geom_pct = 30;
    g.weights.retain(|w| ![K::Remove, K::Truncate, K::Remount].contains(&w.0));
    g
}

fn ro_gen() -> GenCfg {
    let mut g = GenCfg::mixed();
    g.max_ops = 30;
    g.weights = vec![(K::List, 8), (K::Stats, 8), (K::Status, 5), (K::Labels, 5), (K::OpenFile, 10), (K::OpenSeekRead, 14), (K::OpenDir, 8), (K::Read, 14), (K::Seek, 10), (K::Extents, 4), (K::CloseFile, 5), (K::CloseDir, 3), (K::Remount, 4), (K::Tick, 2)];
    g
}

use crate::session::set_logging;

pub fn eval(c: &RoCase) -> CaseOut {
    set_logging(c.logger);
    let mut out = CaseOut::default();
    out.hash = run::hash_str(&serde_json::to_string(c).unwrap_or_default());
    let mut setup_cfg = RunCfg::new(&[]);
    if c.abandon_setup {
        setup_cfg.flush_each = false;
    }
    let mut ro_cfg = RunCfg::new(&[Aspect::NoWrite, Aspect::Panic, Aspect::Budget]);
    ro_cfg.flush_each = false;
    let mut vol = c.vol.clone();
    vol.access_date = false;
    let mut run = match Run::new(&setup_cfg, &vol) {
        Ok(r) => r,
        Err(e) => {
            out.violation = Some(format!("harness: {}", e));
            return out;
        }
    };
    for (i, op) in c.setup.iter().enumerate() {
        if run.exec(i, op).is_err() || run.sess.is_none() {
            // populating failed (a defect outside this property): nothing to judge
            out.classes.insert("setup_aborted".into(), 1);
            return out;
        }
    }
    run.cfg = &ro_cfg;
    let mut viol = None;
    let r = (|| {
        let (maxc, total) = (run.geom.max_cluster(), run.geom.clusters as u32);
        let hint = match c.odd_hint % 8 {
            1 => Some(maxc + 1),
            2 => Some(maxc + 2),
            3 => Some(0x0FFF_FFFF),
            4 => Some(0),
            5 => Some(1),
            6 => Some(maxc),
            _ => None,
        };
        let count = match c.odd_count % 4 {
            1 => Some(total + 1),
            2 => Some(0xFFFF_FFFE),
            _ => None,
        };
        if c.abandon_setup {
            run.abandon_keep_image();
        }
        run.ro_set_io_error_bit = c.io_error_bit;
        run.ro_odd_bpb = c.odd_bpb;
        run.begin_readonly_with(c.dirty || c.abandon_setup, c.fsinfo_unknown, hint, count)?;
        if run.sess.is_none() {
            return Ok(());
        }
        for (i, op) in c.ro.iter().enumerate() {
            run.exec(1000 + i, op)?;
            if run.sess.is_none() {
                return Ok(());
            }
        }
        run.end_readonly(c.end_by_drop)
    })();
    if let Err(v) = r {
        if ro_cfg.wants(v.aspect) {
            viol = Some(format!("[{:?} at step {}] {}", v.aspect, v.step, v.msg));
        }
    }
    let t = &run.trace;
    out.nontrivial = t.has("read") && t.has("stats") && (t.has("list") || t.has("labels"));
    for k in ["read", "stats", "list", "labels", "status", "extents", "ro_remount", "fsinfo_count_stored", "seek", "odd_volume_accepted", "odd_volume_refused"] {
        if t.has(k) {
            out.classes.insert(format!("cases_with_{}", k), 1);
        }
    }
    out.classes.insert(format!("cases_fat{}", c.vol.fat), 1);
    if c.dirty {
        out.classes.insert("cases_dirty_at_mount".into(), 1);
    }
    if c.fsinfo_unknown && c.vol.fat == 32 {
        out.classes.insert("cases_fsinfo_unknown".into(), 1);
    }
    out.violation = viol;
    out
}

fn strategy() -> impl Strategy<Value = RoCase> {
    let sg = setup_gen();
    let rg = ro_gen();
    (gen::raw_vol_strategy(), prop::collection::vec(gen::rich_name_strategy(), 6..=6), prop::collection::vec(gen::raw_op_strategy(), 3..=25), prop::collection::vec(gen::raw_op_strategy(), 1..=30), any::<u8>()).prop_map(move |(rv, extra, s_raw, r_raw, flags)| {
        let vol = gen::decode_vol(&sg, &rv);
        let nt = NameTable::new(&sg, &extra);
        let cs = vol.cluster_size();
        let mut mem: Vec<String> = Vec::new();
        let setup = s_raw.iter().flat_map(|r| gen::decode_op(&sg, &nt, cs, r, &mut mem)).collect();
        let ro = r_raw.iter().flat_map(|r| gen::decode_op(&rg, &nt, cs, r, &mut mem)).collect();
        RoCase { vol, setup, ro, dirty: flags & 3 == 0, fsinfo_unknown: flags & 12 == 0, end_by_drop: flags & 16 != 0, abandon_setup: flags % 5 == 0, io_error_bit: flags % 7 == 3, odd_hint: if flags & 32 != 0 { 1 + (flags >> 6) + 3 * (flags & 1) } else { 0 }, odd_count: if flags & 0xC0 == 0xC0 { 1 + (flags & 1) } else { 0 }, logger: false, odd_bpb: if flags % 11 == 4 { 1 + (flags >> 5) % 3 } else { 0 } }
    })
}

pub fn replay(v: &serde_json::Value) -> Result<Option<String>, String> {
    let c: RoCase = serde_json::from_value(v["case"].clone()).map_err(|e| format!("bad case: {}", e))?;
    Ok(eval(&c).violation)
}

pub fn run(tier: Tier, seed: u64) -> i32 {
    let rule = "volumes of every FAT width populated by a generated mutating history (library-formatted and imggen geometries), then cleanly unmounted and raw-edited to be clean or dirty, or abandoned with open unflushed handles (a real power cut: half-updated entries included), with the FS-info count present, unknown or out of range and the next-free hint valid or out of range (last+1, last+2, 0x0FFFFFFF, 0, 1), one FAT32 volume in eleven with an odd boot-sector value (FS-info sector field 0, backup boot sector field 0, FS-info trail signature zeroed: a refused mount ends the case, an accepted volume is held to the property with the exception tied to the sector that holds the information structure); a generated read-only session (mount, list, open existing/missing, seek, read, extents, labels, status flags, stats, handle drops, unmount or drop, repeated remounts) runs on an instrumented device; oracle = the device's write log over the whole session is empty, sole exception FAT32 + stats() + no usable count at mount (unknown / out of range / volume dirty), where writes must lie inside the FS-info sector and store the true count; a third of the sessions again with a logger installed that accepts every level (arguments of all log statements evaluated and formatted); non-trivial = session reads file data, calls stats and lists or queries labels; distinct by hash of the case";
    let mut rep = Report::new("C13", tier, seed, "exploration", rule);
    rep.assume("access-date updating is left disabled (the property's condition)");
    let mut reg = Block::new("regress");
    for f in run::regress_files("C13") {
        if let Ok(v) = run::load_replay(&f) {
            if let Ok(c) = serde_json::from_value::<RoCase>(v["case"].clone()) {
                let out = eval(&c);
                reg.record(&out, || v["case"].clone());
                if let Some(m) = out.violation {
                    if reg.failure.is_none() {
                        reg.failure = Some(Failure { message: format!("regression case {}: {}", f, m), case: v["case"].clone(), kind: "readonly".into() });
                    }
                }
            }
        }
    }
    rep.add(reg);
    // freshly formatted volumes (nothing but the root directory allocated: the recorded free count is the largest valid
    // one) and volumes holding only empty files: the read-only calls in every order of two
    if !rep.failed() {
        let ro_ops = vec![Op::Stats, Op::Status, Op::Labels, Op::List { via: 0 }, Op::OpenFile { via: 0, path: "empty one".into(), keep: 1 }, Op::Read { h: 0, len: 10 }];
        let mut cases: Vec<RoCase> = Vec::new();
        for p in [1usize, 8, 12, 13, 14] {
            for with_files in [false, true] {
                for a in 0..ro_ops.len() {
                    for b2 in 0..ro_ops.len() {
                        let setup = if with_files { vec![Op::CreateFile { via: 0, path: "empty one".into(), keep: 0 }, Op::CreateFile { via: 0, path: "EMPTY2".into(), keep: 0 }] } else { vec![] };
                        cases.push(RoCase { vol: VolCfg::from_preset(p), setup, ro: vec![ro_ops[a].clone(), ro_ops[b2].clone(), Op::Stats], dirty: false, fsinfo_unknown: false, end_by_drop: (a + b2) % 2 == 1, odd_hint: 0, odd_count: 0, abandon_setup: false, io_error_bit: false, logger: false, odd_bpb: 0 });
                    }
                }
            }
        }
        let mut blk = run::run_indexed("fresh_and_nearly_empty_volumes_every_pair_of_queries", cases.len() as u64, |i, blk| {
            let c = &cases[i as usize];
            let out = eval(c);
            blk.record(&out, || serde_json::to_value(c).unwrap());
            out.violation.map(|m| Failure { message: m, case: serde_json::to_value(c).unwrap(), kind: "readonly".into() })
        });
        blk.exhaustive = true;
        rep.add(blk);
    }
    if !rep.failed() {
        rep.add(run::run_random("random_readonly_sessions", seed, tier.pick(24000, 200000), "readonly", || run::boxed(strategy()), |c: &RoCase| eval(c)));
    }
    // the same sessions in a process whose logger accepts every level (the default features compile all log statements in)
    if !rep.failed() {
        rep.add(run::run_random("random_readonly_sessions_with_a_trace_level_logger", seed ^ 0x10C, tier.pick(8000, 80000), "readonly", || run::boxed(strategy().prop_map(|mut c| { c.logger = true; c })), |c: &RoCase| eval(c)));
        set_logging(false);
    }
    rep.finish()
}
