//! C19 - build features change only what they document
//!
//! The same driver source (/verif/featdrv) is compiled against fatfs with {std,alloc,lfn,unicode} (A),
//! {std,lfn,unicode} (B: fixed long-name buffer) and {std,alloc,lfn} (C: ASCII-only case folding). Generated
//! histories are fed to all three; observation traces and final image hashes are compared pairwise.
use crate::props::c17;
use crate::run::{self, Block, CaseOut, Failure, Report, Tier};
use proptest::prelude::*;
use serde::{Deserialize, Serialize};
use std::io::Write;
use std::process::{Command, Stdio};

#[derive(Clone, Debug, Serialize, Deserialize, PartialEq)]
pub enum FOp {
    CreateFile(String),
    CreateDir(String),
    OpenFile(String),
    OpenDir(String),
    Remove(String),
    Rename(String, String),
    List(String),
    /// raw root-directory slots (fixed-buffer half of C17)
    RawDir(Vec<Vec<u8>>),
    /// statistics query
    Stats,
    /// FAT32 volumes: reserved upper bits set in free table entries, free count "unknown", remount
    ForeignTable,
}

#[derive(Clone, Debug, Serialize, Deserialize)]
pub struct FHist {
    /// 0 = ASCII names, 1 = non-ASCII without case mappings, 2 = non-ASCII with case mappings, 3 = non-ASCII with
    /// case mappings but every call names its entry exactly and no two names of the history are case variants
    pub class: u8,
    pub kind: u8,
    pub ops: Vec<FOp>,
}

fn hexs(s: &str) -> String {
    s.as_bytes().iter().map(|b| format!("{:02x}", b)).collect()
}

fn render(id: usize, h: &FHist) -> String {
    let mut s = format!("H {} {}\n", id, h.kind);
    for op in &h.ops {
        match op {
            FOp::CreateFile(n) => s.push_str(&format!("C {}\n", hexs(n))),
            FOp::CreateDir(n) => s.push_str(&format!("D {}\n", hexs(n))),
            FOp::OpenFile(n) => s.push_str(&format!("O {}\n", hexs(n))),
            FOp::OpenDir(n) => s.push_str(&format!("P {}\n", hexs(n))),
            FOp::Remove(n) => s.push_str(&format!("R {}\n", hexs(n))),
            FOp::Rename(a, b) => s.push_str(&format!("M {} {}\n", hexs(a), hexs(b))),
            FOp::List(n) => s.push_str(&format!("L {}\n", hexs(n))),
            FOp::Stats => s.push_str("S\n"),
            FOp::ForeignTable => s.push_str("X\n"),
            FOp::RawDir(slots) => {
                let mut hx = String::new();
                for sl in slots.iter().take(32) {
                    let mut a = [0u8; 32];
                    let n = sl.len().min(32);
                    a[..n].copy_from_slice(&sl[..n]);
                    // cluster fields valid: zero
                    if a[11] & 0x0F != 0x0F && a[0] != 0 && a[0] != 0xE5 {
                        a[20] = 0;
                        a[21] = 0;
                        a[26] = 0;
                        a[27] = 0;
                        a[28..32].copy_from_slice(&[0, 0, 0, 0]);
                    }
                    for b in a {
                        hx.push_str(&format!("{:02x}", b));
                    }
                }
                s.push_str(&format!("G {}\n", hx));
            }
        }
    }
    s.push_str("L \nE\n");
    s
}

pub fn drv_path(variant: &str) -> String {
    format!("{}/featdrv/target/{}/release/featdrv", run::verif_dir(), variant)
}

/// run one driver build over a batch; returns the output split per history
fn run_driver(variant: &str, input: &str, n: usize) -> Result<Vec<String>, String> {
    let mut child = Command::new(drv_path(variant)).stdin(Stdio::piped()).stdout(Stdio::piped()).stderr(Stdio::piped()).spawn().map_err(|e| format!("cannot start featdrv {}: {}", variant, e))?;
    let mut stdin = child.stdin.take().unwrap();
    let inp = input.to_string();
    let writer = std::thread::spawn(move || {
        let _ = stdin.write_all(inp.as_bytes());
    });
    let out = child.wait_with_output().map_err(|e| format!("featdrv {}: {}", variant, e))?;
    let _ = writer.join();
    let text = String::from_utf8_lossy(&out.stdout).to_string();
    let mut per: Vec<String> = Vec::new();
    for line in text.lines() {
        if line.starts_with("H ") {
            per.push(String::new());
        }
        if let Some(l) = per.last_mut() {
            l.push_str(line);
            l.push('\n');
        }
    }
    if !out.status.success() || per.len() != n {
        // the driver died (panic in the library under this feature set): report the history it was in
        let err = String::from_utf8_lossy(&out.stderr);
        let last = err.lines().rev().find(|l| l.contains("panicked")).unwrap_or("").to_string();
        while per.len() < n {
            per.push(format!("DRIVER DIED: {} {}\n", last, err.lines().last().unwrap_or("")));
        }
    }
    Ok(per)
}

fn first_diff(a: &str, b: &str) -> String {
    for (x, y) in a.lines().zip(b.lines()) {
        if x != y {
            let cut = |s: &str| if s.len() > 300 { format!("{}...", &s[..300]) } else { s.to_string() };
            return format!("{:?} vs {:?}", cut(x), cut(y));
        }
    }
    format!("different number of lines ({} vs {})", a.lines().count(), b.lines().count())
}

/// evaluate a batch of histories; returns per-history verdicts
pub fn eval_batch(hs: &[FHist]) -> Result<Vec<CaseOut>, String> {
    let mut input = String::new();
    for (i, h) in hs.iter().enumerate() {
        input.push_str(&render(i, h));
    }
    let a = run_driver("A", &input, hs.len())?;
    let b = run_driver("B", &input, hs.len())?;
    let c = run_driver("C", &input, hs.len())?;
    let mut outs = Vec::new();
    for (i, h) in hs.iter().enumerate() {
        let mut out = CaseOut::default();
        out.hash = run::hash_str(&serde_json::to_string(h).unwrap_or_default());
        let maxlen = h
            .ops
            .iter()
            .map(|o| match o {
                FOp::CreateFile(n) | FOp::CreateDir(n) | FOp::Rename(_, n) => n.encode_utf16().count(),
                _ => 0,
            })
            .max()
            .unwrap_or(0);
        out.nontrivial = maxlen >= 14 || h.ops.iter().any(|o| matches!(o, FOp::RawDir(_)));
        if maxlen >= 248 {
            out.classes.insert("histories_with_name_ge_248_units".into(), 1);
        }
        out.classes.insert(format!("class{}", h.class), 1);
        if a[i].contains("DRIVER DIED") || b[i].contains("DRIVER DIED") || c[i].contains("DRIVER DIED") {
            let which = if a[i].contains("DRIVER DIED") { ("std+alloc+lfn+unicode", &a[i]) } else if b[i].contains("DRIVER DIED") { ("std+lfn+unicode (fixed buffer)", &b[i]) } else { ("std+alloc+lfn (no unicode)", &c[i]) };
            out.violation = Some(format!("the {} build crashed: {}", which.0, which.1.trim()));
        } else if a[i] != b[i] {
            out.violation = Some(format!("alloc vs fixed-buffer build differ: {}", first_diff(&a[i], &b[i])));
        } else if h.class != 2 && !raw_region_has_cased_non_ascii(h) && a[i] != c[i] {
            let which = if h.class == 3 { "a history that names every entry exactly (no case variants among its names)" } else { "names without non-ASCII case mappings" };
            out.violation = Some(format!("unicode vs no-unicode build differ on {}: {}", which, first_diff(&a[i], &c[i])));
        }
        outs.push(out);
    }
    Ok(outs)
}

/// A raw directory region may carry long names of its own. If one of them contains a non-ASCII character that has a
/// case mapping (e.g. a sharp s, which Unicode folding equates with "SS"), lookups by ASCII names may legitimately
/// match it in the Unicode builds only - the documented difference, whatever alphabet the history's own names use.
fn raw_region_has_cased_non_ascii(h: &FHist) -> bool {
    h.ops.iter().any(|o| match o {
        FOp::RawDir(slots) => slots.iter().any(|sl| {
            sl.len() >= 32 && sl[11] & 0x0F == 0x0F && {
                let idx = (1..11).step_by(2).chain((14..26).step_by(2)).chain((28..32).step_by(2));
                idx.into_iter().any(|i| {
                    let u = sl[i] as u32 | (sl[i + 1] as u32) << 8;
                    u >= 0x80 && char::from_u32(u).map_or(false, |c| c.to_uppercase().ne(std::iter::once(c)) || c.to_lowercase().ne(std::iter::once(c)))
                })
            }
        }),
        _ => false,
    })
}

fn name_strategy(class: u8) -> BoxedStrategy<String> {
    let unit: &'static str = match class {
        // incl. the punctuation pairs that differ only in bit 5 like upper / lower case letters do: @ `  [ {  ] }  ^ ~
        0 => "[a-zA-Z0-9 ._+@`\\[\\]{}^~-]",
        1 => "[一-鿿ぁ-ん丁-乚0-9a-z ._]",
        2 => "[a-zA-Zà-öø-ÿßΑ-Ωα-ω ._]",
        // characters whose upper-case form is ASCII, several characters, or outside the BMP block of the lower-case one
        _ => "[a-zà-öø-ÿßα-ωﬀ-ﬆıſŉǰΐ ._]",
    };
    let lens = prop_oneof![
        4 => 1usize..=12,
        3 => prop::sample::select(vec![12usize, 13, 14, 25, 26, 27, 38, 39, 40, 51, 52, 53, 64, 65, 66, 129, 130, 131]),
        3 => 244usize..=258,
        // refused lengths: beyond the 260 units the fixed long-name buffer holds
        1 => 259usize..=300,
        1 => 60usize..=200,
    ];
    (lens, proptest::string::string_regex(&format!("{}{{1,6}}", unit)).unwrap(), any::<u32>())
        .prop_map(move |(len, seedstr, r)| {
            // a name of `len` characters built by repeating a short random string, so that long names stay cheap to shrink
            let chars: Vec<char> = seedstr.chars().collect();
            let mut s = String::new();
            let mut i = 0usize;
            while s.chars().count() < len {
                s.push(chars[(i + (r as usize % chars.len())) % chars.len()]);
                i += 1;
            }
            // no trailing/leading space dot issues are fine; avoid '.' and '..'
            if s == "." || s == ".." {
                s.push('x');
            }
            s
        })
        .boxed()
}

fn hist_strategy() -> impl Strategy<Value = FHist> {
    // raw directory regions: the simple soup below, C17's full slot soup (long runs with surrogate pairs, attr variants,
    // arbitrary short slots) and C17's order/checksum patterns of 1..3 long-name slots
    let region = prop_oneof![
        2 => c17_soup(),
        // short-name-only entries as other writers / hand edits leave them: mixed-case ASCII bytes in the 8.3 field
        2 => prop::collection::vec(("[a-zA-Z0-9]{1,8}", "[a-zA-Z]{0,3}", prop::sample::select(vec![0x20u8, 0x10, 0x00, 0x21])), 1..5).prop_map(|v| {
            v.into_iter()
                .map(|(b, e, attr)| {
                    let mut short = [b' '; 11];
                    short[..b.len()].copy_from_slice(b.as_bytes());
                    short[8..8 + e.len()].copy_from_slice(e.as_bytes());
                    c17::short_slot(&short, attr)
                })
                .collect::<Vec<_>>()
        }),
        3 => c17::soup_strategy().prop_map(|c| c.slots),
        2 => (1usize..=3, any::<u64>()).prop_map(|(n, idx)| c17::pattern_case(n, idx % (58u64.pow(n as u32) * 12), false).slots),
    ];
    (0u8..4, prop::collection::vec(any::<(u8, u8, u8)>(), 3..30), prop::option::weighted(0.3, region))
        .prop_flat_map(|(class, raw, soup)| (Just(class), Just(raw), Just(soup), prop::collection::vec(name_strategy(class), 5..=5)))
        .prop_map(|(class, raw, soup, mut names)| {
            let mut soup = soup;
            if class == 3 {
                // a distinct leading digit: no two names of the history fold to the same string under any folding
                for (i, n) in names.iter_mut().enumerate() {
                    *n = format!("{}{}", i, n);
                }
                // ... and no raw region: the lookups derived from its short entries are names of their own ("1S" next to
                // a generated "1" + long s would be a case variant after all)
                soup = None;
            }
            (class, raw, soup, names)
        })
        .prop_map(|(class, raw, soup, names)| {
            let mut ops = Vec::new();
            for (k, a, b) in raw {
                let n1 = names[a as usize % names.len()].clone();
                let n2 = names[b as usize % names.len()].clone();
                let variant = |s: &str, sel: u8| -> String {
                    // class 3: exact names only - what the builds without Unicode folding must do identically
                    match if class == 3 { 0 } else { sel % 6 } {
                        0 => s.to_string(),
                        1 => s.to_uppercase(),
                        2 => s.to_lowercase(),
                        // NOT a case variant: punctuation with bit 5 flipped must name a different entry in every build
                        3 => s.chars().map(|c| if "@`[{]}^~".contains(c) { (c as u8 ^ 0x20) as char } else { c }).collect(),
                        // NOT a variant either: every non-ASCII character replaced by the ASCII character its low byte spells
                        4 => s.chars().map(|c| if (c as u32) > 0x7F && ((c as u32 & 0xFF) as u8).is_ascii_alphanumeric() { (c as u32 & 0xFF) as u8 as char } else { c }).collect(),
                        _ => s.to_string(),
                    }
                };
                ops.push(match k % 16 {
                    0..=2 => FOp::CreateFile(n1),
                    3 => FOp::CreateFile(if class == 0 { variant(&n1, 3) } else { variant(&n1, 4) }),
                    4..=5 => FOp::CreateDir(n1),
                    6..=7 => FOp::OpenFile(if class == 1 { if b % 3 == 0 { variant(&n1, 4) } else { n1 } } else { variant(&n1, b) }),
                    8 => FOp::OpenDir(if class == 1 { n1 } else { variant(&n1, b) }),
                    9..=10 => FOp::Remove(n1),
                    11..=13 => FOp::Rename(n1, n2),
                    _ => FOp::List(String::new()),
                });
            }
            if let Some(s) = soup {
                let pos = ops.len() / 2;
                // look the raw short entries up by their 8.3 display name, as written and in the other case, and try
                // to create over them: every build has to find (or not find) the same entries
                let mut lookups = Vec::new();
                for sl in s.iter().filter(|sl| sl.len() == 32 && sl[11] & 0x0F != 0x0F && sl[0] != 0 && sl[0] != 0xE5 && sl[..11].iter().all(|b| (0x21..0x7F).contains(b) || *b == b' ')).take(3) {
                    let base = String::from_utf8_lossy(&sl[..8]).trim_end().to_string();
                    let ext = String::from_utf8_lossy(&sl[8..11]).trim_end().to_string();
                    if base.is_empty() || base.contains('/') || ext.contains('/') {
                        continue;
                    }
                    let disp = if ext.is_empty() { base } else { format!("{}.{}", base, ext) };
                    lookups.push(FOp::OpenFile(disp.clone()));
                    lookups.push(FOp::OpenFile(disp.to_uppercase()));
                    lookups.push(FOp::OpenDir(disp.to_lowercase()));
                    lookups.push(FOp::CreateFile(disp.to_uppercase()));
                    lookups.push(FOp::List(String::new()));
                }
                ops.insert(pos, FOp::RawDir(s));
                for (i, l) in lookups.into_iter().enumerate() {
                    ops.insert(pos + 1 + i, l);
                }
            }
            // volume kind: mostly the FAT12 one; FAT16; rarely the two with tables of more than 64 KiB (their images are
            // tens of megabytes: stale bytes anywhere in them show in the image hash)
            let sel = names.iter().map(|n| n.len()).sum::<usize>() % 80;
            let kind: u8 = match sel {
                0..=55 => 0,
                56..=77 => 1,
                78 => 2,
                _ => 3,
            };
            if kind == 3 {
                // the root directory is a single 512-byte cluster there: no raw regions; instead what a foreign writer may
                // leave in the table, then the counts every build has to agree on
                ops.retain(|o| !matches!(o, FOp::RawDir(_)));
                let pos = ops.len() / 2;
                ops.insert(pos, FOp::ForeignTable);
                ops.insert(pos + 1, FOp::Stats);
            }
            ops.push(FOp::Stats);
            FHist { class, kind, ops }
        })
}

fn c17_soup() -> impl Strategy<Value = Vec<Vec<u8>>> {
    // reuse the slot builders of C17: valid runs with damage, long runs, garbage long-name slots
    prop::collection::vec(
        prop_oneof![
            4 => ("[a-zA-Z0-9 ._é語-]{1,60}", "[A-Z0-9]{1,8}", prop::option::weighted(0.5, (0usize..400, any::<u8>()))).prop_map(|(name, sh, dmg)| {
                let mut short = [b' '; 11];
                short[..sh.len()].copy_from_slice(sh.as_bytes());
                let units: Vec<u16> = name.encode_utf16().collect();
                let mut v = c17::run_for_name(&units, &short);
                v.push(c17::short_slot(&short, 0x20));
                if let Some((pos, val)) = dmg {
                    let total = v.len() * 32;
                    let p = pos % total;
                    v[p / 32][p % 32] = val;
                }
                v
            }),
            1 => (240usize..=262).prop_map(|len| {
                let units: Vec<u16> = (0..len).map(|i| 0x41 + (i % 26) as u16).collect();
                let short = *b"LONGRUN~1  ";
                let mut v = c17::run_for_name(&units, &short);
                v.push(c17::short_slot(&short, 0x20));
                v
            }),
            2 => (any::<u8>(), any::<u8>(), prop::collection::vec(any::<u16>(), 13..=13)).prop_map(|(o, c, u)| {
                let mut arr = [0u16; 13];
                arr.copy_from_slice(&u);
                vec![c17::lfn_slot(o, c, &arr, 0x0F)]
            }),
        ],
        1..4,
    )
    .prop_map(|p| p.into_iter().flatten().collect())
}

pub fn replay(v: &serde_json::Value) -> Result<Option<String>, String> {
    let h: FHist = serde_json::from_value(v["case"].clone()).map_err(|e| format!("bad case: {}", e))?;
    let outs = eval_batch(&[h])?;
    Ok(outs[0].violation.clone())
}

pub fn run(tier: Tier, seed: u64) -> i32 {
    let rule = "histories of create_file/create_dir/open/remove/rename/list with names of 1..258 characters (dense around 13k and 244..258) from three alphabets (ASCII; non-ASCII without case mappings; non-ASCII with case mappings), lookups by upper/lower-cased variants, plus raw root-directory regions (valid long-name runs with one damaged byte, 19-21 slot runs, garbage long-name slots) - executed by the same driver source compiled against fatfs with {std,alloc,lfn,unicode}, {std,lfn,unicode} and {std,alloc,lfn}; on four volume kinds (FAT12; FAT16; FAT16 with a table of more than 64 KiB and FAT32 - formatted over stale bytes; on FAT32 with reserved upper bits planted in free table entries and an unknown free count before a statistics query); oracle = identical observation trace (results, UTF-16 long names, short-name bytes, sizes, attributes) and identical final image hash: alloc vs fixed buffer on all histories, unicode vs no-unicode on the first two alphabets and on a fourth class: names with case mappings (incl. characters whose upper case is ASCII or several characters: sharp s, ligatures, dotless i, long s) where every call names its entry exactly and no two names are case variants - there creation, aliases, listings and images may not depend on the folding; non-trivial = history with a name of >= 14 units or a raw directory region; distinct by hash of the history";
    let mut rep = Report::new("C19", tier, seed, "exploration", rule);
    rep.assume("the three feature sets listed; all with std (the harness device needs it)");
    for v in ["A", "B", "C"] {
        if !std::path::Path::new(&drv_path(v)).exists() {
            eprintln!("featdrv build {} missing: run ./setup.sh or ./check.sh C19", v);
            return 2;
        }
    }
    // regression
    let mut reg = Block::new("regress");
    let mut reg_cases: Vec<FHist> = Vec::new();
    for f in run::regress_files("C19") {
        if let Ok(v) = run::load_replay(&f) {
            if let Ok(h) = serde_json::from_value::<FHist>(v["case"].clone()) {
                reg_cases.push(h);
            }
        }
    }
    if !reg_cases.is_empty() {
        match eval_batch(&reg_cases) {
            Ok(outs) => {
                for (h, out) in reg_cases.iter().zip(outs.iter()) {
                    reg.record(out, || serde_json::to_value(h).unwrap());
                    if let Some(m) = &out.violation {
                        if reg.failure.is_none() {
                            reg.failure = Some(Failure { message: format!("regression case: {}", m), case: serde_json::to_value(h).unwrap(), kind: "features".into() });
                        }
                    }
                }
            }
            Err(e) => {
                eprintln!("{}", e);
                return 2;
            }
        }
    }
    rep.add(reg);
    // generated histories, evaluated in batches (one process per build and batch)
    let total = tier.pick(40000usize, 800000usize);
    let batch = 500usize;
    let nb = (total + batch - 1) / batch;
    let blk = run::run_indexed("generated_histories_three_builds", nb as u64, |bi, blk| {
        use proptest::strategy::ValueTree;
        use proptest::test_runner::{Config, RngAlgorithm, TestRng, TestRunner};
        let mut seed_bytes = [0u8; 32];
        let mut m = run::Mix::new(seed, 0xC19 + bi);
        for ch in seed_bytes.chunks_mut(8) {
            ch.copy_from_slice(&m.next().to_le_bytes());
        }
        let mut runner = TestRunner::new_with_rng(Config::default(), TestRng::from_seed(RngAlgorithm::ChaCha, &seed_bytes));
        let strat = hist_strategy();
        let hs: Vec<FHist> = (0..batch).filter_map(|_| strat.new_tree(&mut runner).ok().map(|t| t.current())).collect();
        let outs = match eval_batch(&hs) {
            Ok(o) => o,
            Err(e) => return Some(Failure { message: format!("harness: {}", e), case: serde_json::Value::Null, kind: "abort".into() }),
        };
        for (h, out) in hs.iter().zip(outs.iter()) {
            blk.record(out, || serde_json::to_value(h).unwrap());
            if let Some(mm) = &out.violation {
                // minimise the op list with ddmin (each probe runs the three builds on one history)
                let fails = |ops: &[FOp]| eval_batch(&[FHist { class: h.class, kind: h.kind, ops: ops.to_vec() }]).map(|o| o[0].violation.is_some()).unwrap_or(false);
                let min = run::ddmin(&h.ops, &fails);
                let mh = FHist { class: h.class, kind: h.kind, ops: min };
                let msg = eval_batch(&[mh.clone()]).ok().and_then(|o| o[0].violation.clone()).unwrap_or(mm.clone());
                return Some(Failure { message: msg, case: serde_json::to_value(&mh).unwrap(), kind: "features".into() });
            }
        }
        None
    });
    rep.add(blk);
    rep.finish()
}
