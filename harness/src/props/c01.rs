//! C01 - directory-tree operations behave like a case-insensitive in-memory tree
use super::hist::HistProp;
use crate::gen::GenCfg;
use crate::ops::{Aspect, RunCfg, Trace};

fn nontrivial(t: &Trace) -> bool {
    t.has("mutation") && (t.has("op_failed") || t.has("cross_dir_rename") || t.has("lookup_other_case_or_alias"))
}

pub fn prop() -> HistProp {
    let mut rc = RunCfg::new(&[Aspect::Outcome, Aspect::Tree, Aspect::Panic, Aspect::Budget]);
    rc.cmp_lib_every = true;
    rc.known.partial_create_nospace = crate::run::known_active("C03", "partial-create-out-of-space");
    HistProp {
        id: "C01",
        level: "exploration",
        rule: "random histories of namespace calls (create/open/list/remove/rename, up to 4 live handles, depth<=3) on generated volume configurations, run in lock-step against an in-memory case-insensitive tree; non-trivial = at least one successful mutation and (a failing call, or a cross-directory rename, or a lookup by other case/alias); distinct by hash(config, ops)",
        run_cfg: rc,
        gen_cfg: GenCfg { populate_pct: 15, access_date: vec![false, false, true], ..GenCfg::namespace() },
        nontrivial,
        quick_cases: 20000,
        thorough_cases: 400000,
        pressure_cases: (6000, 120000),
        assumptions: vec!["no removal/rename of an object with a live handle, no two handles on one file (documented precondition)", "'.' and '..' are not generated as path components", "rename onto the same entry is a successful no-op (explicit branch in the code and docs)"],
    }
}


// ---------------------------------------------------------------------------------------------------------
// bounded-exhaustive core: every sequence up to length 3 (quick) / 4 (thorough) over a small alphabet of op instances

use super::hist;
use crate::gen::Case;
use crate::ops::Op;
use crate::run::{self, Block, Report, Tier};
use crate::vol::VolCfg;

pub fn alphabet() -> Vec<Op> {
    let cf = |p: &str| Op::CreateFile { via: 0, path: p.into(), keep: 0 };
    let cd = |p: &str| Op::CreateDir { via: 0, path: p.into(), keep: 0 };
    let rm = |p: &str| Op::Remove { via: 0, path: p.into() };
    let mv = |a: &str, b: &str| Op::Rename { via: 0, src: a.into(), dvia: 0, dst: b.into() };
    vec![
        cf("a"),
        cf("A"),
        cf("d/a"),
        cf("a:b"),
        cd("d"),
        cd("a"),
        cd("D/b"),
        rm("a"),
        rm("d"),
        rm("d/A"),
        mv("a", "b"),
        mv("a", "d/a"),
        mv("d", "b"),
        mv("b", "A"),
        mv("a", "a:b"),
        mv("d/a", "a"),
        mv("d", "a/d"),
        mv("a", "a/d/a"),
        Op::OpenFile { via: 0, path: "A".into(), keep: 0 },
        Op::OpenDir { via: 0, path: "b".into(), keep: 0 },
    ]
}

pub fn run(tier: Tier, seed: u64) -> i32 {
    let hp = prop();
    let mut rep = Report::new(hp.id, tier, seed, hp.level, hp.rule);
    rep.rule.push_str("; bounded-exhaustive core: EVERY sequence of length <= 3 (quick) / <= 4 (thorough) over an alphabet of 20 op instances (create file/dir, remove, rename/move, open on names a, A, b, d, d/a, D/b and the invalid a:b) on a FAT12 fixed-root, a FAT16 and a FAT32 volume; plus chains of up to 40 (thorough: every depth 2..48) nested directories with moves of ancestors below the deepest one (refused) and of the deepest one to the top");
    for a in &hp.assumptions {
        rep.assume(a);
    }
    let kb = hist::known_block(&hp, &mut rep);
    rep.add(kb);
    rep.add(hist::regress_block(&hp));
    let alpha = alphabet();
    let n = alpha.len() as u64;
    let maxlen: u32 = tier.pick(3, 4);
    let mut total = 0u64;
    for l in 1..=maxlen {
        total += n.pow(l);
    }
    let vols = [VolCfg::from_preset(0), VolCfg::from_preset(8), VolCfg::from_preset(12)];
    let hp_ref = &hp;
    let mut b: Block = run::run_indexed("exhaustive_short_sequences", total * 3, |i, blk| {
        let v = &vols[(i / total) as usize];
        let mut k = i % total;
        // decode k into (length, digits)
        let mut len = 1u32;
        loop {
            let c = n.pow(len);
            if k < c {
                break;
            }
            k -= c;
            len += 1;
        }
        let mut ops = Vec::with_capacity(len as usize);
        for _ in 0..len {
            ops.push(alpha[(k % n) as usize].clone());
            k /= n;
        }
        let case = Case { vol: v.clone(), ops };
        let out = hist::eval_case(hp_ref, &case);
        blk.record(&out, || serde_json::to_value(&case).unwrap());
        out.violation.map(|m| run::Failure { message: m, case: serde_json::to_value(&case).unwrap(), kind: "history".into() })
    });
    b.exhaustive = true;
    rep.add(b);
    // deep nesting: a chain of D directories, then moves of an upper one below the deepest (must be refused), of the
    // deepest to the top (allowed) and lookups through the whole path
    if !rep.failed() {
        let depths: Vec<usize> = tier.pick(vec![3, 17, 31, 32, 33, 34, 40], (2..=48).collect());
        let vols2 = [VolCfg::from_preset(1), VolCfg::from_preset(8), VolCfg::from_preset(12)];
        let work: Vec<(usize, usize)> = (0..vols2.len()).flat_map(|v| depths.iter().map(move |d| (v, *d))).collect();
        let hp_ref = &hp;
        let db = run::run_indexed("deep_directory_chains", work.len() as u64, |i, blk| {
            let (vi, d) = work[i as usize];
            let mut ops = Vec::new();
            let mut path = String::new();
            for k in 0..d {
                if k > 0 {
                    path.push('/');
                }
                path.push_str(&format!("n{}", k % 10));
                ops.push(Op::CreateDir { via: 0, path: path.clone(), keep: 0 });
            }
            let deepest = path.clone();
            ops.push(Op::CreateFile { via: 0, path: format!("{}/leaf.txt", deepest), keep: 0 });
            // every ancestor into the deepest directory: never allowed
            let mut up = String::new();
            for k in 0..d {
                if k > 0 {
                    up.push('/');
                }
                up.push_str(&format!("n{}", k % 10));
                if k == 0 || k == d / 2 || k + 1 == d {
                    ops.push(Op::Rename { via: 0, src: up.clone(), dvia: 0, dst: format!("{}/moved", deepest) });
                }
            }
            ops.push(Op::OpenFile { via: 0, path: format!("{}/LEAF.TXT", deepest), keep: 0 });
            ops.push(Op::List { via: 0 });
            if d >= 2 {
                // the deepest directory up to the root (allowed), then its former parent below it (allowed now)
                ops.push(Op::Rename { via: 0, src: deepest.clone(), dvia: 0, dst: "top".into() });
                let parent = deepest.rsplit_once('/').map(|p| p.0.to_string()).unwrap_or_default();
                ops.push(Op::Rename { via: 0, src: "n0".into(), dvia: 0, dst: "top/old chain".into() });
                ops.push(Op::Rename { via: 0, src: "top".into(), dvia: 0, dst: format!("top/old chain/{}/x", parent.split_once('/').map(|p| p.1).unwrap_or("")) });
            }
            ops.push(Op::Remount { how: 0 });
            ops.push(Op::List { via: 0 });
            let case = Case { vol: vols2[vi].clone(), ops };
            let out = hist::eval_case(hp_ref, &case);
            blk.record(&out, || serde_json::json!({"vol": vols2[vi], "depth": d}));
            out.violation.map(|m| run::Failure { message: format!("chain of {} directories: {}", d, m), case: serde_json::to_value(&case).unwrap(), kind: "history".into() })
        });
        rep.add(db);
    }
    if !rep.failed() {
        rep.add(hist::random_block(&hp, "random_histories", seed, tier.pick(hp.quick_cases, hp.thorough_cases)));
    }
    if !rep.failed() {
        if let Some(b) = hist::pressure_block(&hp, seed, tier) {
            rep.add(b);
        }
    }
    if !rep.failed() && tier == Tier::Thorough {
        rep.add(run::fuzz_block("ops", 400_000, seed, 1024));
    }
    rep.finish()
}
