//! C01 - directory-tree operations behave like a case-insensitive in-memory tree
use super::hist::HistProp;
use crate::gen::GenCfg;
use crate::ops::{Aspect, RunCfg, Trace};

fn nontrivial(t: &Trace) -> bool {
    t.has("mutation") && (t.has("op_failed") || t.has("cross_dir_rename") || t.has("lookup_other_case_or_alias"))
}

pub fn prop() -> HistProp {
    let mut rc = RunCfg::new(&[Aspect::Outcome, Aspect::Tree, Aspect::Panic, Aspect::Budget]);
    rc.cmp_lib_every = true;
    rc.known.dst_inside_src = crate::run::known_active("C01", "rename-dir-into-own-subtree");
    rc.known.partial_create_nospace = crate::run::known_active("C03", "partial-create-out-of-space");
    HistProp {
        id: "C01",
        level: "exploration",
        rule: "random histories of namespace calls (create/open/list/remove/rename, up to 4 live handles, depth<=3) on generated volume configurations, run in lock-step against an in-memory case-insensitive tree; non-trivial = at least one successful mutation and (a failing call, or a cross-directory rename, or a lookup by other case/alias); distinct by hash(config, ops)",
        run_cfg: rc,
        gen_cfg: GenCfg::namespace(),
        nontrivial,
        quick_cases: 20000,
        thorough_cases: 400000,
        assumptions: vec!["no removal/rename of an object with a live handle, no two handles on one file (documented precondition)", "'.' and '..' are not generated as path components", "rename onto the same entry is a successful no-op (explicit branch in the code and docs)"],
    }
}

