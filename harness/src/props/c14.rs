//! C14 - flushed file data survives a power cut
use crate::dev::{MemDev, Store};
use crate::gen::{self, Case, GenCfg, K};
use crate::ops::{Aspect, FlushEvent, Op, Run, RunCfg};
use crate::refdec;
use crate::run::{self, Block, CaseOut, Failure, Report, Tier};
use crate::session::{self, guard, Caught, Clock, MountOpts, Session};
use fatfs::Read;

fn gen_cfg() -> GenCfg {
    let mut g = GenCfg::mixed();
    g.max_ops = 30;
    g.weights = vec![
        (K::OpenFile, 5),
        (K::CreateFile, 8),
        (K::NewFileWritten, 18),
        (K::CreateDir, 6),
        (K::Write, 20),
        // a write hit by a transient storage fault and retried by the caller, then flushed like any other
        (K::WriteRetry, 6),
        // a flush hit by a transient fault and repeated: the repeated flush's success is a flush point like any other
        (K::FlushRetry, 4),
        (K::SetTimes, 4),
        // the handle replaced by a clone of itself (what the application does with File::clone)
        (K::CloneSwap, 6),
        (K::Seek, 5),
        (K::Flush, 10),
        (K::CloseFile, 8),
        (K::Truncate, 4),
        (K::Remove, 8),
        (K::Rename, 8),
        (K::Remount, 1),
        (K::Stats, 1),
    ];
    g.presets = vec![0, 1, 3, 5, 9, 12];
    g.tiny_free_pct = 30;
    g.gen_geom_pct = 15;
    g.invalid_names = false;
    g.max_depth = 2;
    g.max_io_pct = 300;
    // The crash model is loss of a suffix of the sequence of device write CALLS. A storage that splits a call into
    // several short transfers would put crash points inside a 32-byte directory slot (a torn slot can resurrect a
    // deleted entry that shares the flushed file's cluster): that is the torn-write model the property excludes.
    // (Re-admitted after the oracle learnt to let the remount decide on cross-linked images: a flushed file's own
    // entry is not rewritten by later operations, so torn transfers can only hit other entries.)
    g.short_io_pct = 12;
    // every crash image is cloned and decoded: volumes with 65524-cluster tables make that 50x slower for no gain
    g.boundary_pct = 0;
    g
}

/// the file at `path` must be found with exactly `data` in the image, by the independent decoder and by the library
fn check_image(img: &Store, ev: &FlushEvent, what: &str) -> Result<(), String> {
    // independent decode
    let dec = refdec::decode(img, refdec::DecodeOpts::default()).map_err(|e| format!("{}: image does not decode: {}", what, e))?;
    let independent = check_decoded(&dec, img, ev, what);
    // `decode` gives a cluster to the first entry that claims it and does not descend into a directory cluster twice.
    // In the middle of a LATER operation a half-written sibling entry (the library writes a slot field by field) can
    // momentarily revive a deleted slot whose stale cluster field names the flushed file's cluster or one of its
    // ancestors' clusters. The property promises that a remount finds the file with its content, not that the rest of
    // the tree is consistent at that instant: with a cross-link in the image the verdict is the remount's alone.
    let crosslinked = dec.findings.iter().any(|f| f.kind == refdec::Fk::CrossLink);
    if !crosslinked {
        independent?;
    }
    remount_check(img, ev, what)
}

fn check_decoded(dec: &refdec::Decoded, img: &Store, ev: &FlushEvent, what: &str) -> Result<(), String> {
    let comps: Vec<&str> = ev.path.split('/').filter(|c| !c.is_empty()).collect();
    let mut dir = &dec.root;
    for (i, comp) in comps.iter().enumerate() {
        let units: Vec<u16> = comp.encode_utf16().collect();
        let e = dir.entries.iter().find(|e| !e.is_label() && e.visible_units() == units).ok_or_else(|| format!("{}: {} is not in the directory tree of the crash image (independent decode)", what, ev.path))?;
        if i + 1 == comps.len() {
            let d = e.data.as_ref().ok_or_else(|| format!("{}: {} is not a readable file in the crash image", what, ev.path))?;
            // `decode` gives a cluster to the first entry that claims it. A half-written NEW entry of a sibling (the
            // library writes a slot field by field) can momentarily revive a deleted slot whose stale cluster field
            // names this file's cluster; the property promises this file's entry, chain and data, not that the rest of
            // the directory is consistent in the middle of a later operation: read straight through the table too.
            let direct = refdec::read_chain_raw(img, &dec.geom, e.first_cluster, e.size as u64);
            if d != &ev.data && direct.as_ref() != Some(&ev.data) {
                return Err(format!("{}: {} has {} bytes in the crash image that differ from the {} bytes flushed (independent decode; entry size {}, chain of {} clusters)", what, ev.path, d.len(), ev.data.len(), e.size, e.clusters.len()));
            }
            // the rest of the entry the flush handed over: a creation time set through the flushed handle
            if let Some(c) = ev.created {
                let on_disk = crate::tree::Ts::from_words(e.cdate, e.ctime, e.ctime_cs);
                if on_disk != c {
                    return Err(format!("{}: the entry of {} carries the creation time {:?} in the crash image, the flushed handle had set {:?}", what, ev.path, on_disk, c));
                }
            }
        } else {
            dir = e.child.as_deref().ok_or_else(|| format!("{}: {} lost an ancestor in the crash image", what, ev.path))?;
        }
    }
    Ok(())
}

fn remount_check(img: &Store, ev: &FlushEvent, what: &str) -> Result<(), String> {
    // library remount
    let dev = MemDev::new(img.clone());
    let clock = Clock::new(0);
    let path = ev.path.clone();
    let r = guard(move || {
        let s = Session::mount(&dev, &clock, &MountOpts::default()).map_err(|e| format!("mount failed: {:?}", e))?;
        let res = (|| {
            let mut f = s.root().open_file(&path).map_err(|e| format!("open_file failed: {:?}", e))?;
            let mut out = Vec::new();
            let mut buf = [0u8; 4096];
            loop {
                let n = f.read(&mut buf).map_err(|e| format!("read failed: {:?}", e))?;
                if n == 0 {
                    break;
                }
                out.extend_from_slice(&buf[..n]);
            }
            Ok::<Vec<u8>, String>(out)
        })();
        s.abandon();
        res
    });
    match r {
        Caught::Panic(p) => Err(format!("{}: remounting the crash image panicked: {}", what, p)),
        Caught::Ok(Err(e)) => Err(format!("{}: {} after remount of the crash image: {}", what, ev.path, e)),
        Caught::Ok(Ok(d)) => {
            if d != ev.data {
                Err(format!("{}: {} read after remount of the crash image has {} bytes that differ from the {} bytes flushed", what, ev.path, d.len(), ev.data.len()))
            } else {
                Ok(())
            }
        }
    }
}

pub fn eval(case: &Case) -> CaseOut {
    let mut out = CaseOut::default();
    out.hash = run::hash_str(&serde_json::to_string(case).unwrap_or_default());
    let mut cfg = RunCfg::new(&[Aspect::Panic, Aspect::Budget]);
    cfg.flush_each = false;
    cfg.idle_second_handle = true;
    let mut vol = case.vol.clone();
    vol.access_date = false;
    let mut run = match Run::new(&cfg, &vol) {
        Ok(r) => r,
        Err(e) => {
            out.violation = Some(format!("harness: {}", e));
            return out;
        }
    };
    run.enable_crash_observation();
    for (i, op) in case.ops.iter().enumerate() {
        if run.exec(i, op).is_err() || run.sess.is_none() {
            out.classes.insert("history_aborted".into(), 1);
            break;
        }
    }
    let (wlog, end, wshort) = run.dev.with(|d| (d.wlog.clone(), d.wlog.len(), d.wshort.clone()));
    assert_eq!(wlog.len(), wshort.len(), "write log and its short-transfer marks out of step");
    let mut torn_skipped = 0u64;
    let events: Vec<FlushEvent> = run.flush_events.clone();
    let base = run.base_image.clone().unwrap();
    // abandon the session: a power cut does not run destructors
    if let Some(s) = run.sess.take() {
        s.abandon();
    }
    let mut images = 0u64;
    let mut max_after = 0usize;
    let mut big_target = false;
    for ev in &events {
        let until = ev.until.unwrap_or(end);
        if !ev.barrier {
            out.violation = Some(format!("flush point at step {} for {}: no device flush was issued after the last of the {} device writes (data handed to the storage but not flushed)", ev.step, ev.path, ev.at));
            break;
        }
        if ev.data.len() as u64 > 2 * vol.cluster_size() as u64 - 1 {
            big_target = true;
        }
        max_after = max_after.max(until - ev.at);
        // crash points: every prefix of the write sequence from the flush point until the guarantee is suspended
        let span = until - ev.at;
        let points: Vec<usize> = if span <= 120 { (ev.at..=until).collect() } else { (ev.at..ev.at + 60).chain((ev.at + 60..until - 30).step_by((span / 30).max(1))).chain(until - 30..=until).collect() };
        let mut img = base.clone();
        let mut applied = 0usize;
        for p in points {
            // The crash model is loss of a suffix of the writes the LIBRARY issued. When the device took only part of
            // one write and the library is about to hand over the rest, a power cut between the two halves is a torn
            // write (found by seed 11: the first 5 bytes of the 11-byte name of a new entry, laid over a deleted slot,
            // gave that slot the flushed file's name for one instant). Such points are skipped and counted.
            if p > ev.at && p < wlog.len() && wshort[p - 1] && wlog[p].0 == wlog[p - 1].0 + wlog[p - 1].1.len() as u64 {
                torn_skipped += 1;
                continue;
            }
            while applied < p {
                let (o, d) = &wlog[applied];
                img.write_at(*o, d);
                applied += 1;
            }
            images += 1;
            if let Err(m) = check_image(&img, ev, &format!("power cut after device write {} (flush point at write {}, step {})", p, ev.at, ev.step)) {
                if std::env::var("VERIF_DEBUG").is_ok() {
                    for (i, (o, d)) in wlog.iter().enumerate().skip(ev.at.saturating_sub(12)).take(p + 3 - ev.at.saturating_sub(12)) {
                        eprintln!("write {:4}: off {:8} len {:4} {:02x?}", i, o, d.len(), &d[..d.len().min(32)]);
                    }
                    eprintln!("flush marks: {:?}", run.dev.with(|d| d.flush_marks.clone()));
                }
                out.violation = Some(m);
                break;
            }
        }
        if out.violation.is_some() {
            break;
        }
    }
    out.nontrivial = !events.is_empty() && max_after >= 5 && big_target;
    out.classes.insert("crash_images_checked".into(), images);
    out.classes.insert("crash_points_inside_a_split_transfer_skipped".into(), torn_skipped);
    out.classes.insert("flush_points".into(), events.len() as u64);
    if !events.is_empty() {
        out.classes.insert("cases_with_flush_point".into(), 1);
    }
    out.classes.insert(format!("cases_fat{}", vol.fat), 1);
    if run.trace.has("fault_fired") {
        out.classes.insert("cases_with_fault_fired".into(), 1);
    }
    for k in ["write_failed_with_injected_fault_then_retried", "write_survived_injected_fault", "flush_failed_with_injected_fault_then_retried", "flush_survived_injected_fault"] {
        if run.trace.has(k) {
            out.classes.insert(format!("cases_with_{}", k), 1);
        }
    }
    let _ = session::NSLOTS;
    out
}

thread_local! {
    static FAILING_KK: std::cell::Cell<Option<u16>> = const { std::cell::Cell::new(None) };
}

pub fn replay(v: &serde_json::Value) -> Result<Option<String>, String> {
    let c: Case = serde_json::from_value(v["case"].clone()).map_err(|e| format!("bad case: {}", e))?;
    Ok(eval(&c).violation)
}

pub fn run(tier: Tier, seed: u64) -> i32 {
    let rule = "random histories with flush points (File::flush or handle drop) followed by operations that may touch siblings but not the flushed file or its ancestors; the device records every write with its data and every flush; for each flush point F: a device flush must follow the last write of F, and for EVERY prefix P >= F of the subsequent device-write sequence (until the file or an ancestor is next modified, removed or renamed) the image 'base + writes[..P]' is decoded by refdec and remounted by the library: the file is found under its name with exactly the flushed content; plus the same histories with a transient fault at every device call of their first explicit flush() followed by a retry of that flush (a flush point exists only where flush() returned successfully); non-trivial = a flush point with >= 5 later device writes and a target of >= 2 clusters; distinct by hash(config, ops)";
    let mut rep = Report::new("C14", tier, seed, "fault_enumeration", rule);
    rep.assume("crash model: loss of every device write after a point (write-level prefix loss with flush barriers); no torn or reordered sectors");
    rep.assume("spans longer than 120 device writes are sampled at their first 60, last 30 and ~30 strided positions");
    let mut reg = Block::new("regress");
    for f in run::regress_files("C14") {
        if let Ok(v) = run::load_replay(&f) {
            if let Ok(c) = serde_json::from_value::<Case>(v["case"].clone()) {
                let out = eval(&c);
                reg.record(&out, || v["case"].clone());
                if let Some(m) = out.violation {
                    if reg.failure.is_none() {
                        reg.failure = Some(Failure { message: format!("regression case {}: {}", f, m), case: v["case"].clone(), kind: "crash".into() });
                    }
                }
            }
        }
    }
    rep.add(reg);
    if !rep.failed() {
        let gc = gen_cfg();
        rep.add(run::run_random("random_histories_all_crash_points", seed, tier.pick(6000, 40000), "crash", move || run::boxed(gen::case_strategy(gc.clone())), |c: &Case| eval(c)));
    }
    // a transient storage fault at every device call of an explicit flush(); the caller retries the flush: once that
    // retry has returned successfully the flush point holds like any other
    if !rep.failed() {
        let gc = gen_cfg();
        rep.add(run::run_random("transient_fault_in_flush_then_successful_retry", seed ^ 0xF1, tier.pick(400, 6000), "crash", move || run::boxed(gen::case_strategy(gc.clone())), |c: &Case| {
            let Some(i) = c.ops.iter().position(|o| matches!(o, Op::Flush { .. })) else {
                let mut o = CaseOut::default();
                o.hash = run::hash_str(&serde_json::to_string(c).unwrap_or_default());
                o.classes.insert("histories_without_explicit_flush".into(), 1);
                return o;
            };
            let mut agg = CaseOut::default();
            agg.hash = run::hash_str(&serde_json::to_string(c).unwrap_or_default()) ^ 0xF1;
            // while a failure is being shrunk, only the fault position that failed is tried (160 positions per candidate
            // would make shrinking take minutes); the reported case is re-checked with that position
            let pinned: Option<u16> = FAILING_KK.with(|f| f.get());
            for kk in 0..160u16 {
                if pinned.map_or(false, |p| p != kk) {
                    continue;
                }
                // every position twice: once as a hard error, once as the retryable "interrupted" condition
                let (k, intr) = (kk / 2, kk % 2 == 1);
                let mut ops: Vec<Op> = c.ops[..i].to_vec();
                ops.push(Op::FaultNext { k, hold: 1, interrupted: intr, burst: 0 });
                ops.push(c.ops[i].clone());
                ops.push(c.ops[i].clone());
                ops.extend_from_slice(&c.ops[i + 1..]);
                let fc = Case { vol: c.vol.clone(), ops };
                let o = eval(&fc);
                let fired = o.classes.contains_key("cases_with_fault_fired");
                if fired {
                    *agg.classes.entry("fault_positions_in_flush".into()).or_insert(0) += 1;
                    agg.nontrivial |= o.nontrivial || o.classes.get("flush_points").copied().unwrap_or(0) > 0;
                }
                *agg.classes.entry("crash_images_checked".into()).or_insert(0) += o.classes.get("crash_images_checked").copied().unwrap_or(0);
                if let Some(m) = o.violation {
                    FAILING_KK.with(|f| f.set(Some(kk)));
                    agg.replay_case = Some(serde_json::to_value(&fc).unwrap());
                    agg.violation = Some(format!("transient {} at device call {} of the flush at step {}, flush retried: {}", if intr { "'interrupted' condition" } else { "fault" }, k, i, m));
                    agg.classes.insert("failing_k".into(), k as u64);
                    return agg;
                }
                if !fired && intr {
                    break;
                }
            }
            agg
        }));
    }
    // a transient fault at every device call of one write (an overwrite that crosses a cluster boundary inside the
    // chain, an append that needs a new cluster, the first write of an empty file, a write inside a cluster), the
    // caller repeating the write if the error is reported; then a flush: the flush point holds like any other
    if !rep.failed() {
        let mut vols: Vec<crate::vol::VolCfg> = [1usize, 8, 12].iter().map(|p| crate::vol::VolCfg::from_preset(*p)).collect();
        if tier == Tier::Thorough {
            vols.push(crate::vol::VolCfg::from_preset(5));
            vols.push(crate::vol::VolCfg::from_preset(3));
        }
        let shapes: usize = 5;
        let b = run::run_indexed("transient_fault_at_every_device_call_of_one_write_then_flush", (vols.len() * shapes * 2) as u64, |i, blk| {
            let intr = i % 2 == 1;
            let i = i as usize / 2;
            let v = &vols[i / shapes];
            let cs = v.cluster_size();
            let shape = i % shapes;
            for k in 0..200u16 {
                let mut ops = vec![
                    Op::CreateFile { via: 0, path: "other.bin".into(), keep: 2 },
                    Op::Write { h: 1, len: cs, seed: 9 },
                    Op::Write { h: 1, len: 3, seed: 8 },
                    Op::CloseFile { h: 1 },
                    Op::CreateFile { via: 0, path: "target file.bin".into(), keep: 1 },
                ];
                if shape != 2 {
                    // (a write call transfers at most one cluster: three calls make the three-cluster file)
                    for j in 0..3u8 {
                        ops.push(Op::Write { h: 0, len: cs, seed: 1 + j });
                    }
                    ops.push(Op::Flush { h: 0 });
                }
                // (one write call transfers at most up to the end of the cluster it starts in: the cluster lookup / the
                // allocation belongs to the call that STARTS on a boundary)
                let (seek_to, len) = match shape {
                    0 => (cs as i64, 40u32),                // starts on the first boundary inside the chain: lookup of the next cluster
                    1 => (3 * cs as i64, 5),               // starts at the end of the chain: a new cluster is allocated and linked
                    2 => (0, 7),                            // first write of an empty file: first cluster
                    3 => (cs as i64 + 9, 20),              // inside the second cluster
                    _ => (2 * cs as i64, cs),              // a whole cluster, starting on the last boundary inside the chain
                };
                ops.push(Op::Seek { h: 0, whence: 0, off: seek_to });
                ops.push(Op::WriteRetry { h: 0, len, seed: 5, k, interrupted: intr });
                ops.push(Op::Flush { h: 0 });
                // something else happens afterwards; the crash points lie behind the flush
                ops.push(Op::CreateFile { via: 0, path: "later.txt".into(), keep: 2 });
                ops.push(Op::Write { h: 1, len: 30, seed: 3 });
                ops.push(Op::CloseFile { h: 1 });
                let case = Case { vol: v.clone(), ops };
                let mut out = eval(&case);
                let retried = out.classes.contains_key("cases_with_write_failed_with_injected_fault_then_retried");
                let survived = out.classes.contains_key("cases_with_write_survived_injected_fault");
                out.nontrivial = retried || survived;
                out.hash = run::hash_str(&format!("wfault|{}|{}|{}|{:?}", shape, k, intr, v));
                blk.record(&out, || serde_json::json!({"shape": shape, "fault_at_device_call": k, "interrupted": intr, "vol": v}));
                if let Some(m) = out.violation {
                    return Some(Failure { message: format!("transient {} at device call {} of a write (shape {}), then flush: {}", if intr { "'interrupted' condition" } else { "fault" }, k, shape, m), case: serde_json::to_value(&case).unwrap(), kind: "crash".into() });
                }
                if !retried && !survived {
                    // k is past the last device call of the write
                    break;
                }
            }
            None
        });
        rep.add(b);
    }
    // an older handle on the same file, flushed and idle, is dropped after a newer handle has extended and flushed the
    // file: the drop hands nothing to the storage and must not put the older entry back
    if !rep.failed() {
        let vols: Vec<crate::vol::VolCfg> = [1usize, 8, 12].iter().map(|p| crate::vol::VolCfg::from_preset(*p)).collect();
        let b = run::run_indexed("idle_older_handle_dropped_after_a_newer_flush", (vols.len() * 3) as u64, |i, blk| {
            let v = &vols[i as usize / 3];
            let cs = v.cluster_size();
            let variant = i % 3;
            let mut ops = vec![
                Op::CreateFile { via: 0, path: "shared.bin".into(), keep: 1 },
                Op::Write { h: 0, len: cs / 2, seed: 1 },
                Op::Flush { h: 0 },
                Op::OpenFile { via: 0, path: "shared.bin".into(), keep: 2 },
                Op::Seek { h: 1, whence: 2, off: 0 },
                Op::Write { h: 1, len: cs / 2, seed: 2 },
                Op::Write { h: 1, len: cs, seed: 3 },
            ];
            match variant {
                0 => ops.push(Op::Flush { h: 1 }),
                1 => ops.push(Op::CloseFile { h: 1 }),
                _ => ops.extend([Op::Seek { h: 1, whence: 0, off: 10 }, Op::Truncate { h: 1 }, Op::Flush { h: 1 }]),
            }
            ops.extend([
                Op::CloseFile { h: 0 },
                Op::CreateFile { via: 0, path: "later.txt".into(), keep: 3 },
                Op::Write { h: 2, len: 30, seed: 4 },
                Op::CloseFile { h: 2 },
            ]);
            let case = Case { vol: v.clone(), ops };
            let mut out = eval(&case);
            out.nontrivial = true;
            blk.record(&out, || serde_json::json!({"vol": v, "variant": variant}));
            out.violation.map(|m| Failure { message: m, case: serde_json::to_value(&case).unwrap(), kind: "crash".into() })
        });
        rep.add(b);
    }
    // a file found by lookup (not the handle its creation returned) at every slot position of a directory cluster -
    // among them the last slot of a cluster and the first of the next - is extended and flushed: the entry the flush
    // hands over must be the one a remount finds (seeded change c14r10a: the position a lookup computes for the last
    // slot of a cluster)
    if !rep.failed() {
        let vols: Vec<crate::vol::VolCfg> = [1usize, 8, 12].iter().map(|p| crate::vol::VolCfg::from_preset(*p)).collect();
        let per_vol: Vec<u32> = vols.iter().map(|v| (v.cluster_size() / 64 + 3).min(if tier == Tier::Thorough { 140 } else { 40 })).collect();
        let total: u32 = per_vol.iter().sum::<u32>() * 2;
        let b = run::run_indexed("file_found_by_lookup_at_every_slot_position_of_a_directory_cluster", total as u64, |i, blk| {
            let in_root = i % 2 == 1;
            let mut n = (i / 2) as u32;
            let mut vi = 0usize;
            while n >= per_vol[vi] {
                n -= per_vol[vi];
                vi += 1;
            }
            let v = &vols[vi];
            let cs = v.cluster_size();
            let pre = if in_root { "" } else { "d/" };
            let mut ops = Vec::new();
            if !in_root {
                ops.push(Op::CreateDir { via: 0, path: "d".into(), keep: 0 });
            }
            for j in 0..n {
                ops.push(Op::CreateFile { via: 0, path: format!("{}f{:03}.txt", pre, j), keep: 0 });
            }
            ops.extend([
                Op::CreateFile { via: 0, path: format!("{}target.bin", pre), keep: 0 },
                Op::OpenFile { via: 0, path: format!("{}target.bin", pre), keep: 1 },
                Op::Write { h: 0, len: cs, seed: 1 },
                Op::Write { h: 0, len: 21, seed: 2 },
                Op::Flush { h: 0 },
                Op::CreateFile { via: 0, path: "later.txt".into(), keep: 2 },
                Op::Write { h: 1, len: 30, seed: 3 },
                Op::CloseFile { h: 1 },
                Op::CloseFile { h: 0 },
            ]);
            let case = Case { vol: v.clone(), ops };
            let mut out = eval(&case);
            out.nontrivial = out.classes.get("flush_points").copied().unwrap_or(0) > 0;
            out.hash = run::hash_str(&format!("slotpos|{}|{}|{}", vi, n, in_root));
            blk.record(&out, || serde_json::json!({"vol": v, "files_in_front": n, "in_root": in_root}));
            out.violation.map(|m| Failure { message: format!("{} files in front of the target in {}: {}", n, if in_root { "the root" } else { "a subdirectory" }, m), case: serde_json::to_value(&case).unwrap(), kind: "crash".into() })
        });
        rep.add(b);
    }
    rep.finish()
}
