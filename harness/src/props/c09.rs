//! C09 - storage errors surface as I/O errors: never swallowed, masked, a panic or a hang
//!
//! Exhaustive single-fault enumeration: for each volume (FAT12/16/32) x script (setup steps + one target operation)
//! the fault-free run counts the N device calls of the target operation; then for every k <= N the k-th device call
//! (read, write, seek or flush alike) of the target fails once with a tagged error. The public call during which
//! the fault fired must return Error::Io carrying that tag -- unless the fault fired inside a destructor.

use crate::dev::{DevErr, MemDev, Store};
use crate::run::{self, Block, CaseOut, Failure, Report, Tier};
use crate::session::{self, ek, guard, Caught, Clock, FErr, MountOpts, Session, EK};
use crate::vol::{self, VolCfg};
use fatfs::{Read, Seek, Write};
use proptest::prelude::*;
use serde::{Deserialize, Serialize};
use serde_json::json;

#[derive(Clone, Debug, Serialize, Deserialize, PartialEq)]
pub enum FStep {
    Mount,
    /// mount with FsOptions::strict(false)
    MountLenient,
    /// mount with FsOptions::update_accessed_date(true)
    MountAtime,
    /// write to the open file until the volume is full (the out-of-space error that ends it is expected)
    FillVolume,
    Unmount,
    Stats,
    Status,
    Labels,
    ListRoot,
    ListDir(String),
    OpenFile(String),
    CreateFile(String),
    OpenDirKeep(String),
    CreateDir(String),
    Remove(String),
    Rename(String, String),
    Read(u32),
    Write(u32),
    SeekStart(u64),
    SeekEnd(i64),
    Truncate,
    Flush,
    SetModified,
    Extents,
    CloseFile,
    Format,
}

#[derive(Clone, Debug, Serialize, Deserialize)]
pub struct Script {
    pub name: String,
    pub vol: VolCfg,
    /// executed fault-free
    pub setup: Vec<FStep>,
    /// the operation under fault injection (may be several public calls)
    pub target: Vec<FStep>,
    /// run on the populated volume after a filler file has taken every free cluster
    #[serde(default)]
    pub full: bool,
}

#[derive(Clone, Debug, Serialize, Deserialize)]
pub struct FaultCase {
    pub script: Script,
    pub k: u64,
}

/// one public call made while executing a step
struct CallRec {
    what: String,
    calls_before: u64,
    calls_after: u64,
    result: Result<(), (EK, Option<DevErr>)>,
}

struct Exec {
    dev: MemDev,
    clock: Clock,
    sess: Option<Session>,
    recs: Vec<CallRec>,
}

fn conv<T>(r: Result<T, FErr>) -> Result<(), (EK, Option<DevErr>)> {
    match r {
        Ok(_) => Ok(()),
        Err(e) => {
            let k = ek(&e);
            let inner = if let fatfs::Error::Io(d) = e { Some(d) } else { None };
            Err((k, inner))
        }
    }
}

impl Exec {
    fn rec<T>(&mut self, what: &str, f: impl FnOnce(&mut Exec) -> Result<T, FErr>) -> Option<T> {
        let before = self.dev.calls();
        let r = f(self);
        let after = self.dev.calls();
        let (res, val) = match r {
            Ok(v) => (Ok(()), Some(v)),
            Err(e) => (conv::<()>(Err(e)), None),
        };
        self.recs.push(CallRec { what: what.to_string(), calls_before: before, calls_after: after, result: res });
        val
    }

    /// returns false when the step could not proceed (an earlier call failed)
    fn step(&mut self, st: &FStep) -> bool {
        match st {
            FStep::Mount => {
                let dev = self.dev.handle();
                let clock = self.clock.clone();
                let s = self.rec("FileSystem::new", |_| Session::mount(&dev, &clock, &MountOpts::default()));
                match s {
                    Some(s) => {
                        self.sess = Some(s);
                        true
                    }
                    None => false,
                }
            }
            FStep::MountLenient => {
                let dev = self.dev.handle();
                let clock = self.clock.clone();
                let s = self.rec("FileSystem::new (strict off)", |_| Session::mount(&dev, &clock, &MountOpts { strict: false, ..MountOpts::default() }));
                match s {
                    Some(s) => {
                        self.sess = Some(s);
                        true
                    }
                    None => false,
                }
            }
            FStep::MountAtime => {
                let dev = self.dev.handle();
                let clock = self.clock.clone();
                let s = self.rec("FileSystem::new (access dates on)", |_| Session::mount(&dev, &clock, &MountOpts { access_date: true, ..MountOpts::default() }));
                match s {
                    Some(s) => {
                        self.sess = Some(s);
                        true
                    }
                    None => false,
                }
            }
            FStep::Unmount => {
                let Some(mut s) = self.sess.take() else { return false };
                s.drop_handles();
                self.rec("unmount", |_| s.unmount()).is_some()
            }
            FStep::Format => {
                let mut dev = self.dev.handle();
                dev.reset_pos();
                self.rec("format_volume", |_| fatfs::format_volume(&mut dev, fatfs::FormatVolumeOptions::new())).is_some()
            }
            _ => {
                if self.sess.is_none() {
                    return false;
                }
                self.step_mounted(st)
            }
        }
    }

    fn fs(&self) -> &'static session::Fs {
        self.sess.as_ref().unwrap().fs()
    }

    fn step_mounted(&mut self, st: &FStep) -> bool {
        match st {
            FStep::Stats => self.rec("stats", |x| x.fs().stats()).is_some(),
            FStep::Status => self.rec("read_status_flags", |x| x.fs().read_status_flags()).is_some(),
            FStep::Labels => self.rec("read_volume_label_from_root_dir", |x| x.fs().read_volume_label_from_root_dir()).is_some(),
            FStep::ListRoot | FStep::ListDir(_) => {
                let dir = match st {
                    FStep::ListDir(p) => {
                        let p = p.clone();
                        match self.rec("open_dir", |x| x.fs().root_dir().open_dir(&p)) {
                            Some(d) => d,
                            None => return false,
                        }
                    }
                    _ => self.fs().root_dir(),
                };
                let mut it = dir.iter();
                loop {
                    let mut end = false;
                    let r = self.rec("DirIter::next", |_| match it.next() {
                        None => {
                            end = true;
                            Ok(())
                        }
                        Some(Ok(e)) => {
                            let _ = (e.file_name(), e.short_file_name(), e.len(), e.attributes(), e.created(), e.modified(), e.accessed(), e.is_dir());
                            Ok(())
                        }
                        Some(Err(e)) => Err(e),
                    });
                    if r.is_none() || end {
                        return r.is_some();
                    }
                }
            }
            FStep::OpenFile(p) => {
                let p = p.clone();
                match self.rec("open_file", |x| x.fs().root_dir().open_file(&p)) {
                    Some(f) => {
                        self.sess.as_mut().unwrap().files[0] = Some(f);
                        true
                    }
                    None => false,
                }
            }
            FStep::CreateFile(p) => {
                let p = p.clone();
                match self.rec("create_file", |x| x.fs().root_dir().create_file(&p)) {
                    Some(f) => {
                        self.sess.as_mut().unwrap().files[0] = Some(f);
                        true
                    }
                    None => false,
                }
            }
            FStep::OpenDirKeep(p) => {
                let p = p.clone();
                match self.rec("open_dir", |x| x.fs().root_dir().open_dir(&p)) {
                    Some(d) => {
                        self.sess.as_mut().unwrap().dirs[0] = Some(d);
                        true
                    }
                    None => false,
                }
            }
            FStep::CreateDir(p) => {
                let p = p.clone();
                self.rec("create_dir", |x| x.fs().root_dir().create_dir(&p).map(|_| ())).is_some()
            }
            FStep::Remove(p) => {
                let p = p.clone();
                self.rec("remove", |x| x.fs().root_dir().remove(&p)).is_some()
            }
            FStep::Rename(a, b) => {
                let (a, b) = (a.clone(), b.clone());
                self.rec("rename", |x| {
                    let r = x.fs().root_dir();
                    r.rename(&a, &r, &b)
                })
                .is_some()
            }
            FStep::CloseFile => {
                // destructor: device calls made here are exempt
                self.sess.as_mut().unwrap().files[0] = None;
                true
            }
            _ => {
                if self.sess.as_ref().unwrap().files[0].is_none() {
                    return false;
                }
                let mut f = self.sess.as_mut().unwrap().files[0].take().unwrap();
                let ok = match st {
                    FStep::Read(n) => {
                        // read until n bytes or EOF, one public call at a time
                        let mut left = *n as usize;
                        let mut buf = vec![0u8; left.max(1)];
                        let mut ok = true;
                        while left > 0 {
                            match self.rec("File::read", |_| f.read(&mut buf[..left])) {
                                Some(0) => break,
                                Some(k) => left -= k,
                                None => {
                                    ok = false;
                                    break;
                                }
                            }
                        }
                        ok
                    }
                    FStep::Write(n) => {
                        let data: Vec<u8> = (0..*n).map(|i| (i * 7 + 1) as u8).collect();
                        let mut off = 0usize;
                        let mut ok = true;
                        while off < data.len() {
                            match self.rec("File::write", |_| f.write(&data[off..])) {
                                Some(0) => break,
                                Some(k) => off += k,
                                None => {
                                    ok = false;
                                    break;
                                }
                            }
                        }
                        ok
                    }
                    FStep::FillVolume => {
                        let data = vec![0x5Au8; 1 << 16];
                        loop {
                            let before = self.recs.len();
                            match self.rec("File::write", |_| f.write(&data)) {
                                Some(0) => break true,
                                Some(_) => {
                                    self.recs.truncate(before);
                                }
                                None => break matches!(self.recs.last().map(|r| &r.result), Some(Err((EK::NotEnoughSpace, _)))),
                            }
                        }
                    }
                    FStep::SeekStart(o) => self.rec("File::seek", |_| f.seek(fatfs::SeekFrom::Start(*o))).is_some(),
                    FStep::SeekEnd(o) => self.rec("File::seek", |_| f.seek(fatfs::SeekFrom::End(*o))).is_some(),
                    FStep::Truncate => self.rec("File::truncate", |_| f.truncate()).is_some(),
                    FStep::Flush => self.rec("File::flush", |_| f.flush()).is_some(),
                    FStep::SetModified => {
                        f.set_modified(fatfs::DateTime::new(fatfs::Date::new(2001, 2, 3), fatfs::Time::new(4, 5, 6, 0)));
                        f.set_created(fatfs::DateTime::new(fatfs::Date::new(2002, 3, 4), fatfs::Time::new(5, 6, 7, 80)));
                        true
                    }
                    FStep::Extents => {
                        let mut it = f.extents();
                        loop {
                            let mut end = false;
                            let r = self.rec("extents().next", |_| match it.next() {
                                None => {
                                    end = true;
                                    Ok(())
                                }
                                Some(Ok(_)) => Ok(()),
                                Some(Err(e)) => Err(e),
                            });
                            if r.is_none() || end {
                                break r.is_some();
                            }
                        }
                    }
                    _ => true,
                };
                self.sess.as_mut().unwrap().files[0] = Some(f);
                ok
            }
        }
    }
}

pub struct Outcome {
    /// device calls made by the target operation in this run
    pub target_calls: u64,
    pub verdict: Result<&'static str, String>,
}

/// Execute the script with the k-th device call of the target failing (k = 0: no fault).
pub fn execute(base: &Store, script: &Script, k: u64, budget_calls: u64) -> Outcome {
    let dev = MemDev::new(base.clone());
    if script.vol.short_io != 0 {
        dev.with(|d| d.short_io = 0x9E37_79B9_7F4A_7C15u64.wrapping_mul(script.vol.short_io as u64) | 1);
    }
    let clock = Clock::new(700_000_000_000);
    let mut ex = Exec { dev: dev.handle(), clock, sess: None, recs: Vec::new() };
    for st in &script.setup {
        if !ex.step(st) {
            return Outcome { target_calls: 0, verdict: Err(format!("setup step {:?} failed: {:?}", st, ex.recs.last().map(|r| (&r.what, &r.result)))) };
        }
    }
    ex.recs.clear();
    let start = dev.calls();
    let tag = 0xFA17_0000 + k;
    dev.with(|d| {
        d.fail_at = if k > 0 { Some(start + k) } else { None };
        d.fail_tag = tag;
        d.fired = None;
        d.budget = start + budget_calls;
    });
    let target = script.target.clone();
    let r = guard(|| {
        for st in &target {
            if !ex.step(st) {
                break;
            }
        }
        ex
    });
    let ex = match r {
        Caught::Ok(ex) => ex,
        Caught::Panic(p) => {
            let hit = dev.with(|d| d.budget_hit);
            let _ = dev.take_store();
            return Outcome {
                target_calls: 0,
                verdict: Err(if hit { format!("fault at device call {}: the operation exceeded the budget of {} device calls (does not terminate)", k, budget_calls) } else { format!("fault at device call {}: panic: {}", k, p) }),
            };
        }
    };
    let end = dev.calls();
    if dev.with(|d| d.budget_hit) {
        let mut ex = ex;
        if let Some(mut s) = ex.sess.take() {
            s.poisoned = true;
        }
        let _ = dev.take_store();
        return Outcome { target_calls: 0, verdict: Err(format!("fault at device call {}: the operation exceeded the budget of {} device calls (does not terminate)", k, budget_calls)) };
    }
    let fired = dev.with(|d| d.fired);
    dev.with(|d| {
        d.fail_at = None;
        d.budget = u64::MAX;
    });
    let verdict = if k == 0 {
        // user errors (remove of a non-empty directory, open of a missing file) are legitimate targets too
        match ex.recs.iter().find(|r| matches!(r.result, Err((EK::Io, _)))) {
            Some(r) => Err(format!("fault-free run: {} failed with {:?}", r.what, r.result)),
            None => Ok("fault_free"),
        }
    } else {
        match fired {
            None => Ok("not_reached"),
            Some(c) if c.in_drop => Ok("exempt_in_destructor"),
            Some(c) => {
                let abs = start + k;
                let rec = ex.recs.iter().find(|r| r.calls_before < abs && abs <= r.calls_after);
                match rec {
                    None => Err(format!("fault at device call {} ({:?} at offset {}) fired outside any recorded public call", k, c.kind, c.off)),
                    Some(r) => match &r.result {
                        Err((EK::Io, Some(DevErr::Injected(t)))) if *t == tag => Ok("surfaced"),
                        other => Err(format!("fault at device call {} ({:?} of {} bytes at offset {}) during {}: the call returned {:?} instead of Io(injected error)", k, c.kind, c.len, c.off, r.what, other)),
                    },
                }
            }
        }
    };
    // do not run destructors of a possibly inconsistent session
    let mut ex = ex;
    if let Some(s) = ex.sess.take() {
        s.abandon();
    }
    let _ = dev.take_store();
    Outcome { target_calls: end - start, verdict }
}

fn base_setup() -> Vec<FStep> {
    vec![
        FStep::Mount,
        FStep::CreateDir("dir1".into()),
        FStep::CreateDir("dir1/sub".into()),
        FStep::CreateDir("dir2".into()),
        FStep::CreateDir("empty dir with a long name".into()),
        FStep::CreateFile("dir1/sub/deep file.txt".into()),
        FStep::Write(1400),
        FStep::CloseFile,
        FStep::CreateFile("big.bin".into()),
        FStep::Write(2700),
        FStep::CloseFile,
        FStep::CreateFile("a rather long file name, longer than 26 units.text".into()),
        FStep::Write(10),
        FStep::CloseFile,
        FStep::CreateFile("empty.txt".into()),
        FStep::CloseFile,
        FStep::CreateFile("dir1/f1".into()),
        FStep::CloseFile,
        FStep::CreateFile("dir1/f2 long name number two".into()),
        FStep::CloseFile,
    ]
}

/// directories whose last cluster is exactly full ("fulldir") or has one free slot left ("almostdir"): the next
/// entry makes the directory grow (allocation + zeroing of a new directory cluster), for "almostdir" in the middle
/// of an entry's slot run. The library writes a long-name run for every name, so a name of up to 13 units takes two
/// slots and one of 14..26 units three.
fn full_dir_setup(vol: &VolCfg) -> Vec<FStep> {
    let slots = (vol.cluster_size() / 32) as usize;
    let mut v = Vec::new();
    if slots > 130 {
        return v;
    }
    // fulldir: "." and ".." + (slots - 2) / 2 two-slot entries
    v.push(FStep::CreateDir("dir2/fulldir".into()));
    for i in 0..(slots - 2) / 2 {
        v.push(FStep::CreateFile(format!("dir2/fulldir/F{:03}", i)));
        v.push(FStep::CloseFile);
    }
    // almostdir: "." and ".." + one three-slot entry + (slots - 6) / 2 two-slot entries = slots - 1
    v.push(FStep::CreateDir("dir2/almostdir".into()));
    v.push(FStep::CreateFile("dir2/almostdir/fourteen units".into()));
    v.push(FStep::CloseFile);
    for i in 0..(slots - 6) / 2 {
        v.push(FStep::CreateFile(format!("dir2/almostdir/F{:03}", i)));
        v.push(FStep::CloseFile);
    }
    v
}

/// fourteen names with the same two leading characters, extension and 16-bit name hash: the first four take the
/// numbered 6-character aliases, the next nine the hash form with tails 1..9, and creating the fourteenth exhausts the
/// first round of candidates (the library then scans the directory again with the next hash)
pub fn collision_family() -> &'static Vec<String> {
    static FAM: std::sync::OnceLock<Vec<String>> = std::sync::OnceLock::new();
    FAM.get_or_init(|| super::c16::same_hash_family("zq", ".log", 14, 9))
}

fn collision_dir_setup() -> Vec<FStep> {
    let mut v = vec![FStep::CreateDir("dir2/dir3".into())];
    for n in collision_family().iter().take(13) {
        v.push(FStep::CreateFile(format!("dir2/dir3/{}", n)));
        v.push(FStep::CloseFile);
    }
    v
}

/// the representative operations (each a target run on a freshly mounted populated volume)
pub fn targets() -> Vec<(&'static str, Vec<FStep>, Vec<FStep>)> {
    let m = || vec![FStep::Mount];
    vec![
        ("mount", vec![], vec![FStep::Mount]),
        ("mount_strict_off", vec![], vec![FStep::MountLenient]),
        ("stats", m(), vec![FStep::Stats]),
        ("status_flags", m(), vec![FStep::Status]),
        ("labels", m(), vec![FStep::Labels]),
        ("list_root", m(), vec![FStep::ListRoot]),
        ("list_subdir", m(), vec![FStep::ListDir("dir1".into())]),
        ("open_deep_and_read", m(), vec![FStep::OpenFile("dir1/sub/deep file.txt".into()), FStep::Read(5000)]),
        ("create_long_name_and_write", m(), vec![FStep::CreateFile("dir2/newly created file with a long name.dat".into()), FStep::Write(1300), FStep::Flush]),
        ("overwrite_middle", m(), vec![FStep::OpenFile("big.bin".into()), FStep::SeekStart(700), FStep::Write(900), FStep::Flush]),
        ("seek_end_and_read", m(), vec![FStep::OpenFile("big.bin".into()), FStep::SeekEnd(-3), FStep::Read(10)]),
        ("append", m(), vec![FStep::OpenFile("big.bin".into()), FStep::SeekEnd(0), FStep::Write(1500), FStep::Flush]),
        ("truncate_mid", m(), vec![FStep::OpenFile("big.bin".into()), FStep::SeekStart(300), FStep::Truncate, FStep::Flush]),
        ("truncate_zero", m(), vec![FStep::OpenFile("big.bin".into()), FStep::Truncate, FStep::Flush]),
        ("set_times_flush", m(), vec![FStep::OpenFile("empty.txt".into()), FStep::SetModified, FStep::Flush]),
        ("create_dir_long", m(), vec![FStep::CreateDir("dir2/a new directory with a long name".into())]),
        ("remove_multi_cluster_file", m(), vec![FStep::Remove("big.bin".into())]),
        ("remove_dir", m(), vec![FStep::Remove("empty dir with a long name".into())]),
        ("remove_nonempty_dir", m(), vec![FStep::Remove("dir1".into())]),
        ("rename_in_place", m(), vec![FStep::Rename("a rather long file name, longer than 26 units.text".into(), "renamed to another long name.text".into())]),
        ("move_file", m(), vec![FStep::Rename("big.bin".into(), "dir2/big moved.bin".into())]),
        ("move_dir", m(), vec![FStep::Rename("dir1/sub".into(), "dir2/sub".into())]),
        ("extents", m(), vec![FStep::OpenFile("big.bin".into()), FStep::Extents]),
        ("unmount_after_change", vec![FStep::Mount, FStep::OpenFile("empty.txt".into()), FStep::Write(600), FStep::CloseFile, FStep::Stats], vec![FStep::Unmount]),
        ("create_existing", m(), vec![FStep::CreateFile("dir1/f1".into()), FStep::Read(1)]),
        ("open_missing", m(), vec![FStep::OpenFile("dir1/sub/nothing here".into())]),
        // directory growth: allocation and zeroing of a new directory cluster (chained directories; on FAT32 also the root)
        ("create_in_full_dir", m(), vec![FStep::CreateFile("dir2/fulldir/G00".into())]),
        ("create_long_in_full_dir", m(), vec![FStep::CreateFile("dir2/fulldir/a long name spanning three slots.txt".into())]),
        ("mkdir_in_full_dir", m(), vec![FStep::CreateDir("dir2/fulldir/NEWDIR".into())]),
        ("move_into_full_dir", m(), vec![FStep::Rename("empty.txt".into(), "dir2/fulldir/moved here with a long name.txt".into())]),
        ("create_in_almost_full_dir", m(), vec![FStep::CreateFile("dir2/almostdir/a long name spanning three slots.txt".into())]),
        ("move_dir_into_almost_full_dir", m(), vec![FStep::Rename("dir1/sub".into(), "dir2/almostdir/sub moved".into())]),
        ("create_in_full_root", m(), vec![FStep::CreateFile("G00".into())]),
        ("create_long_in_full_root", m(), vec![FStep::CreateFile("a long name in the root spanning slots.txt".into())]),
        // every alias candidate of the first round is taken: the existence check scans the directory a second time
        ("create_when_all_first_round_aliases_are_taken", m(), vec![FStep::CreateFile(format!("dir2/dir3/{}", collision_family()[13]))]),
        ("move_when_all_first_round_aliases_are_taken", m(), vec![FStep::Rename("empty.txt".into(), format!("dir2/dir3/{}", collision_family()[13]))]),
        // the access-date option makes reads write (the entry's access date, when the handle is flushed)
        ("read_with_access_dates", vec![FStep::MountAtime], vec![FStep::OpenFile("big.bin".into()), FStep::Read(100), FStep::Flush]),
        ("list_and_read_with_access_dates", vec![FStep::MountAtime], vec![FStep::ListDir("dir1".into()), FStep::OpenFile("dir1/sub/deep file.txt".into()), FStep::SeekStart(600), FStep::Read(900), FStep::Flush]),
        // no free cluster left (names prefixed "full_volume_" run on the base image with a filler file): the calls fail
        // with the out-of-space error and clean up after themselves - device calls like any others
        ("full_volume_create_long_in_almost_full_dir", m(), vec![FStep::CreateFile("dir2/almostdir/a long name spanning three slots.txt".into())]),
        ("full_volume_move_into_almost_full_dir", m(), vec![FStep::Rename("empty.txt".into(), "dir2/almostdir/moved here with a long name.txt".into())]),
        ("full_volume_mkdir", m(), vec![FStep::CreateDir("dir2/a new directory with a long name".into())]),
        ("full_volume_mkdir_in_full_dir", m(), vec![FStep::CreateDir("dir2/fulldir/NEWDIR".into())]),
        ("full_volume_append", m(), vec![FStep::OpenFile("big.bin".into()), FStep::SeekEnd(0), FStep::Write(1500), FStep::Flush]),
        ("full_volume_write_to_empty_file", m(), vec![FStep::OpenFile("empty.txt".into()), FStep::Write(10), FStep::Flush]),
    ]
}

pub fn volumes(tier: Tier) -> Vec<VolCfg> {
    let mut v = vec![VolCfg::from_preset(1), VolCfg::from_preset(0), VolCfg::from_preset(8), VolCfg::from_preset(12)];
    let mut f32u = VolCfg::from_preset(12);
    f32u.fsinfo_unknown = true;
    v.push(f32u);
    // a storage that makes short transfers: every transfer becomes several device calls, each a fault position
    let mut sh = VolCfg::from_preset(1);
    sh.short_io = 7;
    v.push(sh);
    if tier == Tier::Thorough {
        v.push(VolCfg::from_preset(3));
        v.push(VolCfg::from_preset(9));
        v.push(VolCfg::from_gen_preset(6));
        v.push(VolCfg::from_gen_preset(0));
        let mut tiny = VolCfg::from_preset(1);
        tiny.free_lo = Some(20);
        tiny.free_hi = 2;
        v.push(tiny);
    }
    v
}

/// populated base image for a volume configuration
pub fn populated(vol: &VolCfg) -> Result<Store, String> {
    let dev = vol::make_device(vol)?;
    let base = dev.snapshot();
    let mut setup = base_setup();
    setup.extend(full_dir_setup(vol));
    setup.extend(collision_dir_setup());
    setup.push(FStep::Unmount);
    let run_steps = |store: Store, steps: &[FStep]| -> Result<Store, String> {
        let devp = MemDev::new(store);
        let clock = Clock::new(600_000_000_000);
        let mut ex = Exec { dev: devp.handle(), clock, sess: None, recs: Vec::new() };
        for st in steps {
            if !ex.step(st) {
                return Err(format!("populating {:?}: step {:?} failed: {:?}", vol, st, ex.recs.last().map(|r| (&r.what, &r.result))));
            }
        }
        drop(ex);
        Ok(devp.take_store())
    };
    let mut store = run_steps(base, &setup)?;
    if vol.fat == 32 {
        // pad the chained root directory with two- and three-slot entries until its last cluster is exactly full
        let dec = crate::refdec::decode(&store, crate::refdec::DecodeOpts::default()).map_err(|e| format!("populated volume does not decode: {}", e))?;
        let slots = (vol.cluster_size() / 32) as usize;
        let mut missing = (slots - dec.root.used_slots % slots) % slots;
        let mut pad = vec![FStep::Mount];
        let mut i = 0;
        while missing > 0 {
            if missing % 2 == 1 {
                if missing < 3 {
                    missing += slots;
                }
                pad.push(FStep::CreateFile(format!("fourteen un{:03}", i)));
                missing -= 3;
            } else {
                pad.push(FStep::CreateFile(format!("R{:03}", i)));
                missing -= 2;
            }
            pad.push(FStep::CloseFile);
            i += 1;
        }
        pad.push(FStep::Unmount);
        store = run_steps(store, &pad)?;
    }
    // the shapes the targets rely on, confirmed by the independent decoder
    let dec = crate::refdec::decode(&store, crate::refdec::DecodeOpts::default()).map_err(|e| format!("populated volume does not decode: {}", e))?;
    let slots = (vol.cluster_size() / 32) as usize;
    if vol.fat == 32 && dec.root.used_slots % slots != 0 {
        return Err(format!("populated FAT32 root uses {} slots: its last cluster is not exactly full", dec.root.used_slots));
    }
    if slots <= 130 {
        let find = |name: &str| -> Option<usize> {
            let d2 = dec.root.entries.iter().find(|e| String::from_utf16_lossy(&e.visible_units()) == "dir2")?.child.as_ref()?;
            let d = d2.entries.iter().find(|e| String::from_utf16_lossy(&e.visible_units()) == name)?.child.as_ref()?;
            Some(d.used_slots)
        };
        if find("fulldir") != Some(slots) || find("almostdir") != Some(slots - 1) {
            return Err(format!("populated directories have {:?} / {:?} used slots, wanted {} / {}", find("fulldir"), find("almostdir"), slots, slots - 1));
        }
    }
    Ok(store)
}

/// the populated volume with every free cluster taken by a filler file
pub fn filled(vol: &VolCfg, base: Store) -> Result<Store, String> {
    let devp = MemDev::new(base);
    let clock = Clock::new(650_000_000_000);
    let mut ex = Exec { dev: devp.handle(), clock, sess: None, recs: Vec::new() };
    for st in [FStep::Mount, FStep::CreateFile("dir1/FILLER.BIN".into()), FStep::FillVolume, FStep::CloseFile, FStep::Unmount] {
        if !ex.step(&st) {
            return Err(format!("filling {:?}: step {:?} failed: {:?}", vol, st, ex.recs.last().map(|r| (&r.what, &r.result))));
        }
    }
    drop(ex);
    Ok(devp.take_store())
}

fn eval_fault(base: &Store, script: &Script, k: u64, n: u64) -> CaseOut {
    let o = execute(base, script, k, 50 * n + 1000);
    let mut out = CaseOut::default();
    out.hash = run::hash_str(&format!("{}|{:?}|{}", script.name, script.vol, k));
    match o.verdict {
        Ok(class) => {
            out.nontrivial = class == "surfaced";
            out.classes.insert(class.to_string(), 1);
        }
        Err(m) => out.violation = Some(format!("{} on FAT{}: {}", script.name, script.vol.fat, m)),
    }
    out
}

fn blank_format_script(vol: &VolCfg) -> (Store, Script) {
    let bytes = vol.total_sectors as u64 * vol.bps as u64;
    let st = Store::dense(bytes as usize, 0xD1);
    (st, Script { name: "format_volume".into(), vol: vol.clone(), setup: vec![], target: vec![FStep::Format], full: false })
}

pub fn replay(v: &serde_json::Value) -> Result<Option<String>, String> {
    if v["kind"].as_str() == Some("stdio") {
        return super::c09std::replay(v);
    }
    let fc: FaultCase = serde_json::from_value(v["case"].clone()).map_err(|e| format!("bad fault case: {}", e))?;
    let base = if fc.script.target == vec![FStep::Format] {
        blank_format_script(&fc.script.vol).0
    } else if fc.script.full {
        filled(&fc.script.vol, populated(&fc.script.vol)?)?
    } else {
        populated(&fc.script.vol)?
    };
    let n = execute(&base, &fc.script, 0, u64::MAX / 100).target_calls;
    Ok(eval_fault(&base, &fc.script, fc.k, n).violation)
}

#[derive(Clone, Debug, Serialize, Deserialize)]
struct RandScript {
    vol_sel: u8,
    steps: Vec<FStep>,
}

fn fstep_strategy() -> impl Strategy<Value = FStep> {
    let names = prop::sample::select(vec!["big.bin", "empty.txt", "dir1/f1", "dir1/sub/deep file.txt", "dir2/n1", "dir2/another new long file name.bin", "n2", "dir1", "dir2", "dir1/sub", "empty dir with a long name", "dir2/nd"]);
    prop_oneof![
        2 => Just(FStep::Stats),
        1 => Just(FStep::Status),
        2 => Just(FStep::ListRoot),
        2 => names.clone().prop_map(|n| FStep::ListDir(n.to_string())),
        4 => names.clone().prop_map(|n| FStep::OpenFile(n.to_string())),
        4 => names.clone().prop_map(|n| FStep::CreateFile(n.to_string())),
        3 => names.clone().prop_map(|n| FStep::CreateDir(n.to_string())),
        4 => names.clone().prop_map(|n| FStep::Remove(n.to_string())),
        4 => (names.clone(), names.clone()).prop_map(|(a, b)| FStep::Rename(a.to_string(), b.to_string())),
        4 => (0u32..3000).prop_map(FStep::Read),
        6 => (0u32..3000).prop_map(FStep::Write),
        3 => (0u64..4000).prop_map(FStep::SeekStart),
        2 => (-3000i64..10).prop_map(FStep::SeekEnd),
        3 => Just(FStep::Truncate),
        2 => Just(FStep::Flush),
        1 => Just(FStep::SetModified),
        1 => Just(FStep::Extents),
        2 => Just(FStep::CloseFile),
    ]
}

pub fn run(tier: Tier, seed: u64) -> i32 {
    let rule = "exhaustive single-fault enumeration: for every volume (FAT12/16/32, FAT32 with unknown FS-info count) x representative operation (mount, stats, status flags, labels, list, deep open+read, create+write+flush, overwrite, seek+read, append, truncate, set times, mkdir, remove file/dir, rename, move file/dir, extents, unmount, format, reads with the access-date option on, create / move into a directory where every first-round alias candidate is taken (second directory scan), and create / mkdir / move / append on a volume without a free cluster, whose out-of-space paths clean up after themselves) every position k of the operation's device-call sequence fails once with a tagged error (read, write, seek and flush alike); the public call (or iterator item) in progress must return Error::Io with that tag, within 50*N+1000 device calls and without panic; faults inside destructors are exempt (drop-depth hook); plus the same enumeration on a std::io storage behind fatfs::StdIoWrapper with a std::io::Error of each kind except Interrupted (the one kind the storage traits document as 'retry'): the call must return Error::Io carrying that kind; plus random scripts whose last steps are enumerated the same way; non-trivial = the fault fired outside a destructor; distinct by (script, volume, k)";
    let mut rep = Report::new("C09", tier, seed, "fault_enumeration", rule);
    rep.assume("single faults only (one failing device call per run)");
    rep.assume("device calls issued from File::drop / FileSystem::drop are exempt, identified by the verif_drop_depth hook");
    // regression replays
    let mut reg = Block::new("regress");
    for f in run::regress_files("C09") {
        if let Ok(v) = run::load_replay(&f) {
            let mut out = CaseOut::default();
            out.hash = run::hash_str(&f);
            out.nontrivial = true;
            match replay(&v) {
                Ok(None) => {}
                Ok(Some(m)) => out.violation = Some(m),
                Err(e) => eprintln!("{}: {}", f, e),
            }
            reg.record(&out, || v["case"].clone());
            if let Some(m) = out.violation {
                if reg.failure.is_none() {
                    reg.failure = Some(Failure { message: format!("regression case {}: {}", f, m), case: v["case"].clone(), kind: "fault".into() });
                }
            }
        }
    }
    rep.add(reg);
    // enumeration
    let vols = volumes(tier);
    let tg = targets();
    let mut work: Vec<(usize, usize)> = Vec::new();
    for vi in 0..vols.len() {
        for ti in 0..=tg.len() {
            work.push((vi, ti));
        }
    }
    let cap: u64 = tier.pick(450, 6000);
    let bases: Vec<Result<Store, String>> = vols.iter().map(populated).collect();
    for (i, b) in bases.iter().enumerate() {
        if let Err(e) = b {
            eprintln!("cannot populate volume {}: {}", i, e);
            return 2;
        }
    }
    let mut full_bases: Vec<Store> = Vec::new();
    for (i, b) in bases.iter().enumerate() {
        match filled(&vols[i], b.as_ref().unwrap().clone()) {
            Ok(s) => full_bases.push(s),
            Err(e) => {
                eprintln!("cannot fill volume {}: {}", i, e);
                return 2;
            }
        }
    }
    let mut blk = run::run_indexed("single_fault_enumeration", work.len() as u64, |idx, blk| {
        let (vi, ti) = work[idx as usize];
        let vol = &vols[vi];
        let (base, script) = if ti == tg.len() {
            let (st, sc) = blank_format_script(vol);
            (st, sc)
        } else {
            let (name, setup, target) = &tg[ti];
            let full = name.starts_with("full_volume_");
            let base = if full { full_bases[vi].clone() } else { bases[vi].as_ref().unwrap().clone() };
            (base, Script { name: name.to_string(), vol: vol.clone(), setup: setup.clone(), target: target.clone(), full })
        };
        let free = execute(&base, &script, 0, u64::MAX / 100);
        if let Err(m) = free.verdict {
            return Some(Failure { message: format!("{} on FAT{}: {}", script.name, vol.fat, m), case: serde_json::to_value(FaultCase { script: script.clone(), k: 0 }).unwrap(), kind: "fault".into() });
        }
        let n = free.target_calls;
        // operations with very long device-call sequences (free-cluster recount: two calls per table entry) are
        // enumerated at their first and last `cap/3` positions and on a stride in between
        let ks: Vec<u64> = if n <= cap {
            (1..=n).collect()
        } else {
            let third = cap / 3;
            let mut v: Vec<u64> = (1..=third).collect();
            let stride = ((n - 2 * third) / third).max(1);
            let mut k = third + 1;
            while k <= n - third {
                v.push(k);
                k += stride;
            }
            v.extend((n - third + 1)..=n);
            *blk.classes.entry("operations_sampled_not_exhaustive".into()).or_insert(0) += 1;
            v
        };
        for k in ks {
            let out = eval_fault(&base, &script, k, n);
            blk.record(&out, || json!({"script": script.name, "fat": vol.fat, "k": k, "of": n, "target": script.target}));
            if let Some(m) = out.violation {
                return Some(Failure { message: m, case: serde_json::to_value(FaultCase { script: script.clone(), k }).unwrap(), kind: "fault".into() });
            }
        }
        *blk.classes.entry("operations_enumerated".into()).or_insert(0) += 1;
        *blk.classes.entry("device_calls_total".into()).or_insert(0) += n;
        None
    });
    blk.exhaustive = blk.classes.get("operations_sampled_not_exhaustive").copied().unwrap_or(0) == 0;
    rep.add(blk);
    // a std::io storage behind fatfs::StdIoWrapper: the injected error is a std::io::Error of every kind but Interrupted
    if !rep.failed() {
        let okb: Vec<Store> = bases.iter().map(|b| b.as_ref().unwrap().clone()).collect();
        rep.add(super::c09std::block(&vols, &okb, tier.pick(400, 6000)));
    }
    // random scripts: prefix fault-free, every position of the last 1..3 steps
    if !rep.failed() {
        let n_scripts = tier.pick(150u32, 3000u32);
        let vols2 = vols.clone();
        let bases2: Vec<Store> = bases.iter().map(|b| b.as_ref().unwrap().clone()).collect();
        let b = run::run_random(
            "random_scripts_all_positions_of_last_steps",
            seed,
            n_scripts,
            "fault",
            || run::boxed((any::<u8>(), prop::collection::vec(fstep_strategy(), 2..14)).prop_map(|(vol_sel, steps)| RandScript { vol_sel, steps })),
            |rs: &RandScript| {
                let vi = rs.vol_sel as usize % vols2.len();
                let cut = rs.steps.len() - 1.min(rs.steps.len());
                let mut setup = vec![FStep::Mount];
                setup.extend_from_slice(&rs.steps[..cut]);
                let script = Script { name: "random".into(), vol: vols2[vi].clone(), setup, target: rs.steps[cut..].to_vec(), full: false };
                let mut agg = CaseOut::default();
                agg.hash = run::hash_str(&serde_json::to_string(rs).unwrap());
                // setup steps may legitimately fail (missing files ...): drop failing ones by executing leniently
                let free = execute_lenient(&bases2[vi], &script, 0, u64::MAX / 100);
                let n = free.target_calls;
                if free.verdict.is_err() {
                    agg.classes.insert("target_fails_without_fault".into(), 1);
                    return agg;
                }
                for k in (1..=n).take(400) {
                    let o = execute_lenient(&bases2[vi], &script, k, 50 * n + 1000);
                    match o.verdict {
                        Ok(c) => {
                            *agg.classes.entry(c.to_string()).or_insert(0) += 1;
                            if c == "surfaced" {
                                agg.nontrivial = true;
                            }
                        }
                        Err(m) => {
                            agg.violation = Some(format!("random script on FAT{}: setup {:?} target {:?}: {}", script.vol.fat, script.setup, script.target, m));
                            return agg;
                        }
                    }
                }
                agg
            },
        );
        rep.add(b);
    }
    rep.finish()
}

/// like `execute`, but setup steps that fail (user errors) are simply skipped
fn execute_lenient(base: &Store, script: &Script, k: u64, budget: u64) -> Outcome {
    // run the setup on a scratch copy to find which steps succeed, then delegate with only those
    let dev = MemDev::new(base.clone());
    let clock = Clock::new(700_000_000_000);
    let mut ex = Exec { dev: dev.handle(), clock, sess: None, recs: Vec::new() };
    let mut ok_steps = Vec::new();
    for st in &script.setup {
        let r = guard(|| {
            let ok = ex.step(st);
            (ex, ok)
        });
        match r {
            Caught::Ok((e, ok)) => {
                ex = e;
                if ok {
                    ok_steps.push(st.clone());
                }
            }
            Caught::Panic(_) => {
                let _ = dev.take_store();
                return Outcome { target_calls: 0, verdict: Err("setup panicked".into()) };
            }
        }
    }
    if let Some(s) = ex.sess.take() {
        s.abandon();
    }
    let _ = dev.take_store();
    let sc = Script { name: script.name.clone(), vol: script.vol.clone(), setup: ok_steps, target: script.target.clone(), full: script.full };
    execute(base, &sc, k, budget)
}
