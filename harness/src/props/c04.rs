//! C04 - what a session saw is what is on the disk: remount and independent decode agree
use super::hist::HistProp;
use crate::gen::{GenCfg, K};
use crate::ops::{Aspect, RunCfg, Trace};

fn nontrivial(t: &Trace) -> bool {
    t.has("checkpoint") && (t.has("write") || t.has("rename") || t.has("remove") || t.has("truncate_shrinks"))
}

pub fn prop() -> HistProp {
    let mut rc = RunCfg::new(&[Aspect::Remount, Aspect::Panic, Aspect::Budget]);
    rc.flush_each = false;
    rc.checkpoint = true;
    rc.known.partial_create_nospace = false;
    let mut gc = GenCfg::mixed();
    gc.max_ops = 30;
    gc.weights.retain(|w| w.0 != K::Remount);
    gc.weights.push((K::Remount, 8));
    gc.weights.push((K::SetTimes, 4));
    gc.weights.push((K::Tick, 4));
    gc.tiny_free_pct = 25;
    gc.access_date = vec![false, true];
    gc.populate_pct = 10;
    HistProp {
        id: "C04",
        level: "exploration",
        rule: "random histories with long-lived handles and UNFLUSHED writes (no flush after write), set_created/modified/accessed, renames, removes, truncates and clock jumps, with checkpoints (all handles dropped) at random positions, before and after unmount and at the end; at a checkpoint the session's own recursive listing (names, short names, attributes, sizes, three timestamps, contents) must equal a second FileSystem::new on a copy of the bytes AND refdec's independent decode, and device bytes at File::extents() must reproduce each file; non-trivial = a checkpoint preceded by a write, rename, remove or truncate; distinct by hash(config, ops)",
        run_cfg: rc,
        gen_cfg: gc,
        nontrivial,
        quick_cases: 16000,
        thorough_cases: 150000,
        pressure_cases: (3000, 50000),
        assumptions: vec!["differential oracle, independent of the reference model", "documented preconditions of DESIGN 4.3"],
    }
}
