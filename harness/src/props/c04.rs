//! C04 - what a session saw is what is on the disk: remount and independent decode agree
use super::hist::{self, HistProp};
use crate::gen::{Case, GenCfg, K};
use crate::ops::{Aspect, RunCfg, Trace};
use crate::run::{self, Report, Tier};
use crate::vol::VolCfg;

fn nontrivial(t: &Trace) -> bool {
    t.has("checkpoint") && (t.has("write") || t.has("rename") || t.has("remove") || t.has("truncate_shrinks"))
}

pub fn prop() -> HistProp {
    let mut rc = RunCfg::new(&[Aspect::Remount, Aspect::Panic, Aspect::Budget]);
    rc.flush_each = false;
    rc.checkpoint = true;
    rc.known.partial_create_nospace = false;
    let mut gc = GenCfg::mixed();
    gc.max_ops = 30;
    gc.weights.retain(|w| w.0 != K::Remount);
    gc.weights.push((K::Remount, 8));
    gc.weights.push((K::SetTimes, 4));
    gc.weights.push((K::Tick, 4));
    gc.tiny_free_pct = 25;
    gc.access_date = vec![false, true];
    gc.populate_pct = 10;
    HistProp {
        id: "C04",
        level: "exploration",
        rule: "random histories with long-lived handles and UNFLUSHED writes (no flush after write), set_created/modified/accessed, renames, removes, truncates and clock jumps, with checkpoints (all handles dropped) at random positions, before and after unmount and at the end; at a checkpoint the session's own recursive listing (names, short names, attributes, sizes, three timestamps, contents) must equal a second FileSystem::new on a copy of the bytes AND refdec's independent decode, and device bytes at File::extents() must reproduce each file; non-trivial = a checkpoint preceded by a write, rename, remove or truncate; distinct by hash(config, ops)",
        run_cfg: rc,
        gen_cfg: gc,
        nontrivial,
        quick_cases: 16000,
        thorough_cases: 150000,
        pressure_cases: (3000, 50000),
        assumptions: vec!["differential oracle, independent of the reference model", "documented preconditions of DESIGN 4.3"],
    }
}

pub fn run(tier: Tier, seed: u64) -> i32 {
    let hp = prop();
    let mut rep = Report::new(hp.id, tier, seed, hp.level, hp.rule);
    rep.rule.push_str("; plus two files of which one allocates a cluster in a write that a storage fault hits at EVERY device call (hard error / 'interrupted') and that the caller repeats, then the other file allocates and both are written again: at the final checkpoint remount and independent decode must agree with what the session lists");
    for a in &hp.assumptions {
        rep.assume(a);
    }
    let kb = hist::known_block(&hp, &mut rep);
    rep.add(kb);
    rep.add(hist::regress_block(&hp));
    if !rep.failed() {
        let vols: Vec<VolCfg> = [1usize, 8, 12, 3].iter().map(|p| VolCfg::from_preset(*p)).collect();
        let hp_ref = &hp;
        let b = run::run_indexed("allocation_hit_by_a_fault_then_another_file_allocates", (vols.len() * 2) as u64, |i, blk| {
            let vol = &vols[i as usize / 2];
            let intr = i % 2 == 1;
            for k in 0..80u16 {
                let case = Case { vol: vol.clone(), ops: super::c11::alloc_fault_ops(vol.cluster_size(), k, intr) };
                let mut out = hist::eval_case(hp_ref, &case);
                let touched = out.classes.contains_key("cases_with_write_failed_with_injected_fault_then_retried") || out.classes.contains_key("cases_with_write_survived_injected_fault");
                out.nontrivial = touched;
                out.hash = run::hash_str(&format!("allocfault|{}|{}|{:?}", k, intr, vol));
                blk.record(&out, || serde_json::json!({"vol": vol, "fault_at_device_call": k, "interrupted": intr}));
                if let Some(m) = out.violation {
                    return Some(run::Failure { message: format!("fault at device call {} of an allocating write, write repeated: {}", k, m), case: serde_json::to_value(&case).unwrap(), kind: "history".into() });
                }
                if !touched {
                    break;
                }
            }
            None
        });
        rep.add(b);
    }
    if !rep.failed() {
        rep.add(hist::random_block(&hp, "random_histories", seed, tier.pick(hp.quick_cases, hp.thorough_cases)));
    }
    if !rep.failed() {
        if let Some(b) = hist::pressure_block(&hp, seed, tier) {
            rep.add(b);
        }
    }
    rep.finish()
}
