//! C18 - timestamps round-trip at documented resolution and follow stamping rules (stamping part; the round-trip
//! sweep lives in c18rt.rs)
use super::hist::HistProp;
use crate::gen::{GenCfg, K};
use crate::ops::{Aspect, RunCfg, Trace};

fn nontrivial(t: &Trace) -> bool {
    t.has("write") && (t.has("rename") || t.has("set_times")) && t.has("mkfile")
}

pub fn prop() -> HistProp {
    let mut rc = RunCfg::new(&[Aspect::Times, Aspect::Panic, Aspect::Budget]);
    rc.times = true;
    rc.flush_each = true;
    let mut gc = GenCfg::mixed();
    gc.weights.push((K::SetTimes, 8));
    gc.weights.push((K::Tick, 14));
    gc.weights.push((K::Read, 8));
    gc.access_date = vec![false, true];
    gc.tiny_free_pct = 10;
    HistProp {
        id: "C18",
        level: "exploration",
        rule: "stamping: random histories under a harness clock that jumps by generated amounts (0..55 h), access-date option on and off; model: creation stamps created/modified/accessed once from the clock, each successful write sets modified, reads set accessed only with the option on, explicit set_* stores the value floored to 10 ms / 2 s / 1 day, rename and operations on other entries change nothing (directories written into are exempt); raw date/time words decoded independently after every call; non-trivial = history with a file creation, a write and (a rename or an explicit set_*); run once with a flush after every call and once with the library's deferred write-back left alone (several writes / clock jumps / set_* through one handle, judged when the handle is closed). Round trip: see the exhaustive blocks",
        run_cfg: rc,
        gen_cfg: gc,
        nontrivial,
        quick_cases: 8000,
        thorough_cases: 120000,
        pressure_cases: (0, 0),
        assumptions: vec!["directories that had entries written into them are exempt from the timestamp comparison"],
    }
}

// ---------------------------------------------------------------------------------------------------------
// round trip: explicit set_* -> drop -> re-list, over the whole finite domain

use crate::refdec;
use crate::run::{self, Block, CaseOut, Failure, Report, Tier};
use crate::session::{guard, ts_of_date, ts_of_dt, Caught, Clock, MountOpts, Session};
use crate::tree::Ts;
use crate::vol::{self, VolCfg};
use serde::{Deserialize, Serialize};

#[derive(Clone, Debug, Serialize, Deserialize)]
pub struct RtCase {
    pub y: u16,
    pub mo: u16,
    pub d: u16,
    pub h: u16,
    pub mi: u16,
    pub s: u16,
    pub ms: u16,
    pub fat: u8,
    pub raw_check: bool,
}

struct RtCtx {
    sess: Session,
    dev: crate::dev::MemDev,
}

thread_local! {
    static RT: std::cell::RefCell<Vec<Option<RtCtx>>> = const { std::cell::RefCell::new(Vec::new()) };
}

fn rt_ctx(fat: u8) -> Result<usize, String> {
    let slot = match fat {
        12 => 0,
        16 => 1,
        _ => 2,
    };
    RT.with(|r| {
        let mut r = r.borrow_mut();
        while r.len() < 3 {
            r.push(None);
        }
        if r[slot].is_none() {
            let cfg = match fat {
                12 => VolCfg::from_preset(0),
                16 => VolCfg::from_preset(8),
                _ => VolCfg::from_preset(12),
            };
            let dev = vol::make_device(&cfg)?;
            let clock = Clock::new(900_000_000_000);
            let sess = Session::mount(&dev, &clock, &MountOpts::default()).map_err(|e| format!("{:?}", e))?;
            let root = sess.root();
            root.create_dir("dir").map_err(|e| format!("{:?}", e))?;
            root.create_file("dir/target file.bin").map_err(|e| format!("{:?}", e))?;
            root.create_file("dir/other.bin").map_err(|e| format!("{:?}", e))?;
            drop(root);
            r[slot] = Some(RtCtx { sess, dev });
        }
        Ok(slot)
    })
}

pub fn rt_eval(c: &RtCase) -> CaseOut {
    let mut out = CaseOut::default();
    out.hash = ((c.y as u64) << 48) ^ ((c.mo as u64) << 44) ^ ((c.d as u64) << 39) ^ ((c.h as u64) << 34) ^ ((c.mi as u64) << 28) ^ ((c.s as u64) << 22) ^ ((c.ms as u64) << 12) ^ c.fat as u64;
    out.nontrivial = c.ms % 10 != 0 || c.s % 2 == 1 || c.y >= 2044 || c.h >= 16;
    let slot = match rt_ctx(c.fat) {
        Ok(s) => s,
        Err(e) => {
            out.violation = Some(format!("harness: {}", e));
            return out;
        }
    };
    let cc = c.clone();
    let r = guard(move || {
        RT.with(|r| {
            let mut r = r.borrow_mut();
            let ctx = r[slot].as_mut().unwrap();
            let input = Ts { y: cc.y, mo: cc.mo, d: cc.d, h: cc.h, mi: cc.mi, s: cc.s, ms: cc.ms };
            let date = fatfs::Date::new(cc.y, cc.mo, cc.d);
            let dt = fatfs::DateTime::new(date, fatfs::Time::new(cc.h, cc.mi, cc.s, cc.ms));
            {
                // first store a neighbouring value (same date, same 2-second slot, other odd-second / 10 ms part;
                // or the previous day), so that the target has to replace something that differs only in the
                // low-resolution-invisible part
                let (ns, nms) = if cc.s % 2 == 0 && cc.ms < 10 { (cc.s + 1, 990) } else { (cc.s & !1, 0) };
                let ndt = fatfs::DateTime::new(date, fatfs::Time::new(cc.h, cc.mi, ns, nms));
                let ndate = if cc.d > 1 { fatfs::Date::new(cc.y, cc.mo, cc.d - 1) } else { fatfs::Date::new(cc.y, cc.mo, 2) };
                let root = ctx.sess.root();
                let mut f = root.open_file("dir/target file.bin").map_err(|e| format!("open: {:?}", e))?;
                f.set_created(ndt);
                f.set_modified(fatfs::DateTime::new(date, fatfs::Time::new(cc.h, cc.mi, cc.s ^ 2 & 58, 0)));
                f.set_accessed(ndate);
                drop(f);
                let mut f = root.open_file("dir/target file.bin").map_err(|e| format!("open: {:?}", e))?;
                f.set_created(dt);
                f.set_modified(dt);
                f.set_accessed(date);
                drop(f);
            }
            let check = |what: &str, created: Ts, modified: Ts, accessed: Ts| -> Result<(), String> {
                if created != input.floor_10ms() {
                    return Err(format!("{}: created {:?} after setting {:?} (expected {:?})", what, created, input, input.floor_10ms()));
                }
                if modified != input.floor_2s() {
                    return Err(format!("{}: modified {:?} after setting {:?} (expected {:?})", what, modified, input, input.floor_2s()));
                }
                if accessed != input.date_only() {
                    return Err(format!("{}: accessed {:?} after setting {:?} (expected {:?})", what, accessed, input, input.date_only()));
                }
                Ok(())
            };
            let list = |sess: &Session| -> Result<(Ts, Ts, Ts, Ts), String> {
                let d = sess.root().open_dir("dir").map_err(|e| format!("open_dir: {:?}", e))?;
                let mut got = None;
                let mut other = None;
                for e in d.iter() {
                    let e = e.map_err(|e| format!("iter: {:?}", e))?;
                    if e.file_name() == "target file.bin" {
                        got = Some((ts_of_dt(e.created()), ts_of_dt(e.modified()), ts_of_date(e.accessed())));
                    }
                    if e.file_name() == "other.bin" {
                        other = Some(ts_of_dt(e.modified()));
                    }
                }
                let g = got.ok_or("target not listed")?;
                Ok((g.0, g.1, g.2, other.ok_or("other not listed")?))
            };
            let (c1, m1, a1, other1) = list(&ctx.sess)?;
            check("re-list in the same session", c1, m1, a1)?;
            // the neighbour must be untouched (stamped once at creation from the fixed clock)
            let want_other = Ts::from_ms(900_000_000_000).floor_2s();
            if other1 != want_other {
                return Err(format!("setting times of one entry changed its neighbour's modified time to {:?}", other1));
            }
            if cc.raw_check {
                // remount + raw words
                let snap = ctx.dev.snapshot();
                let dec = refdec::decode(&snap, refdec::DecodeOpts { read_data: false, ..Default::default() }).map_err(|e| format!("decode: {}", e))?;
                let de = dec.root.entries.iter().find(|e| e.visible_string() == "dir").and_then(|e| e.child.as_ref()).ok_or("dir not decoded")?;
                let e = de.entries.iter().find(|e| e.visible_string() == "target file.bin").ok_or("target not decoded")?;
                check("raw words decoded independently", Ts::from_words(e.cdate, e.ctime, e.ctime_cs), Ts::from_words(e.mdate, e.mtime, 0), Ts::from_words(e.adate, 0, 0))?;
                let dev2 = crate::dev::MemDev::new(snap);
                let clock2 = Clock::new(0);
                let s2 = Session::mount(&dev2, &clock2, &MountOpts::default()).map_err(|e| format!("remount: {:?}", e))?;
                let (c2, m2, a2, _) = list(&s2)?;
                s2.abandon();
                check("re-list after remount", c2, m2, a2)?;
            }
            Ok::<(), String>(())
        })
    });
    match r {
        Caught::Panic(p) => {
            RT.with(|r| r.borrow_mut().clear());
            out.violation = Some(format!("timestamp round trip {:?} panicked: {}", c, p));
        }
        Caught::Ok(Err(e)) => out.violation = Some(format!("timestamp round trip {:?}: {}", c, e)),
        Caught::Ok(Ok(())) => {}
    }
    out
}

fn rt_fail(c: &RtCase, m: String) -> Failure {
    Failure { message: m, case: serde_json::to_value(c).unwrap(), kind: "timestamp".into() }
}

pub fn replay(v: &serde_json::Value) -> Result<Option<String>, String> {
    if v["kind"] == "timestamp" {
        let c: RtCase = serde_json::from_value(v["case"].clone()).map_err(|e| format!("bad case: {}", e))?;
        return Ok(rt_eval(&c).violation);
    }
    hist::replay_value(&prop(), v)
}

use super::hist;

pub fn run(tier: Tier, seed: u64) -> i32 {
    let hp = prop();
    let rule = format!("{}; round trip: every (year 1980..2107, month 1..12, day 1..31) = 47,616 dates (both tiers, exhaustive) and every (hour, minute, second, 10 ms step) = 8,640,000 times of day (thorough: exhaustive; quick: every (hour, minute) x seconds {{0,1,2,29,30,57,58,59}} x centiseconds {{0,1,50,99}} x ms offsets {{0,5,9}} plus 200,000 random), each set through File::set_created/set_modified/set_accessed, dropped, re-listed in the same session (created floored to 10 ms, modified to 2 s, accessed to the day), every 997th also decoded from the raw words by refdec and re-listed after a remount; a neighbour entry must keep its times; non-trivial = value not already at field resolution, or year >= 2044, or hour >= 16", hp.rule);
    let mut rep = Report::new("C18", tier, seed, hp.level, &rule);
    for a in &hp.assumptions {
        rep.assume(a);
    }
    let kb = hist::known_block(&hp, &mut rep);
    rep.add(kb);
    // regression (both kinds)
    let mut reg = Block::new("regress");
    for f in run::regress_files("C18") {
        if let Ok(v) = run::load_replay(&f) {
            let mut out = CaseOut::default();
            out.hash = run::hash_str(&f);
            out.nontrivial = true;
            if let Ok(Some(m)) = replay(&v) {
                out.violation = Some(m);
            }
            reg.record(&out, || v["case"].clone());
            if let Some(m) = out.violation {
                if reg.failure.is_none() {
                    reg.failure = Some(Failure { message: format!("regression case {}: {}", f, m), case: v["case"].clone(), kind: v["kind"].as_str().unwrap_or("history").to_string() });
                }
            }
        }
    }
    rep.add(reg);
    // all dates
    let n_dates = 128u64 * 12 * 31;
    let mut d = run::run_indexed("roundtrip_all_dates", n_dates * 3, |i, blk| {
        let fat = [12u8, 16, 32][(i / n_dates) as usize];
        let k = i % n_dates;
        let c = RtCase { y: 1980 + (k / 372) as u16, mo: 1 + ((k / 31) % 12) as u16, d: 1 + (k % 31) as u16, h: (k % 24) as u16, mi: (k % 60) as u16, s: (k % 60) as u16, ms: ((k * 7) % 1000) as u16, fat, raw_check: k % 997 == 0 };
        let out = rt_eval(&c);
        blk.record(&out, || serde_json::to_value(&c).unwrap());
        out.violation.map(|m| rt_fail(&c, m))
    });
    d.exhaustive = true;
    rep.add(d);
    // times of day
    if !rep.failed() {
        if tier == Tier::Thorough {
            let n = 24u64 * 60 * 60 * 100;
            let mut t = run::run_indexed("roundtrip_all_times_of_day_10ms", n, |i, blk| {
                let cs = i % 100;
                let s = (i / 100) % 60;
                let mi = (i / 6000) % 60;
                let h = i / 360000;
                let c = RtCase { y: 1980 + (i % 128) as u16, mo: 1 + (i % 12) as u16, d: 1 + (i % 28) as u16, h: h as u16, mi: mi as u16, s: s as u16, ms: (cs * 10 + (i % 10)) as u16, fat: [12u8, 16, 32][(i % 3) as usize], raw_check: i % 9973 == 0 };
                let out = rt_eval(&c);
                blk.record(&out, || serde_json::to_value(&c).unwrap());
                out.violation.map(|m| rt_fail(&c, m))
            });
            t.exhaustive = true;
            rep.add(t);
        } else {
            let secs = [0u64, 1, 2, 29, 30, 57, 58, 59];
            let css = [0u64, 1, 50, 99];
            let offs = [0u64, 5, 9];
            let n = 24 * 60 * 8 * 4 * 3;
            let mut t = run::run_indexed("roundtrip_times_boundary_grid", n, |i, blk| {
                let off = offs[(i % 3) as usize];
                let cs = css[((i / 3) % 4) as usize];
                let s = secs[((i / 12) % 8) as usize];
                let mi = (i / 96) % 60;
                let h = i / 5760;
                let c = RtCase { y: 1980 + (i % 128) as u16, mo: 1 + (i % 12) as u16, d: 1 + (i % 31) as u16, h: h as u16, mi: mi as u16, s: s as u16, ms: (cs * 10 + off) as u16, fat: [12u8, 16, 32][(i % 3) as usize], raw_check: i % 997 == 0 };
                let out = rt_eval(&c);
                blk.record(&out, || serde_json::to_value(&c).unwrap());
                out.violation.map(|m| rt_fail(&c, m))
            });
            t.exhaustive = false;
            rep.add(t);
            if !rep.failed() {
                let t2 = run::run_indexed("roundtrip_random_times", 200_000, |i, blk| {
                    let mut m = run::Mix::new(seed, i);
                    let c = RtCase { y: 1980 + m.below(128) as u16, mo: 1 + m.below(12) as u16, d: 1 + m.below(31) as u16, h: m.below(24) as u16, mi: m.below(60) as u16, s: m.below(60) as u16, ms: m.below(1000) as u16, fat: [12u8, 16, 32][m.below(3) as usize], raw_check: i % 997 == 0 };
                    let out = rt_eval(&c);
                    blk.record(&out, || serde_json::to_value(&c).unwrap());
                    out.violation.map(|m| rt_fail(&c, m))
                });
                rep.add(t2);
            }
        }
    }
    // stamping rules
    if !rep.failed() {
        rep.add(hist::random_block(&hp, "stamping_random_histories", seed, tier.pick(hp.quick_cases, hp.thorough_cases)));
    }
    // the same rules with the library's deferred write-back left alone (no flush after each call): several writes, clock
    // jumps and explicit set_* through ONE handle before its entry reaches the disk; judged once the handle is closed
    if !rep.failed() {
        let mut hp2 = prop();
        hp2.run_cfg.flush_each = false;
        hp2.gen_cfg.max_ops = 40;
        hp2.gen_cfg.weights = vec![(K::NewFileWritten, 10), (K::OpenFile, 8), (K::CreateFile, 6), (K::Write, 26), (K::Tick, 22), (K::SetTimes, 10), (K::CloseFile, 9), (K::Flush, 4), (K::FlushRetry, 6), (K::CloneSwap, 2), (K::Seek, 6), (K::Read, 5), (K::Truncate, 3), (K::Rename, 4), (K::Remount, 2), (K::List, 1)];
        rep.add(hist::random_block(&hp2, "stamping_deferred_writeback_histories", seed ^ 0x18, tier.pick(8000, 120000)));
    }
    rep.finish()
}
