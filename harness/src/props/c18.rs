//! C18 - timestamps round-trip at documented resolution and follow stamping rules (stamping part; the round-trip
//! sweep lives in c18rt.rs)
use super::hist::HistProp;
use crate::gen::{GenCfg, K};
use crate::ops::{Aspect, RunCfg, Trace};

fn nontrivial(t: &Trace) -> bool {
    t.has("write") && (t.has("rename") || t.has("set_times")) && t.has("mkfile")
}

pub fn prop() -> HistProp {
    let mut rc = RunCfg::new(&[Aspect::Times, Aspect::Panic, Aspect::Budget]);
    rc.times = true;
    rc.flush_each = true;
    rc.known.dst_inside_src = true;
    let mut gc = GenCfg::mixed();
    gc.weights.push((K::SetTimes, 8));
    gc.weights.push((K::Tick, 14));
    gc.weights.push((K::Read, 8));
    gc.access_date = vec![false, true];
    gc.tiny_free_pct = 10;
    HistProp {
        id: "C18",
        level: "exploration",
        rule: "stamping: random histories under a harness clock that jumps by generated amounts (0..55 h), access-date option on and off; model: creation stamps created/modified/accessed once from the clock, each successful write sets modified, reads set accessed only with the option on, explicit set_* stores the value floored to 10 ms / 2 s / 1 day, rename and operations on other entries change nothing (directories written into are exempt); raw date/time words decoded independently after every call; non-trivial = history with a file creation, a write and (a rename or an explicit set_*). Round trip: see the exhaustive blocks",
        run_cfg: rc,
        gen_cfg: gc,
        nontrivial,
        quick_cases: 8000,
        thorough_cases: 120000,
        assumptions: vec!["directories that had entries written into them are exempt from the timestamp comparison"],
    }
}
