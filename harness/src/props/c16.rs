//! C16 - generated 8.3 aliases are legal, unique and tied to their long name
use crate::dev::MemDev;
use crate::refdec::{self, Fk};
use crate::run::{self, Block, CaseOut, Failure, Report, Tier};
use crate::session::{ek, guard, Caught, Clock, MountOpts, Session};
use crate::vol::{self, VolCfg};
use proptest::prelude::*;
use serde::{Deserialize, Serialize};

#[derive(Clone, Debug, Serialize, Deserialize, PartialEq)]
pub enum NOp {
    Create { name: String, dir: bool },
    /// remove the k-th name created so far (if it still exists)
    Remove { k: u16 },
    /// create a file in the second directory (which has aliases of its own)
    CreateIn2 { name: String },
    /// move the k-th name created in the first directory into the second one, keeping its long name: the alias it
    /// arrives with must be unique THERE
    MoveTo2 { k: u16 },
    /// create a name built from the alias the library gave to the k-th name (read from the raw image at that moment):
    /// the alias with a trailing dot, with a space inside its base, in lower case with a trailing dot, with a space
    /// before the extension - long names whose own 8.3 form IS an alias that is already taken
    CreateEcho { k: u16, form: u8 },
}

#[derive(Clone, Debug, Serialize, Deserialize)]
pub struct Population {
    pub fat: u8,
    pub ops: Vec<NOp>,
}

/// the hash the alias generator's second stage uses (BSD checksum over the UTF-16 value of each char);
/// generator knowledge only -- used to build colliding populations, never as an oracle
fn name_hash(name: &str) -> u16 {
    let mut h: u16 = 0;
    for c in name.chars() {
        h = (h >> 1).wrapping_add(h << 15).wrapping_add(c as u32 as u16);
    }
    h
}

/// names with the same two leading characters, the same extension and the same 16-bit hash
pub fn same_hash_family(prefix: &str, ext: &str, want: usize, salt: u64) -> Vec<String> {
    same_hash_family_target(prefix, " long ", ext, want, salt, None)
}

/// ... with a chosen hash value (e.g. 0xFFFF: the retry path increments the hash, which must wrap at 16 bits) and a
/// chosen middle part (e.g. the hash's own hex digits: the 6-character prefix form and the hash form then coincide)
pub fn same_hash_family_target(prefix: &str, middle: &str, ext: &str, want: usize, salt: u64, target: Option<u16>) -> Vec<String> {
    let mut out: Vec<String> = Vec::new();
    let want_target = target.is_some();
    let mut target: Option<u16> = target;
    let mut m = run::Mix::new(salt, 16);
    let mut tries = 0u64;
    while out.len() < want && tries < 40_000_000 {
        tries += 1;
        let mut s = String::from(prefix);
        s.push_str(middle);
        // six letters reach only part of the 16-bit range; a chosen target needs a longer, wider tail
        if target.is_some() && middle != " long " || target.map_or(false, |_| want_target) {
            for _ in 0..11 {
                s.push(b"abcdefghijklmnopqrstuvwxyz0123456789_-"[m.below(38) as usize] as char);
            }
        } else {
            for _ in 0..6 {
                s.push((b'a' + m.below(26) as u8) as char);
            }
        }
        s.push_str(ext);
        let h = name_hash(&s);
        match target {
            None => {
                target = Some(h);
                out.push(s);
            }
            Some(t) if t == h && !out.contains(&s) => out.push(s),
            _ => {}
        }
    }
    out
}

pub fn eval(pop: &Population) -> CaseOut {
    let mut out = CaseOut::default();
    out.hash = run::hash_str(&serde_json::to_string(pop).unwrap_or_default());
    let cfg = match pop.fat {
        12 => VolCfg::from_preset(2),
        32 => VolCfg::from_preset(12),
        _ => VolCfg::from_preset(8),
    };
    let dev = match vol::make_device(&cfg) {
        Ok(d) => d,
        Err(e) => {
            out.violation = Some(format!("harness: {}", e));
            return out;
        }
    };
    let clock = Clock::new(400_000_000_000);
    let sess = match Session::mount(&dev, &clock, &MountOpts::default()) {
        Ok(s) => s,
        Err(e) => {
            out.violation = Some(format!("harness: mount {:?}", e));
            return out;
        }
    };
    let mut sess = Some(sess);
    if let Err(e) = sess.as_ref().unwrap().root().create_dir("pop2") {
        out.violation = Some(format!("harness: {:?}", e));
        return out;
    }
    if let Err(e) = sess.as_ref().unwrap().root().create_dir("pop") {
        out.violation = Some(format!("harness: {:?}", e));
        return out;
    }
    let mut created: Vec<(String, bool)> = Vec::new();
    let mut live: Vec<bool> = Vec::new();
    let mut max_same_prefix = 0usize;
    let mut max_same_hash = 0usize;
    for (i, op) in pop.ops.iter().enumerate() {
        // an echo is resolved into an ordinary creation first (the alias comes from the independent decode)
        let resolved: NOp;
        let op = if let NOp::CreateEcho { k, form } = op {
            let mut name: Option<String> = None;
            if !created.is_empty() {
                let idx = (*k as usize * created.len()) >> 16;
                if live[idx] {
                    let units: Vec<u16> = created[idx].0.encode_utf16().collect();
                    if let Ok(dec) = dev.with_store(|st| refdec::decode(st, refdec::DecodeOpts::default())) {
                        let popd = dec.root.entries.iter().find(|e| e.visible_units() == "pop".encode_utf16().collect::<Vec<u16>>()).and_then(|e| e.child.as_ref());
                        if let Some(e) = popd.and_then(|d| d.entries.iter().find(|e| e.visible_units() == units)) {
                            let disp: String = refdec::short_display(&e.short, 0).iter().map(|b| *b as char).collect();
                            if disp.is_ascii() && !disp.is_empty() {
                                let (base, ext) = match disp.rfind('.') {
                                    Some(p) => (disp[..p].to_string(), disp[p..].to_string()),
                                    None => (disp.clone(), String::new()),
                                };
                                let cut = 1 + (*k as usize % base.len().max(1)).min(base.len().saturating_sub(1));
                                name = Some(match form % 6 {
                                    0 => format!("{}.", disp),
                                    1 => format!("{} {}{}", &base[..cut.min(base.len())], &base[cut.min(base.len())..], ext),
                                    2 => format!("{}.", disp.to_lowercase()),
                                    3 => format!("{} {}", base, ext),
                                    4 => format!("{}{}.", base.to_lowercase(), ext),
                                    _ => format!(".{}", disp),
                                });
                            }
                        }
                    }
                }
            }
            match name {
                Some(n) => {
                    *out.classes.entry("echo_names_created".into()).or_insert(0) += 1;
                    resolved = NOp::Create { name: n, dir: false };
                    &resolved
                }
                None => continue,
            }
        } else {
            op
        };
        let s = sess.take().unwrap();
        let before = dev.calls();
        dev.with(|d| d.budget = before + 6_000_000);
        let opc = op.clone();
        let created_c = created.clone();
        let live_c = live.clone();
        let r = guard(move || {
            let d = s.root().open_dir("pop").map_err(|e| format!("{:?}", e));
            let res = match d {
                Err(e) => Err(e),
                Ok(d) => match &opc {
                    NOp::Create { name, dir } => {
                        if *dir {
                            d.create_dir(name).map(|_| ()).map_err(|e| format!("{:?}", ek(&e)))
                        } else {
                            d.create_file(name).map(|_| ()).map_err(|e| format!("{:?}", ek(&e)))
                        }
                    }
                    NOp::CreateIn2 { name } => match s.root().open_dir("pop2") {
                        Ok(d2) => d2.create_file(name).map(|_| ()).map_err(|e| format!("{:?}", ek(&e))),
                        Err(e) => Err(format!("{:?}", ek(&e))),
                    },
                    NOp::CreateEcho { .. } => Ok(()),
                    NOp::MoveTo2 { k } => {
                        if created_c.is_empty() {
                            Ok(())
                        } else {
                            let idx = (*k as usize * created_c.len()) >> 16;
                            if live_c[idx] {
                                match s.root().open_dir("pop2") {
                                    Ok(d2) => d.rename(&created_c[idx].0, &d2, &created_c[idx].0).map_err(|e| format!("{:?}", ek(&e))),
                                    Err(e) => Err(format!("{:?}", ek(&e))),
                                }
                            } else {
                                Err("not live".into())
                            }
                        }
                    }
                    NOp::Remove { k } => {
                        if created_c.is_empty() {
                            Ok(())
                        } else {
                            let idx = (*k as usize * created_c.len()) >> 16;
                            if live_c[idx] {
                                d.remove(&created_c[idx].0).map_err(|e| format!("{:?}", ek(&e)))
                            } else {
                                Ok(())
                            }
                        }
                    }
                },
            };
            (s, res)
        });
        let (s, res) = match r {
            Caught::Panic(p) => {
                out.violation = Some(format!("step {} {:?} panicked: {}", i, op, p));
                let _ = dev.take_store();
                return out;
            }
            Caught::Ok(x) => x,
        };
        if dev.with(|d| d.budget_hit) {
            out.violation = Some(format!("step {} {:?}: alias generation did not terminate within 6,000,000 device calls", i, op));
            let mut s = s;
            s.poisoned = true;
            return out;
        }
        sess = Some(s);
        if std::env::var("VERIF_DEBUG").is_ok() {
            eprintln!("step {} {:?} -> {:?}", i, op, res);
        }
        match (op, res) {
            (NOp::Create { name, dir }, Ok(())) => {
                // a name that folds onto an existing one just opens it
                let f = refdec::fold(name);
                if !created.iter().zip(live.iter()).any(|(c, l)| *l && refdec::fold(&c.0) == f) {
                    created.push((name.clone(), *dir));
                    live.push(true);
                }
            }
            (NOp::Create { name, .. }, Err(e)) => {
                // user errors (kind mismatch with an existing entry / alias match) are fine; out of space ends the case
                if e.contains("NotEnoughSpace") {
                    out.classes.insert("volume_full".into(), 1);
                    break;
                }
                let _ = name;
            }
            (NOp::Remove { k }, Ok(())) => {
                if !created.is_empty() {
                    let idx = (*k as usize * created.len()) >> 16;
                    live[idx] = false;
                }
            }
            (NOp::Remove { .. }, Err(_)) => {}
            (NOp::CreateIn2 { .. }, _) => {}
            (NOp::MoveTo2 { k }, Ok(())) => {
                if !created.is_empty() {
                    let idx = (*k as usize * created.len()) >> 16;
                    live[idx] = false;
                    out.classes.insert("moves_between_directories".into(), out.classes.get("moves_between_directories").copied().unwrap_or(0) + 1);
                }
            }
            (NOp::MoveTo2 { .. }, Err(_)) => {}
            (NOp::CreateEcho { .. }, _) => {}
        }
        // oracle on the raw image
        let dec = dev.with_store(|st| refdec::decode(st, refdec::DecodeOpts { read_data: false, ..Default::default() }));
        match dec {
            Err(e) => {
                out.violation = Some(format!("after step {} {:?} the image does not decode: {}", i, op, e));
                break;
            }
            Ok(d) => {
                if let Some(f) = d.findings.iter().find(|f| matches!(f.kind, Fk::DupShort | Fk::BadShortName | Fk::LfnRun | Fk::Orphan | Fk::DupLong)) {
                    out.violation = Some(format!("after step {} {:?}: {:?}: {}", i, op, f.kind, f.what));
                    break;
                }
                // statistics for the non-trivial rule: how many live aliases share a ~N form
                if let Some(p) = d.root.entries.iter().find(|e| e.visible_string() == "pop").and_then(|e| e.child.as_ref()) {
                    let mut by_prefix: std::collections::HashMap<Vec<u8>, usize> = std::collections::HashMap::new();
                    let mut hash_form = 0usize;
                    for e in &p.entries {
                        if e.is_dot() {
                            continue;
                        }
                        if let Some(t) = e.short[..8].iter().position(|b| *b == b'~') {
                            let mut key = e.short[..t].to_vec();
                            key.extend_from_slice(&e.short[8..]);
                            *by_prefix.entry(key).or_insert(0) += 1;
                            if t >= 4 && e.short[t - 4..t].iter().all(|b| b.is_ascii_hexdigit()) && t <= 6 {
                                hash_form += 1;
                            }
                        }
                    }
                    max_same_prefix = max_same_prefix.max(by_prefix.values().copied().max().unwrap_or(0));
                    max_same_hash = max_same_hash.max(hash_form);
                }
            }
        }
    }
    if let Some(s) = sess.take() {
        let _ = guard(move || drop(s));
    }
    out.nontrivial = max_same_prefix >= 4;
    out.classes.insert("names_created".into(), created.len() as u64);
    if max_same_prefix >= 4 {
        out.classes.insert("populations_reaching_stage2".into(), 1);
    }
    if max_same_hash >= 9 {
        out.classes.insert("populations_with_9_hash_form_aliases".into(), 1);
    }
    out
}

pub fn replay(v: &serde_json::Value) -> Result<Option<String>, String> {
    let c: Population = serde_json::from_value(v["case"].clone()).map_err(|e| format!("bad case: {}", e))?;
    Ok(eval(&c).violation)
}

fn name_strategy(hash_family: Vec<String>) -> impl Strategy<Value = String> {
    prop_oneof![
        6 => ("[a-z]{0,6}", prop::sample::select(vec![".txt", ".TXT", "", ".t", ".text"])).prop_map(|(t, e)| format!("prefix{}{}", t, e)),
        5 => prop::sample::select(hash_family),
        3 => "(PREFIX|PR[0-9A-F]{4}|AB[0-9A-F]{4}|AB)~[1-9](\\.TXT)?",
        2 => "[ .]{0,3}[a-c]{0,3}[ .]{0,3}[a-c]{0,2}",
        2 => "[éüß日本語αβ]{1,10}(\\.[éa-z]{1,4})?",
        2 => "[a-zA-Z]{1,8}(\\.[a-zA-Z]{1,3})?",
        2 => "[a-z+,;=\\[\\]]{1,12}\\.[a-z+]{1,5}",
        1 => "a{1,40}",
        1 => "[a-b]{1,3}\\.[a-b]{1,3}\\.[a-b]{1,3}",
        1 => "~[1-9]?[a-z]{0,3}",
        // one base name with and without leading / trailing dots and spaces: all map to the same 8.3 base
        3 => (prop::sample::select(vec!["foo", "ab", "x", "longername", "a b"]), 0u8..8).prop_map(|(b, form)| match form {
            0 => b.to_string(),
            1 => format!("{}.", b),
            2 => format!(".{}", b),
            3 => format!("{}..", b),
            4 => format!("..{}", b),
            5 => format!("{} .", b),
            6 => format!(".{}.", b),
            _ => format!("{}.{}", b, b),
        }),
    ]
}

fn scripted(n: usize, fat: u8, salt: u64) -> Population {
    // n names sharing the 6-character prefix, then a same-hash family, with deletions in between
    let mut ops = Vec::new();
    for i in 0..n {
        ops.push(NOp::Create { name: format!("longprefix file number {}.dat", i), dir: false });
        if i % 7 == 6 {
            ops.push(NOp::Remove { k: (i * 9173) as u16 });
        }
    }
    for nme in same_hash_family("ab", ".txt", 40, salt) {
        ops.push(NOp::Create { name: nme, dir: false });
    }
    for i in 0..n / 4 {
        ops.push(NOp::Create { name: format!("longprefix file number {}.dat", i * 3), dir: false });
    }
    Population { fat, ops }
}

/// families aimed at the corners of the two alias forms
fn scripted_corner(which: usize, fat: u8, salt: u64) -> Population {
    let mut ops = Vec::new();
    match which % 4 {
        0 => {
            // hash 0xFFFF .. 0xFFFD: 16 names each, so that the retry path has to step the hash past 0xFFFF
            for (t, p) in [(0xFFFFu16, "zz"), (0xFFFE, "zy"), (0x0000, "zx")] {
                for n in same_hash_family_target(p, " long ", ".log", 16, salt ^ t as u64, Some(t)) {
                    ops.push(NOp::Create { name: n, dir: false });
                }
            }
        }
        1 => {
            // the name's characters 3..6 spell its own hash: "abHHHH ..." arrives after four other members of the
            // 6-character family "abHHHH", so its hash form "ABHHHH~1" is the long-prefix form of the first member
            for k in 0..3u64 {
                let h = (run::Mix::new(salt, 160 + k).next() & 0xFFFF) as u16;
                let pre = format!("ab{:04x}", h);
                for i in 0..4 {
                    ops.push(NOp::Create { name: format!("{} plain member {}.txt", pre, i), dir: false });
                }
                for n in same_hash_family_target(&pre, " report ", ".txt", 3, salt ^ h as u64, Some(h)) {
                    ops.push(NOp::Create { name: n, dir: false });
                }
            }
        }
        3 => {
            // both directories hold PREFIX~1.. for different long names; then same-name moves from one into the other
            for i in 0..5 {
                ops.push(NOp::Create { name: format!("quarterly report number {}.txt", i), dir: false });
                ops.push(NOp::CreateIn2 { name: format!("quarterly figures {}.txt", i) });
            }
            for i in 0..5u32 {
                ops.push(NOp::MoveTo2 { k: (i * 13_107 + 100) as u16 });
            }
            // names that are the aliases just handed out, with a dot or a space added
            for i in 0..12u32 {
                ops.push(NOp::CreateEcho { k: (i * 5_461 + salt as u32 * 97) as u16, form: (i % 6) as u8 });
            }
            // and the dotted twins of one base, in every order of arrival
            for n in [".foo", "foo", "foo.", "foo..", "..foo", ".foo."] {
                ops.push(NOp::Create { name: n.to_string(), dir: false });
            }
            let order = [[2usize, 0, 1], [1, 2, 0], [0, 2, 1]][(salt % 3) as usize];
            for o in order {
                ops.push(NOp::Create { name: ["ab.", ".ab", "ab"][o].to_string(), dir: false });
            }
        }
        _ => {
            // both at once with removals of low tails in between
            for n in same_hash_family_target("qq", " long ", ".dat", 14, salt, Some(0xFFFF)) {
                ops.push(NOp::Create { name: n, dir: false });
                if ops.len() % 5 == 4 {
                    ops.push(NOp::Remove { k: (ops.len() * 7919) as u16 });
                }
            }
            for n in same_hash_family_target("qq", " long ", ".dat", 6, salt ^ 1, Some(0x0000)) {
                ops.push(NOp::Create { name: n, dir: false });
            }
        }
    }
    Population { fat, ops }
}

pub fn run(tier: Tier, seed: u64) -> i32 {
    let rule = "directory populations built through the public API to collide: names sharing the 6-character prefix and extension; families with the same 2-character prefix, extension and 16-bit name hash (found by search) so the hash form overflows and the retry path runs; names that look like generated aliases (PREFIX~1.TXT, AB1F2E~3.TXT); corner families (16 names each with hash 0xFFFF / 0xFFFE / 0x0000 so that the retry path steps the hash across the 16-bit wrap; names whose characters 3..6 spell their own hash arriving as fifth member of their 6-character family); dots, spaces, non-ASCII, characters illegal in 8.3; deletions and re-creations in between; a second directory with aliases of its own and same-name moves into it; one base name with leading / trailing dots and spaces in every order of arrival; names built from the aliases the library has just handed out (the alias plus a trailing dot, with a space inside, in lower case plus a dot: long names whose own 8.3 form is an alias already taken); after EVERY step refdec checks on the raw image: short names byte-unique per directory, legal 8.3 bytes (upper case, no leading/embedded space), every long-name slot's checksum = checksum of its short entry, no orphan slots; every creation within a 6,000,000 device-call budget; non-trivial = population in which >= 4 live aliases share one ~N prefix form (second stage reached); distinct by hash of the population";
    let mut rep = Report::new("C16", tier, seed, "exploration", rule);
    let mut reg = Block::new("regress");
    for f in run::regress_files("C16") {
        if let Ok(v) = run::load_replay(&f) {
            if let Ok(c) = serde_json::from_value::<Population>(v["case"].clone()) {
                let out = eval(&c);
                reg.record(&out, || v["case"].clone());
                if let Some(m) = out.violation {
                    if reg.failure.is_none() {
                        reg.failure = Some(Failure { message: format!("regression case {}: {}", f, m), case: v["case"].clone(), kind: "population".into() });
                    }
                }
            }
        }
    }
    rep.add(reg);
    // scripted big populations
    let sizes: Vec<(usize, u8)> = tier.pick(vec![(60, 16), (150, 12), (300, 16)], vec![(60, 16), (150, 12), (400, 16), (600, 16), (600, 32), (250, 12)]);
    let mut sb = run::run_indexed("scripted_colliding_populations", sizes.len() as u64, |i, blk| {
        let (n, fat) = sizes[i as usize];
        let pop = scripted(n, fat, seed + i);
        let out = eval(&pop);
        blk.record(&out, || serde_json::json!({"fat": fat, "names": n, "first_ops": &pop.ops[..8]}));
        out.violation.map(|m| {
            // minimise
            let fails = |ops: &[NOp]| eval(&Population { fat, ops: ops.to_vec() }).violation.is_some();
            let min = run::ddmin(&pop.ops, &fails);
            let mp = Population { fat, ops: min };
            let msg = eval(&mp).violation.unwrap_or(m);
            Failure { message: msg, case: serde_json::to_value(&mp).unwrap(), kind: "population".into() }
        })
    });
    sb.exhaustive = false;
    rep.add(sb);
    if !rep.failed() {
        let n_corner: u64 = tier.pick(12, 80);
        let cb = run::run_indexed("scripted_corner_families", n_corner, |i, blk| {
            let fat = [12u8, 16, 32][(i / 4) as usize % 3];
            let pop = scripted_corner(i as usize, fat, seed.wrapping_mul(31).wrapping_add(i / 4));
            let out = eval(&pop);
            blk.record(&out, || serde_json::json!({"fat": fat, "family": i % 4, "first_ops": &pop.ops[..8.min(pop.ops.len())]}));
            out.violation.map(|m| {
                let fails = |ops: &[NOp]| eval(&Population { fat, ops: ops.to_vec() }).violation.is_some();
                let min = run::ddmin(&pop.ops, &fails);
                let mp = Population { fat, ops: min };
                let msg = eval(&mp).violation.unwrap_or(m);
                Failure { message: msg, case: serde_json::to_value(&mp).unwrap(), kind: "population".into() }
            })
        });
        rep.add(cb);
    }
    if !rep.failed() {
        let fam1 = same_hash_family("ab", ".txt", 30, seed);
        let mut fam = fam1.clone();
        fam.extend(same_hash_family("x", "", 20, seed ^ 99));
        let n = tier.pick(8000u32, 80000u32);
        let b = run::run_random(
            "random_colliding_populations",
            seed,
            n,
            "population",
            move || {
                let fam = fam.clone();
                run::boxed(
                    (prop::sample::select(vec![12u8, 16, 16, 32]), prop::collection::vec(prop_oneof![9 => (name_strategy(fam.clone()), prop::bool::weighted(0.15)).prop_map(|(name, dir)| NOp::Create { name, dir }), 2 => any::<u16>().prop_map(|k| NOp::Remove { k }), 2 => name_strategy(fam.clone()).prop_map(|name| NOp::CreateIn2 { name }), 1 => any::<u16>().prop_map(|k| NOp::MoveTo2 { k }), 2 => (any::<u16>(), any::<u8>()).prop_map(|(k, form)| NOp::CreateEcho { k, form })], 5..120))
                        .prop_map(|(fat, ops)| Population { fat, ops }),
                )
            },
            |p: &Population| eval(p),
        );
        rep.add(b);
    }
    rep.finish()
}
