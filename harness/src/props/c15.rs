//! C15 - names: total validation, lossless long names, case-insensitive lookup
use crate::dev::{MemDev, Store};
use crate::model::name_errors;
use crate::refdec::{self, fold};
use crate::run::{self, Block, CaseOut, Failure, Report, Tier};
use crate::session::{ek, guard, Caught, Clock, MountOpts, Session, EK};
use crate::vol::{self, VolCfg};
use proptest::prelude::*;
use serde::{Deserialize, Serialize};

#[derive(Clone, Debug, Serialize, Deserialize)]
pub struct NameCase {
    pub name: String,
    /// 0 = create_file, 1 = create_dir, 2 = rename of an existing file to the name
    pub mode: u8,
}

pub fn base_image() -> Result<Store, String> {
    let dev = vol::make_device(&VolCfg::from_preset(1))?;
    let clock = Clock::new(0);
    let s = Session::mount(&dev, &clock, &MountOpts::default()).map_err(|e| format!("{:?}", e))?;
    s.root().create_file("src").map_err(|e| format!("{:?}", e))?;
    s.unmount().map_err(|e| format!("{:?}", e))?;
    Ok(dev.take_store())
}

// ---------------------------------------------------------------------------------------------------------
// rejected names through every call shape that creates an entry: no side effects whatsoever

/// populated volume for the rejection block: /src (file), /srcdir/child, /into/inner/deep (directories)
pub fn base_image2() -> Result<Store, String> {
    let dev = vol::make_device(&VolCfg::from_preset(1))?;
    let clock = Clock::new(0);
    let s = Session::mount(&dev, &clock, &MountOpts::default()).map_err(|e| format!("{:?}", e))?;
    let r = s.root();
    r.create_file("src").map_err(|e| format!("{:?}", e))?;
    r.create_dir("srcdir").map_err(|e| format!("{:?}", e))?;
    r.create_file("srcdir/child").map_err(|e| format!("{:?}", e))?;
    r.create_dir("into").map_err(|e| format!("{:?}", e))?;
    r.create_dir("into/inner").map_err(|e| format!("{:?}", e))?;
    r.create_dir("into/inner/deep").map_err(|e| format!("{:?}", e))?;
    r.create_file("into/file in into").map_err(|e| format!("{:?}", e))?;
    drop(r);
    s.unmount().map_err(|e| format!("{:?}", e))?;
    Ok(dev.take_store())
}

pub const REJECT_SHAPES: &[&str] = &[
    "create_file in a subdirectory",
    "create_dir in a subdirectory",
    "rename a file inside the root",
    "move a file from the root into a subdirectory",
    "move a file from a subdirectory into the root",
    "rename a directory inside the root",
    "move a directory from the root into a subdirectory",
    "move a directory from a subdirectory into the root",
    "move a directory from a subdirectory into another subdirectory",
];

#[derive(Clone, Debug, Serialize, Deserialize)]
pub struct RejectCase {
    pub name: String,
    pub shape: u8,
}

pub fn eval_reject(base: &Store, c: &RejectCase) -> CaseOut {
    let mut out = CaseOut::default();
    out.hash = run::hash_str(&format!("reject|{}|{}", c.shape, c.name));
    let errs = name_errors(&c.name);
    if errs.is_empty() || c.name.contains('/') || c.name == "." || c.name == ".." {
        out.classes.insert("outside_domain".into(), 1);
        return out;
    }
    out.nontrivial = true;
    let shape = c.shape as usize % REJECT_SHAPES.len();
    let what = REJECT_SHAPES[shape];
    let dev = MemDev::new(base.clone());
    dev.with(|d| d.budget = 5_000_000);
    let before = dev.bytes();
    let devh = dev.handle();
    let nm = c.name.clone();
    let r = guard(move || {
        let clock = Clock::new(500_000_000_000);
        let s = Session::mount(&devh, &clock, &MountOpts::default()).map_err(|e| format!("mount: {:?}", e))?;
        let root = s.root();
        let into = root.open_dir("into").map_err(|e| format!("{:?}", e))?;
        let inner = root.open_dir("into/inner").map_err(|e| format!("{:?}", e))?;
        let res = match shape {
            0 => into.create_file(&nm).map(|_| ()),
            1 => into.create_dir(&nm).map(|_| ()),
            2 => root.rename("src", &root, &nm),
            3 => root.rename("src", &into, &nm),
            4 => into.rename("file in into", &root, &nm),
            5 => root.rename("srcdir", &root, &nm),
            6 => root.rename("srcdir", &into, &nm),
            7 => into.rename("inner", &root, &nm),
            _ => inner.rename("deep", &into, &nm),
        };
        let res = res.map_err(|e| ek(&e));
        drop(inner);
        drop(into);
        drop(root);
        s.unmount().map_err(|e| format!("unmount: {:?}", e))?;
        Ok::<_, String>(res)
    });
    match r {
        Caught::Panic(p) => out.violation = Some(format!("{} with the name {:?} panicked: {}", what, c.name, p)),
        Caught::Ok(Err(e)) => out.violation = Some(format!("{} with the name {:?}: {}", what, c.name, e)),
        Caught::Ok(Ok(Ok(()))) => out.violation = Some(format!("{} with the name {:?} succeeded although the name is not acceptable ({:?} applies)", what, c.name, errs)),
        Caught::Ok(Ok(Err(k))) => {
            if !errs.contains(&k) {
                out.violation = Some(format!("{} with the name {:?} failed with {:?}, expected one of {:?}", what, c.name, k, errs));
            } else {
                let after = dev.bytes();
                if let Some(p) = before.iter().zip(after.iter()).position(|(a, b)| a != b) {
                    out.violation = Some(format!("{} with the name {:?} was rejected with {:?} but changed the image (first difference at byte {})", what, c.name, k, p));
                }
            }
        }
    }
    if dev.with(|d| d.budget_hit) && out.violation.is_none() {
        out.violation = Some(format!("{} with the name {:?} exceeded the device-call budget", what, c.name));
    }
    out
}

pub fn rejected_names() -> Vec<String> {
    let mut v: Vec<String> = vec![String::new(), "a".repeat(256), "a".repeat(300), "é".repeat(128), "語".repeat(86), " ".repeat(0)];
    for ch in 0u8..128 {
        let c = ch as char;
        if c == '/' {
            continue;
        }
        v.push(c.to_string());
        v.push(format!("a{}b", c));
        v.push(format!("long name with {} in it.txt", c));
    }
    v.push("tail\u{FFFF}".to_string());
    v.push("\u{FFFF}".to_string());
    v.retain(|n| !name_errors(n).is_empty());
    v.sort();
    v.dedup();
    v
}

fn in_domain(name: &str) -> bool {
    !name.contains('/') && name != "." && name != ".." && fold(name) != "SRC"
}

fn queries(name: &str, alias: &str) -> Vec<String> {
    let mut q: Vec<String> = vec![name.to_string(), name.to_uppercase(), name.to_lowercase()];
    let swapped: String = name
        .chars()
        .map(|c| {
            if c.is_uppercase() {
                c.to_lowercase().next().unwrap_or(c)
            } else {
                c.to_uppercase().next().unwrap_or(c)
            }
        })
        .collect();
    q.push(swapped);
    if !alias.is_empty() {
        q.push(alias.to_string());
        q.push(alias.to_lowercase());
    }
    // spellings with the two non-ASCII letters whose upper-case form is an ASCII letter (dotless i, long s): case
    // variants under Unicode folding, of the name and of the alias, longer in bytes than in characters
    for base in [name.to_lowercase(), alias.to_lowercase()] {
        if base.contains('i') {
            q.push(base.replace('i', "\u{131}"));
        }
        if base.contains('s') {
            q.push(base.replace('s', "\u{17f}"));
        }
    }
    // near misses
    // the ASCII string the low bytes of the name's characters spell (a lookup that truncates code units finds it)
    if !name.is_ascii() {
        q.push(name.chars().map(|c| if (c as u32) > 0x7F && ((c as u32 & 0xFF) as u8).is_ascii_graphic() && (c as u32 & 0xFF) as u8 != b'/' { (c as u32 & 0xFF) as u8 as char } else { c }).collect());
    }
    // what a careless 8.3 conversion makes of the name: the characters an alias cannot hold dropped (spaces, extra dots)
    // or replaced by '_' - a different name unless it happens to be the alias itself
    {
        let dropped: String = name.chars().filter(|c| *c != ' ').collect();
        q.push(dropped);
        let replaced: String = name.chars().filter(|c| *c != ' ').map(|c| if c.is_ascii_alphanumeric() || "$%'-_@~`!(){}^#&.".contains(c) { c } else { '_' }).collect();
        q.push(replaced);
    }
    q.push(format!("{}x", name));
    q.push(format!("x{}", name));
    q.push(format!("{}.", name));
    q.push(format!("{} ", name));
    let chars: Vec<char> = name.chars().collect();
    if chars.len() > 1 {
        q.push(chars[..chars.len() - 1].iter().collect());
        q.push(chars[1..].iter().collect());
        let mut c2 = chars.clone();
        c2[0] = if c2[0] == 'q' { 'z' } else { 'q' };
        q.push(c2.iter().collect());
        let mut c3 = chars.clone();
        let l = c3.len() - 1;
        c3[l] = if c3[l] == 'q' { 'z' } else { 'q' };
        q.push(c3.iter().collect());
    }
    // (a near miss that happens to name the other entry of the volume, "src", would find THAT entry)
    q.retain(|s| !s.is_empty() && !s.contains('/') && s != "." && s != ".." && s.len() < 600 && fold(s) != "SRC");
    q.sort();
    q.dedup();
    q
}

pub fn eval(base: &Store, c: &NameCase) -> CaseOut {
    let mut out = CaseOut::default();
    out.hash = run::hash_str(&format!("{}|{}", c.mode, c.name));
    if !in_domain(&c.name) {
        out.classes.insert("outside_domain".into(), 1);
        return out;
    }
    let name = c.name.clone();
    let mode = c.mode % 3;
    let errs = name_errors(&name);
    let accepted = errs.is_empty();
    out.nontrivial = !accepted || !name.is_ascii() || name.encode_utf16().count() >= 14;
    let dev = MemDev::new(base.clone());
    dev.with(|d| d.budget = 5_000_000);
    let before = dev.bytes();
    let devh = dev.handle();
    let what = match mode {
        0 => "create_file",
        1 => "create_dir",
        _ => "rename(\"src\", root, ..)",
    };
    let nm = name.clone();
    let r = guard(move || {
        let clock = Clock::new(500_000_000_000);
        let s = Session::mount(&devh, &clock, &MountOpts::default()).map_err(|e| format!("mount: {:?}", e))?;
        let root = s.root();
        let res = match mode {
            0 => root.create_file(&nm).map(|_| ()),
            1 => root.create_dir(&nm).map(|_| ()),
            _ => root.rename("src", &root, &nm),
        };
        let res = res.map_err(|e| ek(&e));
        // observations on the live session
        let mut listing: Vec<(String, Option<Vec<u16>>, bool)> = Vec::new();
        for e in root.iter() {
            let e = e.map_err(|e| format!("listing: {:?}", e))?;
            listing.push((e.file_name(), e.long_file_name_as_ucs2_units().map(|u| u.to_vec()), e.is_dir()));
        }
        drop(root);
        Ok::<_, String>((s, res, listing))
    });
    let (sess, res, listing) = match r {
        Caught::Panic(p) => {
            out.violation = Some(format!("{}({:?}) panicked: {}", what, name, p));
            let _ = dev.take_store();
            return out;
        }
        Caught::Ok(Err(e)) => {
            out.violation = Some(format!("{}({:?}): {}", what, name, e));
            return out;
        }
        Caught::Ok(Ok(x)) => x,
    };
    if dev.with(|d| d.budget_hit) {
        out.violation = Some(format!("{}({:?}) exceeded the device-call budget", what, name));
        let mut s = sess;
        s.poisoned = true;
        return out;
    }
    match (&res, accepted) {
        (Ok(()), false) => {
            out.violation = Some(format!("{}({:?}) succeeded although the name is not acceptable ({:?} applies)", what, name, errs));
        }
        (Err(k), false) => {
            out.classes.insert("rejected".into(), 1);
            if !errs.contains(k) {
                out.violation = Some(format!("{}({:?}) failed with {:?}, expected one of {:?}", what, name, k, errs));
            } else {
                // no side effects: dropping the session must leave the raw image byte-identical
                drop(sess);
                let after = dev.bytes();
                if after != before {
                    let p = after.iter().zip(before.iter()).position(|(a, b)| a != b).unwrap_or(0);
                    out.violation = Some(format!("{}({:?}) was rejected with {:?} but changed the image (first difference at byte {})", what, name, k, p));
                }
                return out;
            }
        }
        (Err(k), true) => {
            out.violation = Some(format!("{}({:?}) failed with {:?} although the name is acceptable (1..=255 bytes, all characters in the documented set)", what, name, k));
        }
        (Ok(()), true) => {
            out.classes.insert("accepted".into(), 1);
            let units: Vec<u16> = name.encode_utf16().collect();
            let mine: Vec<&(String, Option<Vec<u16>>, bool)> = listing.iter().filter(|l| l.0 != "src").collect();
            if mine.len() != 1 {
                out.violation = Some(format!("after {}({:?}) the directory lists {:?}", what, name, listing.iter().map(|l| l.0.clone()).collect::<Vec<_>>()));
            } else if mine[0].1.as_deref() != Some(&units[..]) || mine[0].0 != name {
                out.violation = Some(format!("after {}({:?}) the listing returns {:?} (units {:?}), not the name character for character", what, name, mine[0].0, mine[0].1));
            } else if mine[0].2 != (mode == 1) {
                out.violation = Some(format!("after {}({:?}) the entry has the wrong kind", what, name));
            }
        }
    }
    if out.violation.is_some() {
        let mut s = sess;
        s.poisoned = true;
        return out;
    }
    // lookups (accepted names only reach this point)
    let snap = dev.snapshot();
    let alias = match refdec::decode(&snap, refdec::DecodeOpts::default()) {
        Ok(d) => {
            let units: Vec<u16> = name.encode_utf16().collect();
            match d.root.entries.iter().find(|e| e.long.as_deref() == Some(&units[..])) {
                Some(e) => e.short_string(),
                None => {
                    out.violation = Some(format!("after {}({:?}) the independent decode does not find the long name on disk", what, name));
                    String::new()
                }
            }
        }
        Err(e) => {
            out.violation = Some(format!("image does not decode: {}", e));
            String::new()
        }
    };
    if out.violation.is_none() {
        let qs = queries(&name, &alias);
        let is_dir = mode == 1;
        let fname = fold(&name);
        let falias = fold(&alias);
        let r = guard(move || {
            let root = sess.root();
            let mut bad = None;
            for q in &qs {
                let found = if is_dir { root.open_dir(q).map(|_| ()) } else { root.open_file(q).map(|_| ()) };
                let expect = fold(q) == fname || fold(q) == falias;
                match (found, expect) {
                    (Ok(()), true) => {}
                    (Err(e), false) if ek(&e) == EK::NotFound => {}
                    (Ok(()), false) => {
                        bad = Some(format!("lookup of {:?} found the entry although it matches neither the name nor the alias", q));
                        break;
                    }
                    (Err(e), _) => {
                        bad = Some(format!("lookup of {:?} failed with {:?}, expected {}", q, ek(&e), if expect { "success" } else { "NotFound" }));
                        break;
                    }
                }
            }
            drop(root);
            drop(sess);
            (bad, qs.len())
        });
        match r {
            Caught::Panic(p) => out.violation = Some(format!("lookup after {}({:?}) panicked: {}", what, name, p)),
            Caught::Ok((Some(b), _)) => out.violation = Some(format!("after {}({:?}) with alias {:?}: {}", what, name, alias, b)),
            Caught::Ok((None, n)) => {
                out.classes.insert("lookups".into(), n as u64);
            }
        }
    }
    out
}

// ---------------------------------------------------------------------------------------------------------
// names stored next to other entries: a hole of deleted slots between two long-named neighbours

#[derive(Clone, Debug, Serialize, Deserialize)]
pub struct HoleCase {
    /// units of the name that is created and removed again to leave the hole (its slots: ceil(n / 13) + 1)
    pub hole_units: u16,
    /// units of the name then created
    pub new_units: u16,
    /// 0 = create_file, 1 = create_dir, 2 = rename of the first neighbour to the name
    pub mode: u8,
    pub fat32: bool,
}

fn unit_name(prefix: &str, n: usize) -> String {
    let mut s = String::from(prefix);
    let mut i = 0;
    while s.chars().count() < n {
        s.push((b'a' + (i % 26) as u8) as char);
        i += 1;
    }
    s.chars().take(n.max(1)).collect()
}

/// Every name of the directory - the new one and its neighbours - must be listed character for character afterwards,
/// in the live session and after a remount.
pub fn eval_hole(c: &HoleCase) -> CaseOut {
    let mut out = CaseOut::default();
    out.hash = run::hash_str(&format!("hole|{}|{}|{}|{}", c.hole_units, c.new_units, c.mode, c.fat32));
    out.nontrivial = true;
    let dev = match vol::make_device(&VolCfg::from_preset(if c.fat32 { 12 } else { 1 })) {
        Ok(d) => d,
        Err(e) => {
            out.violation = Some(format!("HARNESS: {}", e));
            return out;
        }
    };
    let before = "Neighbour in front of the hole.txt".to_string();
    let behind = "neighbour behind the hole (long name).txt".to_string();
    let hole = unit_name("h", c.hole_units as usize);
    let new = unit_name("N", c.new_units as usize);
    let mode = c.mode % 3;
    let devh = dev.handle();
    let (b2, h2, n2, be2) = (before.clone(), hole.clone(), new.clone(), behind.clone());
    let r = guard(move || -> Result<(Vec<String>, Vec<String>), String> {
        let clock = Clock::new(500_000_000_000);
        let s = Session::mount(&devh, &clock, &MountOpts::default()).map_err(|e| format!("mount: {:?}", e))?;
        let root = s.root();
        let d = root.create_dir("dir").map_err(|e| format!("mkdir: {:?}", e))?;
        for n in [&b2, &h2, &be2] {
            d.create_file(n).map_err(|e| format!("create {:?}: {:?}", n, e))?;
        }
        d.remove(&h2).map_err(|e| format!("remove {:?}: {:?}", h2, e))?;
        match mode {
            0 => d.create_file(&n2).map(|_| ()),
            1 => d.create_dir(&n2).map(|_| ()),
            _ => d.rename(&b2, &d, &n2),
        }
        .map_err(|e| format!("creating {:?}: {:?}", n2, ek(&e)))?;
        let list = |dd: &crate::session::FDir| -> Result<Vec<String>, String> {
            let mut v = Vec::new();
            for e in dd.iter() {
                let e = e.map_err(|e| format!("listing: {:?}", e))?;
                let n = e.file_name();
                if n != "." && n != ".." {
                    v.push(n);
                }
            }
            v.sort();
            Ok(v)
        };
        let live = list(&d)?;
        drop(d);
        drop(root);
        let dev2 = s.dev.handle();
        s.unmount().map_err(|e| format!("unmount: {:?}", e))?;
        let s2 = Session::mount(&dev2, &clock, &MountOpts::default()).map_err(|e| format!("remount: {:?}", e))?;
        let d2 = s2.root().open_dir("dir").map_err(|e| format!("open_dir after remount: {:?}", e))?;
        let again = list(&d2)?;
        drop(d2);
        s2.unmount().map_err(|e| format!("unmount: {:?}", e))?;
        Ok((live, again))
    });
    let mut want: Vec<String> = if mode == 2 { vec![behind.clone(), new.clone()] } else { vec![before.clone(), behind.clone(), new.clone()] };
    want.sort();
    match r {
        Caught::Panic(p) => out.violation = Some(format!("{:?} panicked: {}", c, p)),
        Caught::Ok(Err(e)) => out.violation = Some(format!("{:?}: {}", c, e)),
        Caught::Ok(Ok((live, again))) => {
            if live != want {
                out.violation = Some(format!("a name of {} units created into a hole left by a name of {} units (mode {}): the directory lists {:?}, expected {:?}", c.new_units, c.hole_units, mode, live, want));
            } else if again != want {
                out.violation = Some(format!("a name of {} units created into a hole left by a name of {} units (mode {}): after a remount the directory lists {:?}, expected {:?}", c.new_units, c.hole_units, mode, again, want));
            }
        }
    }
    out
}

// ---------------------------------------------------------------------------------------------------------
// unacceptable names that case-fold onto an entry that exists

#[derive(Clone, Debug, Serialize, Deserialize)]
pub struct FoldCase {
    /// characters of the existing name ("s" or "i" repeated) and of the unacceptable one (long s / dotless i repeated:
    /// two bytes each, so the name is longer than 255 bytes although it has no more than 255 characters)
    pub chars: u16,
    pub dotless_i: bool,
    /// 0 = create_file, 1 = create_dir, 2 = rename of another file to the name; +3: the existing entry is a directory
    pub mode: u8,
}

/// A name of more than 255 bytes is not acceptable whatever it folds to: the call fails with the length error and
/// leaves the image as it was, also when an entry exists whose name the unacceptable one equals under case folding.
pub fn eval_fold(c: &FoldCase) -> CaseOut {
    let mut out = CaseOut::default();
    out.hash = run::hash_str(&format!("fold|{}|{}|{}", c.chars, c.dotless_i, c.mode));
    out.nontrivial = true;
    let dev = match vol::make_device(&VolCfg::from_preset(1)) {
        Ok(d) => d,
        Err(e) => {
            out.violation = Some(format!("HARNESS: {}", e));
            return out;
        }
    };
    let (plain, odd) = if c.dotless_i { ("i", "\u{131}") } else { ("s", "\u{17f}") };
    let existing = plain.repeat(c.chars as usize);
    let bad = odd.repeat(c.chars as usize);
    let existing_is_dir = c.mode >= 3;
    let mode = c.mode % 3;
    let clock = Clock::new(500_000_000_000);
    let setup = (|| -> Result<(), String> {
        let s = Session::mount(&dev, &clock, &MountOpts::default()).map_err(|e| format!("mount: {:?}", e))?;
        let r = s.root();
        if existing_is_dir {
            r.create_dir(&existing).map(|_| ()).map_err(|e| format!("{:?}", e))?;
        } else {
            r.create_file(&existing).map(|_| ()).map_err(|e| format!("{:?}", e))?;
        }
        r.create_file("other.txt").map(|_| ()).map_err(|e| format!("{:?}", e))?;
        drop(r);
        s.unmount().map_err(|e| format!("{:?}", e))
    })();
    if let Err(e) = setup {
        out.violation = Some(format!("HARNESS: setup failed: {}", e));
        return out;
    }
    let before = dev.bytes();
    let devh = dev.handle();
    let bad2 = bad.clone();
    let r = guard(move || {
        let s = Session::mount(&devh, &clock, &MountOpts::default()).map_err(|e| format!("mount: {:?}", e))?;
        let root = s.root();
        let res = match mode {
            0 => root.create_file(&bad2).map(|_| ()),
            1 => root.create_dir(&bad2).map(|_| ()),
            _ => root.rename("other.txt", &root, &bad2),
        }
        .map_err(|e| ek(&e));
        drop(root);
        drop(s);
        Ok::<_, String>(res)
    });
    let what = ["create_file", "create_dir", "rename(\"other.txt\", root, ..)"][mode as usize];
    match r {
        Caught::Panic(p) => out.violation = Some(format!("{} of a {}-byte name panicked: {}", what, bad.len(), p)),
        Caught::Ok(Err(e)) => out.violation = Some(format!("HARNESS: {}", e)),
        Caught::Ok(Ok(Ok(()))) => out.violation = Some(format!("{} of a name of {} bytes ({} x U+{:04X}) succeeded: the name is not acceptable, it merely folds onto the existing {} {:?}", what, bad.len(), c.chars, odd.chars().next().unwrap() as u32, if existing_is_dir { "directory" } else { "file" }, existing)),
        Caught::Ok(Ok(Err(k))) => {
            if k != EK::InvalidFileNameLength {
                out.violation = Some(format!("{} of a name of {} bytes ({} x U+{:04X}, folding onto an existing entry) failed with {:?}, expected InvalidFileNameLength", what, bad.len(), c.chars, odd.chars().next().unwrap() as u32, k));
            } else if dev.bytes() != before {
                out.violation = Some(format!("{} of a name of {} bytes was rejected but changed the image", what, bad.len()));
            }
        }
    }
    out
}

// ---------------------------------------------------------------------------------------------------------
// names that equal the 8.3 reading of the volume label (a record in the root directory that is not a file)

#[derive(Clone, Debug, Serialize, Deserialize)]
pub struct LabelCase {
    pub label: String,
    /// the name used: the label's 8.3 reading, 0 = as is, 1 = lower case, 2 = first letter upper, rest lower
    pub spelling: u8,
    /// 0 = open_file, 1 = open_dir, 2 = remove, 3 = create_file, 4 = create_dir, 5 = rename of another file to the name
    pub mode: u8,
}

pub fn eval_label(c: &LabelCase) -> CaseOut {
    let mut out = CaseOut::default();
    out.hash = run::hash_str(&format!("label|{}|{}|{}", c.label, c.spelling, c.mode));
    out.nontrivial = true;
    let mut lab = [b' '; 11];
    for (i, b) in c.label.bytes().take(11).enumerate() {
        lab[i] = b;
    }
    let base = String::from_utf8_lossy(&lab[..8]).trim_end().to_string();
    let ext = String::from_utf8_lossy(&lab[8..]).trim_end().to_string();
    let reading = if ext.is_empty() { base } else { format!("{}.{}", base, ext) };
    let name = match c.spelling % 3 {
        0 => reading.clone(),
        1 => reading.to_lowercase(),
        _ => {
            let mut cs = reading.to_lowercase().chars().collect::<Vec<_>>();
            if let Some(f) = cs.first_mut() {
                *f = f.to_ascii_uppercase();
            }
            cs.into_iter().collect()
        }
    };
    let dev = MemDev::dense(vec![0u8; 400 * 512]);
    let mut dh = dev.handle();
    if let Err(e) = fatfs::format_volume(&mut dh, fatfs::FormatVolumeOptions::new().volume_label(lab)) {
        out.violation = Some(format!("HARNESS: format: {:?}", e));
        return out;
    }
    let mode = c.mode % 6;
    let devh = dev.handle();
    let nm = name.clone();
    let r = guard(move || -> Result<(String, Vec<String>, Option<[u8; 11]>), String> {
        let clock = Clock::new(500_000_000_000);
        let s = Session::mount(&devh, &clock, &MountOpts::default()).map_err(|e| format!("mount: {:?}", e))?;
        let root = s.root();
        root.create_file("other.txt").map(|_| ()).map_err(|e| format!("create other.txt: {:?}", e))?;
        let res = match mode {
            0 => format!("{:?}", root.open_file(&nm).map(|_| ()).map_err(|e| ek(&e))),
            1 => format!("{:?}", root.open_dir(&nm).map(|_| ()).map_err(|e| ek(&e))),
            2 => format!("{:?}", root.remove(&nm).map_err(|e| ek(&e))),
            3 => format!("{:?}", root.create_file(&nm).map(|_| ()).map_err(|e| ek(&e))),
            4 => format!("{:?}", root.create_dir(&nm).map(|_| ()).map_err(|e| ek(&e))),
            _ => format!("{:?}", root.rename("other.txt", &root, &nm).map_err(|e| ek(&e))),
        };
        let mut listing = Vec::new();
        for e in root.iter() {
            listing.push(e.map_err(|e| format!("listing: {:?}", e))?.file_name());
        }
        listing.sort();
        let label = s.fs().read_volume_label_from_root_dir_as_bytes().map_err(|e| format!("label: {:?}", e))?;
        drop(root);
        s.unmount().map_err(|e| format!("unmount: {:?}", e))?;
        Ok((res, listing, label))
    });
    let what = ["open_file", "open_dir", "remove", "create_file", "create_dir", "rename(\"other.txt\", root, ..)"][mode as usize];
    match r {
        Caught::Panic(p) => out.violation = Some(format!("{}({:?}) on a volume labelled {:?} panicked: {}", what, name, c.label, p)),
        Caught::Ok(Err(e)) => out.violation = Some(format!("{}({:?}) on a volume labelled {:?}: {}", what, name, c.label, e)),
        Caught::Ok(Ok((res, listing, label))) => {
            let (want_res, mut want_list) = match mode {
                0 | 1 | 2 => ("Err(NotFound)", vec!["other.txt".to_string()]),
                3 | 4 => ("Ok(())", vec!["other.txt".to_string(), name.clone()]),
                _ => ("Ok(())", vec![name.clone()]),
            };
            want_list.sort();
            if res != want_res {
                out.violation = Some(format!("{}({:?}) on a volume whose label reads {:?} returned {}, expected {}: the label record is not a file or directory", what, name, reading, res, want_res));
            } else if listing != want_list {
                out.violation = Some(format!("after {}({:?}) on a volume whose label reads {:?} the root lists {:?}, expected {:?}", what, name, reading, listing, want_list));
            } else if label != Some(lab) {
                out.violation = Some(format!("after {}({:?}) the label record reads {:?}, it was {:?}", what, name, label, lab));
            }
        }
    }
    out
}

fn fail(c: &NameCase, m: String) -> Failure {
    Failure { message: m, case: serde_json::to_value(c).unwrap(), kind: "name".into() }
}

pub fn replay(v: &serde_json::Value) -> Result<Option<String>, String> {
    if v["kind"].as_str() == Some("label") {
        let c: LabelCase = serde_json::from_value(v["case"].clone()).map_err(|e| format!("bad case: {}", e))?;
        return Ok(eval_label(&c).violation);
    }
    if v["kind"].as_str() == Some("fold") {
        let c: FoldCase = serde_json::from_value(v["case"].clone()).map_err(|e| format!("bad case: {}", e))?;
        return Ok(eval_fold(&c).violation);
    }
    if v["kind"].as_str() == Some("hole") {
        let c: HoleCase = serde_json::from_value(v["case"].clone()).map_err(|e| format!("bad case: {}", e))?;
        return Ok(eval_hole(&c).violation);
    }
    if v["kind"].as_str() == Some("reject") || v["case"].get("shape").is_some() {
        let c: RejectCase = serde_json::from_value(v["case"].clone()).map_err(|e| format!("bad case: {}", e))?;
        let base = base_image2()?;
        return Ok(eval_reject(&base, &c).violation);
    }
    let c: NameCase = serde_json::from_value(v["case"].clone()).map_err(|e| format!("bad case: {}", e))?;
    let base = base_image()?;
    Ok(eval(&base, &c).violation)
}

fn name_with(c: char, pos: u8) -> String {
    match pos {
        0 => format!("{}tail", c),
        1 => format!("mid{}dle", c),
        _ => format!("head{}", c),
    }
}

pub fn run(tier: Tier, seed: u64) -> i32 {
    let rule = "names through create_file, create_dir and rename on a fresh tiny volume each: every ASCII character alone and embedded; every BMP scalar (quick: one call kind per (character, position), thorough: all three) and 2000 astral ones as first / middle / last character; byte lengths 0..300 built from 1-, 2- and 3-byte characters; random strings; oracle = independent acceptance predicate (1..=255 UTF-8 bytes, documented character set) => rejected names fail with a matching error kind and leave the image byte-identical, accepted names are listed unit for unit, found by name, case variants and alias (read by refdec) and not found by near-misses (folding = std char::to_uppercase); plus every rejected name of a fixed list (empty, 256/300 bytes in 1-, 2-, 3-byte characters, every unacceptable ASCII character alone / embedded / in a long name, U+FFFF) through nine call shapes that create an entry (create in a subdirectory, rename, file and directory moves in every direction): matching error kind and a byte-identical image; plus names of 20 lengths created (file, directory, rename) into holes left by names of 12 lengths between two long-named neighbours: all three names listed character for character, live and after a remount; plus names of more than 255 bytes that case-fold onto an existing file or directory (128..255 long s / dotless i against as many s / i): rejected with the length error, image unchanged; plus names equal (in three spellings) to the 8.3 reading of the volume label record in the root directory: open / remove do not find it, create / rename make a real entry, the label stays; non-trivial = accepted non-ASCII or >= 14 units, or rejected; distinct by (name, call kind)";
    let mut rep = Report::new("C15", tier, seed, "exploration", rule);
    rep.assume("'.' and '..' and names containing '/' are outside the domain (reserved entries / path separator)");
    rep.assume("U+FFFF is not part of the accepted set: it is the long-name padding value and cannot be stored");
    let base = match base_image() {
        Ok(b) => b,
        Err(e) => {
            eprintln!("{}", e);
            return 2;
        }
    };
    let base = &base;
    // regression
    let mut reg = Block::new("regress");
    for f in run::regress_files("C15") {
        if let Ok(v) = run::load_replay(&f) {
            if let Ok(c) = serde_json::from_value::<NameCase>(v["case"].clone()) {
                let out = eval(base, &c);
                reg.record(&out, || v["case"].clone());
                if let Some(m) = out.violation {
                    if reg.failure.is_none() {
                        reg.failure = Some(fail(&c, format!("regression case {}: {}", f, m)));
                    }
                }
            }
        }
    }
    rep.add(reg);
    // A: ASCII
    let mut a = run::run_indexed("ascii_alone_and_embedded", 128 * 2 * 3, |i, blk| {
        let ch = (i % 128) as u8 as char;
        let embedded = (i / 128) % 2 == 1;
        let mode = (i / 256) as u8;
        let name = if embedded { format!("a{}b", ch) } else { ch.to_string() };
        let c = NameCase { name, mode };
        let out = eval(base, &c);
        blk.record(&out, || serde_json::to_value(&c).unwrap());
        out.violation.map(|m| fail(&c, m))
    });
    a.exhaustive = true;
    rep.add(a);
    // B: BMP scalars x 3 positions
    if !rep.failed() {
        let all = tier == Tier::Thorough;
        let mut cps: Vec<u32> = Vec::new();
        for cp in 0x80u32..=0xFFFF {
            if (0xD800..=0xDFFF).contains(&cp) {
                continue;
            }
            let c = char::from_u32(cp).unwrap();
            let has_case = c.to_uppercase().ne(std::iter::once(c)) || c.to_lowercase().ne(std::iter::once(c));
            let _ = has_case;
            cps.push(cp);
        }
        let n = cps.len() as u64;
        let modes: u64 = if all { 3 } else { 1 };
        let mut b = run::run_indexed("bmp_scalars_first_middle_last", n * 3 * modes, |i, blk| {
            let cp = cps[(i % n) as usize];
            let pos = ((i / n) % 3) as u8;
            let mode = if all { (i / (3 * n)) as u8 } else { ((cp + pos as u32) % 3) as u8 };
            let c = NameCase { name: name_with(char::from_u32(cp).unwrap(), pos), mode };
            let out = eval(base, &c);
            blk.record(&out, || serde_json::to_value(&c).unwrap());
            out.violation.map(|m| fail(&c, m))
        });
        b.exhaustive = true;
        rep.add(b);
    }
    // C: astral sample
    if !rep.failed() {
        let c = run::run_indexed("astral_scalars_sample", 2000 * 3, |i, blk| {
            let k = i % 2000;
            let cp = 0x10000 + ((k * 557 + (seed % 557)) % 0xFFFFF) as u32;
            let pos = (i / 2000) as u8;
            let Some(ch) = char::from_u32(cp) else { return None };
            let c = NameCase { name: name_with(ch, pos), mode: (k % 3) as u8 };
            let out = eval(base, &c);
            blk.record(&out, || serde_json::to_value(&c).unwrap());
            out.violation.map(|m| fail(&c, m))
        });
        rep.add(c);
    }
    // D: lengths
    if !rep.failed() {
        let mut d = run::run_indexed("byte_lengths_0_to_300", 301 * 3 * 3, |i, blk| {
            let len = (i % 301) as usize;
            let width = ((i / 301) % 3) as usize + 1;
            let mode = (i / 903) as u8;
            let unit = ["a", "é", "語"][width - 1];
            let mut name = String::new();
            while name.len() + width <= len {
                name.push_str(unit);
            }
            while name.len() < len {
                name.push('z');
            }
            let c = NameCase { name, mode };
            let out = eval(base, &c);
            blk.record(&out, || serde_json::to_value(&c).unwrap());
            out.violation.map(|m| fail(&c, m))
        });
        d.exhaustive = true;
        rep.add(d);
    }
    // F: every rejected name through every call shape that creates an entry (incl. directory moves): no side effects
    if !rep.failed() {
        let base2 = match base_image2() {
            Ok(b) => b,
            Err(e) => {
                eprintln!("{}", e);
                return 2;
            }
        };
        let names = rejected_names();
        let nshapes = REJECT_SHAPES.len() as u64;
        let mut fblk = run::run_indexed("rejected_names_through_every_entry_creating_call", names.len() as u64 * nshapes, |i, blk| {
            let c = RejectCase { name: names[(i / nshapes) as usize].clone(), shape: (i % nshapes) as u8 };
            let out = eval_reject(&base2, &c);
            blk.record(&out, || serde_json::to_value(&c).unwrap());
            out.violation.map(|m| Failure { message: m, case: serde_json::to_value(&c).unwrap(), kind: "reject".into() })
        });
        fblk.exhaustive = true;
        rep.add(fblk);
    }
    // E: random strings
    if !rep.failed() {
        let n = tier.pick(60000u32, 3000000u32);
        let e = run::run_random(
            "random_strings",
            seed,
            n,
            "name",
            || {
                run::boxed(
                    (
                        prop_oneof![
                            4 => "[ -~]{0,20}",
                            3 => "\\PC{1,12}",
                            2 => "[ .]{1,5}",
                            2 => "[a-zA-Zà-ÿĀ-ſͰ-Ͽа-яА-Я]{1,30}",
                            1 => "[a-z]{240,270}",
                            1 => "[à-ÿ]{120,135}",
                            1 => "[一-鿿]{80,90}",
                            2 => "[a-z .]{10,16}",
                            1 => "[a-zA-Z0-9]{1,8}\\.[a-zA-Z0-9]{0,4}",
                            // a clean base name with an extension that needs mangling, and the other way round
                            2 => "[a-z0-9]{1,8}\\.[a-z +,;=\\[\\]é]{1,3}",
                            2 => "[a-z +,;=\\[\\]é]{1,8}\\.[a-z0-9]{1,3}",
                            1 => "(\\.|~|_|-)[a-z0-9~.]{0,12}",
                        ],
                        0u8..3,
                    )
                        .prop_map(|(name, mode)| NameCase { name, mode }),
                )
            },
            |c: &NameCase| eval(base, c),
        );
        rep.add(e);
    }
    // every name length next to every hole size: the new name and both neighbours stay listed character for character
    if !rep.failed() {
        let lens: Vec<u16> = vec![1, 8, 12, 13, 14, 25, 26, 27, 38, 39, 40, 52, 53, 65, 78, 91, 104, 130, 200, 255];
        let holes: Vec<u16> = vec![1, 13, 14, 26, 27, 39, 40, 52, 65, 78, 104, 255];
        let total = (lens.len() * holes.len() * 3 * 2) as u64;
        let mut b = run::run_indexed("names_created_into_holes_between_neighbours", total, |i, blk| {
            let fat32 = i % 2 == 1;
            let i = i as usize / 2;
            let c = HoleCase { mode: (i % 3) as u8, new_units: lens[(i / 3) % lens.len()], hole_units: holes[i / 3 / lens.len()], fat32 };
            let out = eval_hole(&c);
            blk.record(&out, || serde_json::to_value(&c).unwrap());
            out.violation.map(|m| Failure { message: m, case: serde_json::to_value(&c).unwrap(), kind: "hole".into() })
        });
        b.exhaustive = true;
        rep.add(b);
    }
    // names longer than 255 bytes that fold (long s -> S, dotless i -> I) onto an entry that exists
    if !rep.failed() {
        let lens: Vec<u16> = vec![128, 129, 200, 255];
        let mut b = run::run_indexed("unacceptable_names_that_fold_onto_an_existing_entry", (lens.len() * 2 * 6) as u64, |i, blk| {
            let i = i as usize;
            let c = FoldCase { chars: lens[i / 12], dotless_i: (i / 6) % 2 == 1, mode: (i % 6) as u8 };
            let out = eval_fold(&c);
            blk.record(&out, || serde_json::to_value(&c).unwrap());
            out.violation.map(|m| Failure { message: m, case: serde_json::to_value(&c).unwrap(), kind: "fold".into() })
        });
        b.exhaustive = true;
        rep.add(b);
    }
    // names equal to the 8.3 reading of the volume label
    if !rep.failed() {
        let labels = ["BACKUP", "MY LABEL", "DATA    TXT", "A", "NO NAME", "LABEL123ABC"];
        let mut b = run::run_indexed("names_equal_to_the_volume_label", (labels.len() * 3 * 6) as u64, |i, blk| {
            let i = i as usize;
            let c = LabelCase { label: labels[i / 18].to_string(), spelling: ((i / 6) % 3) as u8, mode: (i % 6) as u8 };
            let out = eval_label(&c);
            blk.record(&out, || serde_json::to_value(&c).unwrap());
            out.violation.map(|m| Failure { message: m, case: serde_json::to_value(&c).unwrap(), kind: "label".into() })
        });
        b.exhaustive = true;
        rep.add(b);
    }
    rep.finish()
}
