pub mod c01;
pub mod c02;
pub mod c03;
pub mod c04;
pub mod c05;
pub mod c10;
pub mod c11;
pub mod c12;
pub mod c18;
pub mod hist;

use crate::run::Tier;

pub fn hist_prop(id: &str) -> Option<hist::HistProp> {
    match id {
        "C01" => Some(c01::prop()),
        "C02" => Some(c02::prop()),
        "C03" => Some(c03::prop()),
        "C04" => Some(c04::prop()),
        "C05" => Some(c05::prop()),
        "C10" => Some(c10::prop()),
        "C11" => Some(c11::prop()),
        "C12" => Some(c12::prop()),
        "C18" => Some(c18::prop()),
        _ => None,
    }
}

/// run one property; None = unknown id
pub fn run(id: &str, tier: Tier, seed: u64) -> Option<i32> {
    match id {
        "C05" => Some(c05::run(tier, seed)),
        _ => hist_prop(id).map(|hp| hist::run(&hp, tier, seed)),
    }
}
