pub mod c01;
pub mod c02;
pub mod c03;
pub mod c03dots;
pub mod c04;
pub mod c05;
pub mod c06;
pub mod c07;
pub mod c08;
pub mod c09;
pub mod c09std;
pub mod c10;
pub mod c11;
pub mod c12;
pub mod c13;
pub mod c14;
pub mod c15;
pub mod c16;
pub mod c17;
pub mod c18;
pub mod c19;
pub mod c20;
pub mod hist;

use crate::run::Tier;

pub fn hist_prop(id: &str) -> Option<hist::HistProp> {
    match id {
        "C01" => Some(c01::prop()),
        "C02" => Some(c02::prop()),
        "C03" => Some(c03::prop()),
        "C04" => Some(c04::prop()),
        "C05" => Some(c05::prop()),
        "C10" => Some(c10::prop()),
        "C11" => Some(c11::prop()),
        "C12" => Some(c12::prop()),
        "C18" => Some(c18::prop()),
        _ => None,
    }
}

/// run one property; None = unknown id
pub fn run(id: &str, tier: Tier, seed: u64) -> Option<i32> {
    match id {
        "C01" => Some(c01::run(tier, seed)),
        "C02" => Some(c02::run(tier, seed)),
        "C03" => Some(c03::run(tier, seed)),
        "C04" => Some(c04::run(tier, seed)),
        "C05" => Some(c05::run(tier, seed)),
        "C06" => Some(c06::run(tier, seed)),
        "C07" => Some(c07::run(tier, seed)),
        "C08" => Some(c08::run(tier, seed)),
        "C09" => Some(c09::run(tier, seed)),
        "C10" => Some(c10::run(tier, seed)),
        "C11" => Some(c11::run(tier, seed)),
        "C12" => Some(c12::run(tier, seed)),
        "C13" => Some(c13::run(tier, seed)),
        "C14" => Some(c14::run(tier, seed)),
        "C15" => Some(c15::run(tier, seed)),
        "C16" => Some(c16::run(tier, seed)),
        "C18" => Some(c18::run(tier, seed)),
        "C19" => Some(c19::run(tier, seed)),
        "C20" => Some(c20::run(tier, seed)),
        "C17" => Some(c17::run(tier, seed)),
        _ => hist_prop(id).map(|hp| hist::run(&hp, tier, seed)),
    }
}

/// replay one saved case; Ok(None) = held, Ok(Some(msg)) = still violated
pub fn replay(id: &str, v: &serde_json::Value) -> Result<Option<String>, String> {
    match id {
        "C03" if v["kind"].as_str() == Some("dots") => c03dots::replay(v),
        "C05" if v["kind"].as_str() == Some("hint") => {
            let c = &v["case"];
            Ok(c05::foreign_hint_case(c["preset"].as_u64().unwrap_or(12) as usize, c["hint"].as_i64().unwrap_or(0), c["how"].as_u64().unwrap_or(0) as u8).err())
        }
        "C10" if v["kind"].as_str() == Some("media") => {
            let c = &v["case"];
            let bits = c["width"].as_u64().unwrap_or(12) as u32;
            let fat = match bits {
                12 => fatfs::FatType::Fat12,
                16 => fatfs::FatType::Fat16,
                _ => fatfs::FatType::Fat32,
            };
            Ok(c10::reserved_entries_case(c["media"].as_u64().unwrap_or(0xF8) as u8, fat, c["sectors"].as_u64().unwrap_or(2000) as u32, bits, c["fats"].as_u64().unwrap_or(2) as u8).err())
        }
        "C06" => c06::replay(v),
        "C07" => c07::replay(v),
        "C08" => c08::replay(v),
        "C09" => c09::replay(v),
        "C13" => c13::replay(v),
        "C14" => c14::replay(v),
        "C15" => c15::replay(v),
        "C16" => c16::replay(v),
        "C18" => c18::replay(v),
        "C19" => c19::replay(v),
        "C20" => hist::replay_value(&c20::prop(), v),
        "C17" => c17::replay(v),
        _ => match hist_prop(id) {
            Some(hp) => hist::replay_value(&hp, v),
            None => Err(format!("unknown property {}", id)),
        },
    }
}
