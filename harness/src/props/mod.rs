pub mod c01;
pub mod c02;
pub mod c03;
pub mod hist;

pub fn hist_prop(id: &str) -> Option<hist::HistProp> {
    match id {
        "C01" => Some(c01::prop()),
        "C02" => Some(c02::prop()),
        "C03" => Some(c03::prop()),
        _ => None,
    }
}
