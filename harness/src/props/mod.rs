pub mod hist;
pub mod c01;
