//! C06 - formatting yields a specification-valid empty volume for every accepted request
//!
//! (a) real formats on sparse devices for generated FormatVolumeOptions x boundary/random sizes, checked by refdec;
//! (b) through the boot-sector hook, sweeps over the sector-count range (all 2^32 - 42 sizes for default options in
//!     the thorough tier), each result checked by the independent geometry rules; the hook is cross-validated
//!     against sector 0 of every real format of the run.

use crate::dev::{MemDev, Store};
use crate::refdec::{self, rd16, rd32, rd8, rdv, Geom, RawBpb};
use crate::run::{self, Block, CaseOut, Failure, Mix, Report, Tier};
use crate::session::{ek, guard, Caught, Clock, MountOpts, Session, EK};
use proptest::prelude::*;
use serde::{Deserialize, Serialize};

#[derive(Clone, Debug, Serialize, Deserialize, PartialEq)]
pub struct FmtReq {
    pub bps: u16,
    pub bpc: Option<u32>,
    pub fat: Option<u8>,
    pub root_entries: Option<u16>,
    pub fats: Option<u8>,
    pub media: Option<u8>,
    pub heads: Option<u16>,
    pub spt: Option<u16>,
    pub drive: Option<u8>,
    pub vol_id: Option<u32>,
    pub label: Option<[u8; 11]>,
    /// Some: passed as total_sectors; None: taken from the device size
    pub total_sectors: Option<u32>,
    /// size of the device in bytes when total_sectors is None
    pub device_bytes: u64,
}

impl FmtReq {
    pub fn default_with(total: u32) -> FmtReq {
        FmtReq { bps: 512, bpc: None, fat: None, root_entries: None, fats: None, media: None, heads: None, spt: None, drive: None, vol_id: None, label: None, total_sectors: Some(total), device_bytes: 0 }
    }
    /// The builder calls in one of two orders (cluster size before or after the sector size), chosen from the request
    /// itself: the setters are documented as independent, so a request must mean the same in either order.
    pub fn options(&self) -> fatfs::FormatVolumeOptions {
        let cluster_first = (self.effective_total() / 3 + self.bps as u64 / 512) % 2 == 1;
        let mut o = fatfs::FormatVolumeOptions::new();
        if cluster_first {
            if let Some(b) = self.bpc {
                o = o.bytes_per_cluster(b);
            }
        }
        o = o.bytes_per_sector(self.bps);
        if !cluster_first {
            if let Some(b) = self.bpc {
                o = o.bytes_per_cluster(b);
            }
        }
        if let Some(f) = self.fat {
            o = o.fat_type(crate::vol::fat_type_of(f));
        }
        if let Some(r) = self.root_entries {
            o = o.max_root_dir_entries(r);
        }
        if let Some(f) = self.fats {
            o = o.fats(f);
        }
        if let Some(m) = self.media {
            o = o.media(m);
        }
        if let Some(h) = self.heads {
            o = o.heads(h);
        }
        if let Some(s) = self.spt {
            o = o.sectors_per_track(s);
        }
        if let Some(d) = self.drive {
            o = o.drive_num(d);
        }
        if let Some(v) = self.vol_id {
            o = o.volume_id(v);
        }
        if let Some(l) = self.label {
            o = o.volume_label(l);
        }
        if let Some(t) = self.total_sectors {
            o = o.total_sectors(t);
        }
        o
    }
    pub fn effective_total(&self) -> u64 {
        match self.total_sectors {
            Some(t) => t as u64,
            None => self.device_bytes / self.bps as u64,
        }
    }
    fn non_default_options(&self) -> usize {
        [self.bps != 512, self.bpc.is_some(), self.fat.is_some(), self.root_entries.is_some(), self.fats.is_some(), self.media.is_some(), self.label.is_some(), self.total_sectors.is_none()].iter().filter(|x| **x).count()
    }
}

/// geometry-level checks shared by real formats and the hook sweep
fn check_geometry(req: &FmtReq, raw: &RawBpb) -> Result<Geom, String> {
    let g = Geom::derive(raw).map_err(|e| format!("boot sector is not coherent: {}", e))?;
    if let Some(f) = req.fat {
        if g.width != f {
            return Err(format!("FAT{} was requested, the volume has {} clusters = FAT{}", f, g.clusters, g.width));
        }
    }
    if g.fat_capacity() < g.clusters + 2 {
        return Err(format!("each FAT holds {} entries but {} clusters + 2 are needed", g.fat_capacity(), g.clusters));
    }
    let want_total = req.effective_total();
    if g.tot_sec != want_total {
        return Err(format!("declared size {} sectors, requested {}", g.tot_sec, want_total));
    }
    if g.bps != req.bps as u64 {
        return Err(format!("bytes/sector {} but {} requested", g.bps, req.bps));
    }
    if let Some(b) = req.bpc {
        if g.cluster_size() != b as u64 {
            return Err(format!("cluster size {} but {} requested", g.cluster_size(), b));
        }
    }
    if g.nfats != req.fats.unwrap_or(2) as u64 {
        return Err(format!("{} FATs but {} requested", g.nfats, req.fats.unwrap_or(2)));
    }
    if g.width != 32 && raw.root_ent_cnt != req.root_entries.unwrap_or(512) {
        return Err(format!("{} root entries but {} requested", raw.root_ent_cnt, req.root_entries.unwrap_or(512)));
    }
    if raw.media != req.media.unwrap_or(0xF8) {
        return Err(format!("media {:#x} but {:#x} requested", raw.media, req.media.unwrap_or(0xF8)));
    }
    if raw.vol_id != req.vol_id.unwrap_or(0x1234_5678) {
        return Err("volume id not echoed".into());
    }
    if raw.vol_lab != req.label.unwrap_or(*b"NO NAME    ") {
        return Err("volume label not echoed in the boot sector".into());
    }
    if raw.sig55aa != [0x55, 0xAA] {
        return Err("missing 0x55AA signature".into());
    }
    if raw.status != 0 {
        return Err(format!("status byte {:#x} on a fresh volume", raw.status));
    }
    if raw.boot_sig != 0x29 {
        return Err("extended boot signature is not 0x29".into());
    }
    if raw.hidd_sec != 0 {
        return Err("hidden sectors not 0".into());
    }
    if g.spc > 128 {
        return Err("more than 128 sectors per cluster".into());
    }
    if g.width == 32 && g.clusters > 0x0FFF_FFF5 {
        return Err(format!("{} clusters exceed the FAT32 limit", g.clusters));
    }
    if g.width != 32 && raw.root_ent_cnt == 0 {
        return Err("FAT12/16 volume without root entries".into());
    }
    // the informational type string must name the width the cluster count implies
    let want_label: &[u8; 8] = match g.width {
        12 => b"FAT12   ",
        16 => b"FAT16   ",
        _ => b"FAT32   ",
    };
    if &raw.fil_sys_type != want_label {
        return Err(format!("file-system type label {:?} on a volume whose {} clusters make it FAT{}", String::from_utf8_lossy(&raw.fil_sys_type), g.clusters, g.width));
    }
    Ok(g)
}

/// full check of a really formatted image
fn check_image(req: &FmtReq, img: &Store) -> Result<Geom, String> {
    let raw = RawBpb::read(img);
    let g = check_geometry(req, &raw)?;
    let act = 0u64;
    // reserved entries
    let ones = match g.width {
        12 => 0xF00,
        16 => 0xFF00,
        _ => 0x0FFF_FF00,
    };
    let e0 = g.fat(img, 0);
    if e0 != (ones | raw.media as u32) {
        return Err(format!("FAT[0] = {:#x}", e0));
    }
    let e1 = g.fat(img, 1);
    if !g.is_eoc(e1) {
        return Err(format!("FAT[1] = {:#x} is not an end-of-chain pattern", e1));
    }
    let small = g.clusters <= 300_000;
    let maxc = g.max_cluster();
    let mut check_cluster = |c: u32| -> Result<(), String> {
        let v = g.fat(img, c);
        if g.width == 32 && c == raw.root_clus {
            if !g.is_eoc(v) {
                return Err(format!("root cluster {} is not end-of-chain ({:#x})", c, v));
            }
        } else if v != 0 {
            return Err(format!("data cluster {} is not free on a fresh volume (FAT value {:#x})", c, v));
        }
        for copy in 1..g.nfats {
            if g.fat_raw(img, copy, c) != g.fat_raw(img, act, c) {
                return Err(format!("FAT copy {} differs at entry {}", copy, c));
            }
        }
        Ok(())
    };
    if small {
        for c in 2..=maxc {
            check_cluster(c)?;
        }
        // whole copies byte-identical
        let a = rdv(img, g.fat_off(0), g.fat_bytes() as usize);
        for copy in 1..g.nfats {
            if rdv(img, g.fat_off(copy), g.fat_bytes() as usize) != a {
                return Err(format!("FAT copy {} is not byte-identical to copy 0", copy));
            }
        }
    } else {
        let mut m = Mix::new(g.clusters, 7);
        for c in 2..(2 + 2048).min(maxc) {
            check_cluster(c)?;
        }
        for c in maxc.saturating_sub(2048)..=maxc {
            check_cluster(c)?;
        }
        for _ in 0..4096 {
            check_cluster(2 + m.below(g.clusters) as u32)?;
        }
    }
    // root directory
    let (root_off, root_len) = if g.width == 32 { (g.cluster_off(raw.root_clus), g.cluster_size()) } else { (g.root_off(), g.root_slots() as u64 * 32) };
    let root = rdv(img, root_off, root_len as usize);
    let mut start = 0usize;
    if let Some(l) = req.label {
        if root[..11] != l || root[11] != 0x08 {
            return Err("volume label entry missing from the root directory".into());
        }
        if root[26] != 0 || root[27] != 0 || root[28..32] != [0, 0, 0, 0] {
            return Err("volume label entry has a cluster or size".into());
        }
        start = 32;
    }
    if root[start..].iter().any(|b| *b != 0) {
        return Err("root directory is not empty".into());
    }
    if g.width == 32 {
        if raw.fs_info == 0 || raw.fs_info as u64 >= g.rsvd {
            return Err("FS-info sector outside the reserved area".into());
        }
        let (l, s2, cnt, nxt, t) = refdec::fsinfo(img, &g);
        if l != 0x4161_5252 || s2 != 0x6141_7272 || t != 0xAA55_0000 {
            return Err("FS-info signatures wrong".into());
        }
        if cnt as u64 != g.clusters - 1 {
            return Err(format!("FS-info free count {} but {} clusters are free", cnt, g.clusters - 1));
        }
        if nxt != 0xFFFF_FFFF && (nxt < 2 || nxt as u64 > g.clusters + 1) {
            return Err(format!("FS-info next-free hint {} out of range", nxt));
        }
        if raw.bk_boot_sec == 0 || raw.bk_boot_sec as u64 >= g.rsvd {
            return Err("backup boot sector outside the reserved area".into());
        }
        let a = rdv(img, 0, g.bps as usize);
        let b = rdv(img, raw.bk_boot_sec as u64 * g.bps, g.bps as usize);
        if a != b {
            return Err("backup boot sector differs from the primary".into());
        }
        if raw.fs_ver != 0 || raw.ext_flags != 0 {
            return Err("fs version / extended flags not zero".into());
        }
    }
    let _ = (rd8(img, 0), rd16(img, 0), rd32(img, 0));
    Ok(g)
}

pub struct FmtOutcome {
    pub accepted: bool,
    pub verdict: Result<(), String>,
    pub geom: Option<Geom>,
}

/// really format a sparse device and check everything
pub fn real_format(req: &FmtReq) -> FmtOutcome {
    let vol_bytes = match req.total_sectors {
        Some(t) => t as u64 * req.bps as u64,
        None => req.device_bytes,
    };
    let pad = 64 * 1024u64;
    // two media out of three hold stale non-zero bytes everywhere (a used card): whatever the formatter does not
    // write keeps them, so a table copy, root area or FS-info field it forgets to initialise is visible
    // (volumes above 8 GiB stay zero-filled: their tables are hundreds of megabytes and zero pages of the sparse store are free)
    let fill: u8 = if vol_bytes > (8u64 << 30) || (vol_bytes / 512 + req.bps as u64 / 512 + req.fats.unwrap_or(0) as u64) % 3 == 0 { 0 } else { crate::vol::GARBAGE };
    // one storage in five makes short transfers (legal for the storage traits; small volumes only, every transfer
    // becomes several device calls)
    let short = vol_bytes <= (64u64 << 20) && (vol_bytes / 512 + req.bps as u64 / 256 + req.root_entries.unwrap_or(0) as u64) % 5 == 0;
    let store = Store::sparse(vol_bytes + pad, fill);
    let dev = MemDev::new(store);
    // device size as seen by the library when total_sectors is None: without the pad
    if req.total_sectors.is_none() {
        dev.with(|d| {
            d.store = Store::sparse(vol_bytes, fill);
        });
    }
    if short {
        dev.with(|d| d.short_io = vol_bytes.wrapping_mul(0x9E37_79B9_7F4A_7C15) | 1);
    }
    // the options are built under the guard too: every value handed to a setter is inside its documented domain, so a
    // panic there is a panic of formatting
    let req2 = req.clone();
    let mut dh = dev.handle();
    dev.with(|d| d.budget = 40_000_000);
    let r = guard(move || fatfs::format_volume(&mut dh, req2.options()));
    let budget_hit = dev.with(|d| d.budget_hit);
    dev.with(|d| {
        d.budget = u64::MAX;
        d.short_io = 0;
    });
    let res = match r {
        Caught::Panic(p) => return FmtOutcome { accepted: false, verdict: Err(format!("format_volume panicked: {}", p)), geom: None },
        Caught::Ok(r) => r,
    };
    if budget_hit {
        return FmtOutcome { accepted: false, verdict: Err("format_volume exceeded 40,000,000 device calls".into()), geom: None };
    }
    match res {
        Err(e) => {
            let k = ek(&e);
            let verdict = if k == EK::InvalidInput { Ok(()) } else { Err(format!("format_volume failed with {:?}, not InvalidInput", k)) };
            FmtOutcome { accepted: false, verdict, geom: None }
        }
        Ok(()) => {
            let hi = dev.with(|d| d.hi_write);
            if hi > vol_bytes || dev.with(|d| d.past_end) {
                return FmtOutcome { accepted: true, verdict: Err(format!("format wrote up to byte {} but the volume ends at {}", hi, vol_bytes)), geom: None };
            }
            let pos = dev.with(|d| d.pos);
            let img = dev.snapshot();
            let g = match check_image(req, &img) {
                Ok(g) => g,
                Err(e) => return FmtOutcome { accepted: true, verdict: Err(e), geom: None },
            };
            if pos != 0 {
                return FmtOutcome { accepted: true, verdict: Err(format!("storage position left at {} instead of 0", pos)), geom: Some(g) };
            }
            // hook cross-validation
            if let Some(t) = req.total_sectors {
                match fatfs::verif_format_boot_sector(&req.options(), t) {
                    Ok((bytes, _)) => {
                        if bytes[..] != rdv(&img, 0, 512)[..] {
                            return FmtOutcome { accepted: true, verdict: Err("HARNESS: boot-sector hook disagrees with the real format".into()), geom: Some(g) };
                        }
                    }
                    Err(_) => return FmtOutcome { accepted: true, verdict: Err("HARNESS: boot-sector hook rejects what the real format accepted".into()), geom: Some(g) },
                }
            }
            // strict mount
            let clock = Clock::new(0);
            let devm = dev.handle();
            let gc = g.clone();
            let m = guard(move || {
                let s = Session::mount(&devm, &clock, &MountOpts { access_date: false, strict: true }).map_err(|e| format!("strict mount failed: {:?}", e))?;
                let fs = s.fs();
                let w = match fs.fat_type() {
                    fatfs::FatType::Fat12 => 12,
                    fatfs::FatType::Fat16 => 16,
                    fatfs::FatType::Fat32 => 32,
                };
                if w != gc.width || fs.cluster_size() as u64 != gc.cluster_size() {
                    return Err(format!("mount reports FAT{} / cluster size {}", w, fs.cluster_size()));
                }
                if gc.width == 32 || gc.clusters <= 300_000 {
                    let st = fs.stats().map_err(|e| format!("stats failed: {:?}", e))?;
                    let exp_free = if gc.width == 32 { gc.clusters - 1 } else { gc.clusters };
                    if st.total_clusters() as u64 != gc.clusters || st.free_clusters() as u64 != exp_free {
                        return Err(format!("mount reports {} free of {} clusters, expected {} of {}", st.free_clusters(), st.total_clusters(), exp_free, gc.clusters));
                    }
                }
                let n = s.root().iter().count();
                if n != 0 {
                    return Err(format!("root directory lists {} entries", n));
                }
                s.abandon();
                Ok(())
            });
            let verdict = match m {
                Caught::Panic(p) => Err(format!("mounting the fresh volume panicked: {}", p)),
                Caught::Ok(r) => r,
            };
            FmtOutcome { accepted: true, verdict, geom: Some(g) }
        }
    }
}

/// evaluate one size through the hook only
pub fn hook_eval(req: &FmtReq) -> Result<Option<(u8, u64)>, String> {
    let t = req.total_sectors.expect("hook needs total_sectors");
    let req2 = req.clone();
    let r = guard(move || fatfs::verif_format_boot_sector(&req2.options(), t));
    match r {
        Caught::Panic(p) => Err(format!("panicked: {}", p)),
        Caught::Ok(Err(fatfs::Error::InvalidInput)) => Ok(None),
        Caught::Ok(Err(e)) => Err(format!("rejected with {:?}, not InvalidInput", e)),
        Caught::Ok(Ok((bytes, ft))) => {
            let raw = RawBpb::from_sector(&bytes);
            let g = check_geometry(req, &raw)?;
            let w = match ft {
                fatfs::FatType::Fat12 => 12,
                fatfs::FatType::Fat16 => 16,
                fatfs::FatType::Fat32 => 32,
            };
            if w != g.width {
                return Err(format!("the formatter lays the table out as FAT{} but {} clusters make the volume FAT{}", w, g.clusters, g.width));
            }
            Ok(Some((g.width, g.spc)))
        }
    }
}

fn eval_real(req: &FmtReq) -> CaseOut {
    let o = real_format(req);
    let mut out = CaseOut::default();
    out.hash = run::hash_str(&serde_json::to_string(req).unwrap());
    out.nontrivial = req.non_default_options() >= 2;
    out.classes.insert(if o.accepted { "accepted".into() } else { "rejected_invalid_input".into() }, 1);
    if let Some(g) = &o.geom {
        out.classes.insert(format!("fat{}", g.width), 1);
    }
    if let Err(m) = o.verdict {
        out.violation = Some(format!("format {:?}: {}", req, m));
    } else if !o.accepted && req.non_default_options() == 0 && req.effective_total() >= 42 {
        out.violation = Some(format!("format with default options and {} sectors was rejected", req.effective_total()));
    }
    out
}

fn pow2_strategy(lo: u32, hi: u32) -> impl Strategy<Value = u32> {
    (lo..=hi).prop_map(|p| 1u32 << p)
}

fn req_strategy() -> impl Strategy<Value = FmtReq> {
    let size = prop_oneof![
        3 => (5u32..32, -40i64..40).prop_map(|(p, d)| ((1i64 << p) + d).clamp(1, u32::MAX as i64) as u32),
        3 => (0u32..60, any::<u32>()).prop_map(|(p, r)| { let hi = 1u64 << (p / 2 + 3); ((hi + (r as u64 % hi)) as u64).min(u32::MAX as u64) as u32 }),
        1 => Just(u32::MAX),
        1 => 30u32..20000,
        2 => (any::<u32>(), 0u32..8).prop_map(|(r, k)| [4085u32, 4086, 65525, 65526, 8400, 1048576, 532480, 16777216][k as usize].wrapping_add(r % 300)),
    ];
    (
        (prop_oneof![4 => Just(512u16), 1 => Just(1024u16), 1 => Just(2048u16), 1 => Just(4096u16), 1 => Just(8192u16), 1 => Just(32768u16)], prop::option::weighted(0.5, pow2_strategy(9, 31)), prop::option::weighted(0.4, prop::sample::select(vec![12u8, 16, 32]))),
        (prop::option::weighted(0.4, prop_oneof![Just(0u16), Just(1), Just(16), Just(15), Just(112), Just(512), Just(65535), any::<u16>()]), prop::option::weighted(0.3, 1u8..=2), prop::option::weighted(0.2, any::<u8>())),
        (prop::option::weighted(0.1, any::<u16>()), prop::option::weighted(0.1, any::<u16>()), prop::option::weighted(0.1, any::<u8>()), prop::option::weighted(0.2, any::<u32>()), prop::option::weighted(0.3, any::<[u8; 11]>())),
        size,
        any::<bool>(),
        0u16..4096,
    )
        .prop_map(|((bps, bpc, fat), (root_entries, fats, media), (heads, spt, drive, vol_id, label), total, explicit, slack)| {
            let device_bytes = total as u64 * bps as u64 + (slack as u64 % bps as u64);
            // keep device-size-derived requests below 2^32 sectors unless we want the "too many sectors" path
            FmtReq { bps, bpc, fat, root_entries, fats, media, heads, spt, drive, vol_id, label, total_sectors: if explicit { Some(total) } else { None }, device_bytes }
        })
}

/// cost guard for real formats: number of FAT bytes that will be written
fn affordable(req: &FmtReq, limit_fat_bytes: u64) -> bool {
    let total = req.effective_total();
    let spc = req.bpc.map(|b| (b as u64 / req.bps as u64).max(1)).unwrap_or(1);
    let clusters = total / spc;
    clusters * 4 * 2 <= limit_fat_bytes
}

pub fn replay(v: &serde_json::Value) -> Result<Option<String>, String> {
    let req: FmtReq = serde_json::from_value(v["case"].clone()).map_err(|e| format!("bad format request: {}", e))?;
    if v["kind"] == "format_hook" {
        return Ok(hook_eval(&req).err().map(|e| format!("format (hook) {:?}: {}", req, e)));
    }
    Ok(eval_real(&req).violation)
}

/// sweep [lo, hi] of total sector counts through the hook with `req` as template; returns (evaluations, accepted, failure)
fn sweep(name: &str, template: &FmtReq, lo: u64, hi: u64, stride: u64, must_accept_from: Option<u64>) -> Block {
    let n = (hi - lo) / stride + 1;
    let chunks = 4096u64.min(n);
    let per = (n + chunks - 1) / chunks;
    let mut b = run::run_indexed(name, chunks, |ci, blk| {
        let a = (ci * per).min(n);
        let z = ((ci + 1) * per).min(n);
        let mut accepted = 0u64;
        let mut last: Option<(u8, u64)> = None;
        for i in a..z {
            let t = lo + i * stride;
            let mut req = template.clone();
            req.total_sectors = Some(t as u32);
            match hook_eval(&req) {
                Err(m) => {
                    return Some(Failure { message: format!("format (hook) {:?}: {}", req, m), case: serde_json::to_value(&req).unwrap(), kind: "format_hook".into() });
                }
                Ok(None) => {
                    if let Some(from) = must_accept_from {
                        if t >= from {
                            return Some(Failure { message: format!("format with default options and {} sectors of 512 bytes was rejected", t), case: serde_json::to_value(&req).unwrap(), kind: "format_hook".into() });
                        }
                    }
                    last = None;
                }
                Ok(Some(cur)) => {
                    accepted += 1;
                    if last.is_some() && last != Some(cur) {
                        // a heuristic / width threshold: a non-trivial neighbourhood
                        blk.nontrivial.insert(t);
                        if blk.samples.len() < 3 {
                            blk.samples.push(serde_json::json!({"total_sectors": t, "before": format!("{:?}", last), "after": format!("{:?}", cur)}));
                        }
                    }
                    last = Some(cur);
                }
            }
        }
        blk.evaluations += z - a;
        *blk.classes.entry("accepted".into()).or_insert(0) += accepted;
        None
    });
    b.exhaustive = stride == 1;
    b
}

/// class of a size under a template: rejected, or (width, sectors per cluster); Err = violation
fn size_class(template: &FmtReq, t: u64) -> Result<Option<(u8, u64)>, (FmtReq, String)> {
    let mut req = template.clone();
    req.total_sectors = Some(t as u32);
    hook_eval(&req).map_err(|m| (req, m))
}

/// Locate every size at which the outcome class of `template` changes (coarse geometric grid + bisection) and sweep
/// a window of +-`half` sizes around each boundary: the integer-arithmetic cliffs of the sizing heuristics and of
/// the FAT-width limits are where off-by-one mistakes live.
fn boundary_windows(name: &str, template: &FmtReq, half: u64) -> Block {
    let mut b = Block::new(name);
    let mut grid: Vec<u64> = Vec::new();
    let mut x = 24.0f64;
    while x < u32::MAX as f64 {
        grid.push(x as u64);
        x *= 1.015;
    }
    grid.push(u32::MAX as u64);
    grid.dedup();
    let mut boundaries: Vec<u64> = Vec::new();
    let mut prev: Option<(u64, Option<(u8, u64)>)> = None;
    for t in grid {
        let c = match size_class(template, t) {
            Ok(c) => c,
            Err((req, m)) => {
                b.failure = Some(Failure { message: format!("format (hook) {:?}: {}", req, m), case: serde_json::to_value(&req).unwrap(), kind: "format_hook".into() });
                return b;
            }
        };
        b.evaluations += 1;
        if let Some((pt, pc)) = prev {
            if pc != c {
                // bisect to the first size with a class different from pc
                let (mut lo, mut hi) = (pt, t);
                while hi - lo > 1 {
                    let mid = lo + (hi - lo) / 2;
                    b.evaluations += 1;
                    match size_class(template, mid) {
                        Ok(mc) => {
                            if mc == pc {
                                lo = mid;
                            } else {
                                hi = mid;
                            }
                        }
                        Err((req, m)) => {
                            b.failure = Some(Failure { message: format!("format (hook) {:?}: {}", req, m), case: serde_json::to_value(&req).unwrap(), kind: "format_hook".into() });
                            return b;
                        }
                    }
                }
                boundaries.push(hi);
            }
        }
        prev = Some((t, c));
    }
    for bd in &boundaries {
        let lo = bd.saturating_sub(half).max(1);
        let hi = (bd + half).min(u32::MAX as u64);
        for t in lo..=hi {
            b.evaluations += 1;
            match size_class(template, t) {
                Ok(_) => {}
                Err((req, m)) => {
                    b.failure = Some(Failure { message: format!("format (hook) {:?}: {}", req, m), case: serde_json::to_value(&req).unwrap(), kind: "format_hook".into() });
                    return b;
                }
            }
        }
        b.nontrivial.insert(*bd ^ run::hash_str(name));
        if b.samples.len() < 3 {
            b.samples.push(serde_json::json!({"template": template, "class_changes_at_total_sectors": bd}));
        }
    }
    *b.classes.entry("boundaries_found".into()).or_insert(0) += boundaries.len() as u64;
    b
}

pub fn run(tier: Tier, seed: u64) -> i32 {
    let rule = "real formats: FormatVolumeOptions from strategies over every builder method (sector 512..32768, cluster 512..2^31, forced width, any root-entry count, 1-2 FATs, media, geometry, drive, id, label) x sizes (powers of two +-40, log-uniform, width thresholds, 2^32-1, device-size-derived) on sparse devices, each accepted result decoded and checked by refdec + strict mount; hook sweeps: sector counts through the guarded boot-sector hook (cross-validated against every real format) - quick: windows of +-4096 around every power of two and every observed threshold plus a 2M-point stratified sample; thorough: EVERY count 1..2^32-1 for default options and strided sweeps for 4096-byte sectors, 1 FAT and each forced width; non-trivial = request with >= 2 non-default options (real formats) / a size at which the chosen width or cluster size changes (sweeps); distinct by (options, size)";
    let mut rep = Report::new("C06", tier, seed, "exploration", rule);
    rep.assume("the boot-sector hook returns what format_volume writes to sector 0 (re-checked on every real format of the run)");
    rep.assume("real formats whose FATs exceed 64 MiB (quick) / 1 GiB (thorough) are checked through the hook only; the largest volumes are formatted for real in C20");
    // regression
    let mut reg = Block::new("regress");
    for f in run::regress_files("C06") {
        if let Ok(v) = run::load_replay(&f) {
            let mut out = CaseOut::default();
            out.hash = run::hash_str(&f);
            out.nontrivial = true;
            if let Ok(Some(m)) = replay(&v) {
                out.violation = Some(m);
            }
            reg.record(&out, || v["case"].clone());
            if let Some(m) = out.violation {
                if reg.failure.is_none() {
                    reg.failure = Some(Failure { message: format!("regression case {}: {}", f, m), case: v["case"].clone(), kind: v["kind"].as_str().unwrap_or("format").to_string() });
                }
            }
        }
    }
    rep.add(reg);
    // fixed boundary list of real formats with default options
    let mut fixed = Block::new("real_formats_default_options_boundaries");
    let mut sizes: Vec<u32> = vec![1, 8, 41, 42, 43, 50, 100, 2880, 8400, 8401, 32768, 65536, 1 << 20, (1 << 20) + 1, 532480, 532481, 1 << 24, (1 << 24) + 1, 1 << 27];
    if tier == Tier::Thorough {
        sizes.extend_from_slice(&[1 << 28, 1 << 30, u32::MAX]);
    }
    for t in sizes {
        let req = FmtReq::default_with(t);
        let mut out = eval_real(&req);
        out.nontrivial = true;
        fixed.record(&out, || serde_json::to_value(&req).unwrap());
        if let Some(m) = out.violation {
            if fixed.failure.is_none() {
                fixed.failure = Some(Failure { message: m, case: serde_json::to_value(&req).unwrap(), kind: "format".into() });
            }
        }
    }
    // size taken from the storage (total_sectors not given): the documented range is 42 .. 2^32-1 sectors of 512 bytes
    for (bytes, must_accept) in [
        (41u64 * 512 + 511, Some(false)),
        (42 * 512, Some(true)),
        (42 * 512 + 511, Some(true)),
        (1 << 20, Some(true)),
        ((u32::MAX as u64 - 1) * 512, Some(true)),
        (u32::MAX as u64 * 512, Some(true)),
        (u32::MAX as u64 * 512 + 511, Some(true)),
        ((1u64 << 32) * 512, Some(false)),
        ((1u64 << 32) * 512 + 4096, Some(false)),
    ] {
        if tier == Tier::Quick && bytes > (1 << 30) && bytes != u32::MAX as u64 * 512 + 511 && bytes != (1u64 << 32) * 512 {
            continue;
        }
        let mut req = FmtReq::default_with(0);
        req.total_sectors = None;
        req.device_bytes = bytes;
        let o = real_format(&req);
        let mut out = CaseOut::default();
        out.hash = run::hash_str(&format!("devsize{}", bytes));
        out.nontrivial = true;
        out.violation = match (&o.verdict, must_accept) {
            (Err(m), _) => Some(format!("format {:?}: {}", req, m)),
            (Ok(()), Some(want)) if want != o.accepted => Some(format!("format with the size taken from a storage of {} bytes ({} sectors of 512 bytes) was {}, default options must {} it", bytes, bytes / 512, if o.accepted { "accepted" } else { "rejected" }, if want { "accept" } else { "reject" })),
            _ => None,
        };
        fixed.record(&out, || serde_json::to_value(&req).unwrap());
        if let Some(m) = out.violation {
            if fixed.failure.is_none() {
                fixed.failure = Some(Failure { message: m, case: serde_json::to_value(&req).unwrap(), kind: "format".into() });
            }
        }
    }
    rep.add(fixed);
    // random real formats
    if !rep.failed() {
        let limit = tier.pick(64u64 << 20, 1u64 << 30);
        let n = tier.pick(9000u32, 60000u32);
        let b = run::run_random("real_formats_generated_options", seed, n, "format", || run::boxed(req_strategy().prop_filter("affordable", move |r| affordable(r, limit))), |r: &FmtReq| eval_real(r));
        rep.add(b);
    }
    // hook sweeps
    if !rep.failed() {
        let def = FmtReq::default_with(0);
        if tier == Tier::Thorough {
            rep.add(sweep("hook_sweep_default_options_all_sizes", &def, 1, u32::MAX as u64, 1, Some(42)));
        } else {
            // windows around powers of two
            for p in 5..32u32 {
                if rep.failed() {
                    break;
                }
                let c = 1u64 << p;
                let lo = c.saturating_sub(4096).max(1);
                let hi = (c + 4096).min(u32::MAX as u64);
                rep.add(sweep(&format!("hook_window_2^{}", p), &def, lo, hi, 1, Some(42)));
            }
            if !rep.failed() {
                rep.add(sweep("hook_window_top", &def, u32::MAX as u64 - 8192, u32::MAX as u64, 1, Some(42)));
            }
            if !rep.failed() {
                rep.add(sweep("hook_small_sizes_1_to_300000", &def, 1, 300_000, 1, Some(42)));
            }
            if !rep.failed() {
                // stratified sample: 2M points with a seed-dependent phase
                let stride = 2147u64;
                let phase = Mix::new(seed, 6).below(stride);
                rep.add(sweep("hook_stratified_sample_default_options", &def, 1 + phase, u32::MAX as u64, stride, Some(42)));
            }
        }
    }
    // boundary-directed windows for option templates (explicit cluster sizes, forced widths, sector sizes, FAT
    // counts, root sizes): every size at which the outcome class changes, +-300 sectors
    if !rep.failed() {
        let mut templates: Vec<(String, FmtReq)> = Vec::new();
        let base = FmtReq::default_with(0);
        templates.push(("default".into(), base.clone()));
        for bpc in [512u32, 1024, 2048, 4096, 8192, 32768] {
            for fat in [None, Some(12u8), Some(16), Some(32)] {
                let mut r = base.clone();
                r.bpc = Some(bpc);
                r.fat = fat;
                templates.push((format!("bpc{}_fat{:?}", bpc, fat), r));
            }
        }
        for fat in [12u8, 16, 32] {
            let mut r = base.clone();
            r.fat = Some(fat);
            templates.push((format!("forced_fat{}", fat), r));
        }
        for (bps, bpc) in [(1024u16, None), (4096, None), (4096, Some(4096u32)), (2048, Some(8192))] {
            let mut r = base.clone();
            r.bps = bps;
            r.bpc = bpc;
            templates.push((format!("bps{}_bpc{:?}", bps, bpc), r));
        }
        for (fats, root) in [(1u8, 512u16), (2, 16), (1, 1), (2, 0x7FF0), (2, 100)] {
            let mut r = base.clone();
            r.fats = Some(fats);
            r.root_entries = Some(root);
            r.bpc = Some(512);
            templates.push((format!("fats{}_root{}", fats, root), r));
        }
        let tl = templates.clone();
        let blocks = std::sync::Mutex::new(Vec::new());
        let _ = run::run_indexed("boundary_windows_dispatch", tl.len() as u64, |i, _| {
            let (n, t) = &tl[i as usize];
            let b = boundary_windows(&format!("boundary_windows_{}", n), t, 300);
            blocks.lock().unwrap().push((i, b));
            None
        });
        let mut bl = blocks.into_inner().unwrap();
        bl.sort_by_key(|x| x.0);
        let mut merged = Block::new("boundary_windows_all_templates");
        for (_, b) in bl {
            merged.merge(b);
        }
        rep.add(merged);
    }
    if !rep.failed() {
        let stride = tier.pick(40009u64, 257u64);
        let mut variants: Vec<(String, FmtReq)> = Vec::new();
        let mut r = FmtReq::default_with(0);
        r.bps = 4096;
        variants.push(("hook_sweep_4096_byte_sectors".into(), r));
        let mut r = FmtReq::default_with(0);
        r.fats = Some(1);
        variants.push(("hook_sweep_one_fat".into(), r));
        for f in [12u8, 16, 32] {
            let mut r = FmtReq::default_with(0);
            r.fat = Some(f);
            variants.push((format!("hook_sweep_forced_fat{}", f), r));
            // forced widths on large sectors: volumes of up to 8 / 16 TiB, where the sizing heuristics work on 64-bit
            // byte counts that no longer fit 32 bits
            for bps in [2048u16, 4096] {
                let mut r = FmtReq::default_with(0);
                r.fat = Some(f);
                r.bps = bps;
                variants.push((format!("hook_sweep_forced_fat{}_{}_byte_sectors", f, bps), r));
            }
        }
        let mut r = FmtReq::default_with(0);
        r.bpc = Some(4096);
        variants.push(("hook_sweep_4k_clusters".into(), r));
        let mut r = FmtReq::default_with(0);
        r.bps = 4096;
        r.bpc = Some(4096);
        variants.push(("hook_sweep_4096_sectors_4k_clusters".into(), r));
        for (name, v) in variants {
            if rep.failed() {
                break;
            }
            let phase = Mix::new(seed, run::hash_str(&name)).below(stride);
            rep.add(sweep(&name, &v, 1 + phase, u32::MAX as u64, stride, None));
        }
    }
    rep.finish()
}
