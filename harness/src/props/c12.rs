//! C12 - the dirty bit brackets structural changes; clean unmount restores it
use super::hist::{self, HistProp};
use crate::gen::{Case, GenCfg, K};
use crate::ops::{Aspect, Op, RunCfg, Trace};
use crate::run::{self, Block, Report, Tier};
use crate::vol::VolCfg;

fn nontrivial(t: &Trace) -> bool {
    t.has("mutation") && (t.has("abandoned_mount_reports_dirty") || t.has("remount") || t.has("remount_by_drop"))
}

pub fn prop() -> HistProp {
    let mut rc = RunCfg::new(&[Aspect::Dirty, Aspect::Panic, Aspect::Budget]);
    rc.dirty = true;
    rc.flush_each = false;
    let mut gc = GenCfg::mixed();
    gc.max_ops = 14;
    gc.status0 = vec![0, 0, 1, 2, 3];
    gc.weights.push((K::SetTimes, 6));
    gc.weights.push((K::Remount, 6));
    gc.tiny_free_pct = 20;
    gc.gen_geom_pct = 25;
    HistProp {
        id: "C12",
        level: "exploration",
        rule: "random short histories over every mutating call kind (first mutation varied: create, mkdir, remove, rename, write, truncate, set_*), initial status byte in {0,1,2,3}, FAT12/16 (offset 0x25) and FAT32 (offset 0x41); every call boundary is an abandonment point: 'changed' is decided independently by diffing the raw image against the mount-time image outside status byte, FS-info and slot timestamps; changed => bit 0 of the on-disk status byte set and a fresh mount of a copy reports dirty(); bits set at mount stay set; after unmount() or drop the byte equals its mount-time value; non-trivial = a structural change followed by an abandonment check or a remount; distinct by hash(config, ops)",
        run_cfg: rc,
        gen_cfg: gc,
        nontrivial,
        quick_cases: 8000,
        thorough_cases: 150000,
        pressure_cases: (2000, 40000),
        assumptions: vec!["a write-back of timestamps alone is not a structural change"],
    }
}

/// populate, unmount cleanly, then - in a fresh session in which nothing else has happened - exactly one mutating
/// operation of each kind, followed by handle drops; the status byte is judged at every call boundary
pub fn first_mutation_scripts(cs: u32) -> Vec<(&'static str, Vec<Op>)> {
    let of = |p: &str, k: u8| Op::OpenFile { via: 0, path: p.into(), keep: k };
    let seek = |o: i64| Op::Seek { h: 0, whence: 0, off: o };
    vec![
        ("truncate_inside_last_cluster", vec![of("two clusters.bin", 1), seek(cs as i64 + 7), Op::Truncate { h: 0 }, Op::CloseFile { h: 0 }]),
        ("truncate_inside_only_cluster", vec![of("small.txt", 1), seek(3), Op::Truncate { h: 0 }, Op::CloseFile { h: 0 }]),
        ("truncate_at_cluster_boundary", vec![of("two clusters.bin", 1), seek(cs as i64), Op::Truncate { h: 0 }, Op::CloseFile { h: 0 }]),
        ("truncate_to_zero", vec![of("two clusters.bin", 1), Op::Truncate { h: 0 }, Op::CloseFile { h: 0 }]),
        ("truncate_at_end_changes_nothing", vec![of("small.txt", 1), Op::Seek { h: 0, whence: 2, off: 0 }, Op::Truncate { h: 0 }, Op::CloseFile { h: 0 }]),
        ("overwrite_in_place", vec![of("two clusters.bin", 1), seek(5), Op::Write { h: 0, len: 9, seed: 3 }, Op::CloseFile { h: 0 }]),
        ("append_inside_cluster", vec![of("small.txt", 1), Op::Seek { h: 0, whence: 2, off: 0 }, Op::Write { h: 0, len: 4, seed: 4 }, Op::Flush { h: 0 }]),
        ("append_new_cluster", vec![of("two clusters.bin", 1), Op::Seek { h: 0, whence: 2, off: 0 }, Op::Write { h: 0, len: cs, seed: 5 }, Op::CloseFile { h: 0 }]),
        ("write_to_empty_file", vec![of("empty", 1), Op::Write { h: 0, len: 1, seed: 6 }, Op::CloseFile { h: 0 }]),
        ("set_times_only_is_not_structural", vec![of("small.txt", 1), Op::SetTimes { h: 0, which: 1, ms: 700_000_000_000 }, Op::CloseFile { h: 0 }]),
        ("read_only", vec![of("small.txt", 1), Op::Read { h: 0, len: 100 }, Op::CloseFile { h: 0 }, Op::Stats, Op::List { via: 0 }]),
        ("create_in_root", vec![Op::CreateFile { via: 0, path: "n".into(), keep: 0 }]),
        ("create_long_name_in_subdir", vec![Op::CreateFile { via: 0, path: "sub/a new file with a long name.txt".into(), keep: 0 }]),
        ("create_existing_opens_only", vec![Op::CreateFile { via: 0, path: "small.txt".into(), keep: 0 }]),
        ("mkdir_root", vec![Op::CreateDir { via: 0, path: "nd".into(), keep: 0 }]),
        ("mkdir_sub", vec![Op::CreateDir { via: 0, path: "sub/nd".into(), keep: 0 }]),
        ("remove_file", vec![Op::Remove { via: 0, path: "small.txt".into() }]),
        ("remove_empty_file", vec![Op::Remove { via: 0, path: "empty".into() }]),
        ("remove_dir", vec![Op::Remove { via: 0, path: "sub/inner".into() }]),
        ("rename_in_place", vec![Op::Rename { via: 0, src: "small.txt".into(), dvia: 0, dst: "tiny.txt".into() }]),
        ("move_file", vec![Op::Rename { via: 0, src: "small.txt".into(), dvia: 0, dst: "sub/small.txt".into() }]),
        ("move_dir", vec![Op::Rename { via: 0, src: "sub/inner".into(), dvia: 0, dst: "inner".into() }]),
        ("failed_remove_changes_nothing", vec![Op::Remove { via: 0, path: "sub".into() }, Op::Remove { via: 0, path: "missing".into() }]),
        ("failed_create_invalid_name", vec![Op::CreateFile { via: 0, path: "a:b".into(), keep: 0 }, Op::CreateDir { via: 0, path: "x*y".into(), keep: 0 }]),
    ]
}

pub fn populate_ops(cs: u32) -> Vec<Op> {
    vec![
        Op::CreateDir { via: 0, path: "sub".into(), keep: 0 },
        Op::CreateDir { via: 0, path: "sub/inner".into(), keep: 0 },
        Op::CreateFile { via: 0, path: "small.txt".into(), keep: 1 },
        Op::Write { h: 0, len: 10, seed: 1 },
        Op::CloseFile { h: 0 },
        Op::CreateFile { via: 0, path: "two clusters.bin".into(), keep: 1 },
        Op::Write { h: 0, len: cs, seed: 2 },
        Op::Write { h: 0, len: 40, seed: 2 },
        Op::CloseFile { h: 0 },
        Op::CreateFile { via: 0, path: "empty".into(), keep: 0 },
        Op::Remount { how: 0 },
    ]
}

pub fn run(tier: Tier, seed: u64) -> i32 {
    let hp = prop();
    let mut rep = Report::new(hp.id, tier, seed, hp.level, hp.rule);
    rep.rule.push_str("; plus scripted first mutations: on a populated, cleanly unmounted volume of every width and every initial status byte, each of 24 single operations (truncate inside the last cluster / at a boundary / to zero / at the end, overwrite, append, write to an empty file, timestamps only, read only, create, mkdir, remove, rename, move, failing calls) as the only thing a fresh session does; plus the same scripts with a transient storage fault at EVERY device call of the first mutation (the faulted call is not judged), followed by a second mutation after which the bit must be on the disk");
    for a in &hp.assumptions {
        rep.assume(a);
    }
    let kb = hist::known_block(&hp, &mut rep);
    rep.add(kb);
    rep.add(hist::regress_block(&hp));
    let mut vols: Vec<VolCfg> = Vec::new();
    for p in [1usize, 3, 5, 8, 12] {
        for st in [0u8, 1, 2, 3] {
            let mut v = VolCfg::from_preset(p);
            v.status0 = st;
            vols.push(v);
        }
    }
    for g in [0usize, 5, 6] {
        vols.push(VolCfg::from_gen_preset(g));
    }
    let hp_ref = &hp;
    let n_scripts = first_mutation_scripts(512).len();
    let mut b: Block = run::run_indexed("scripted_first_mutations", (vols.len() * n_scripts) as u64, |i, blk| {
        let v = &vols[i as usize / n_scripts];
        let cs = v.cluster_size();
        let (name, script) = first_mutation_scripts(cs).swap_remove(i as usize % n_scripts);
        let mut ops = populate_ops(cs);
        ops.extend(script);
        let case = Case { vol: v.clone(), ops };
        let mut out = hist::eval_case(hp_ref, &case);
        out.nontrivial = true;
        out.hash = run::hash_str(&format!("{}|{:?}", name, v));
        blk.record(&out, || serde_json::json!({"script": name, "vol": v}));
        out.violation.map(|m| run::Failure { message: format!("first mutation '{}': {}", name, m), case: serde_json::to_value(&case).unwrap(), kind: "history".into() })
    });
    b.exhaustive = true;
    rep.add(b);
    // transient storage fault during the first mutation of a session, at every device call of it; the session then
    // carries on with a second mutation. The faulted call itself is not judged (it was cut short and reported the
    // error), but once a later modifying call has succeeded the bit has to be on the disk.
    if !rep.failed() {
        let mut fvols: Vec<VolCfg> = [1usize, 3, 8, 12].iter().map(|p| VolCfg::from_preset(*p)).collect();
        fvols.push(VolCfg::from_gen_preset(5));
        // storage that splits transfers: a fault can hit the continuation of a table / directory field
        for (p, sh) in [(1usize, 9u8), (8, 33)] {
            let mut v = VolCfg::from_preset(p);
            v.short_io = sh;
            fvols.push(v);
        }
        if tier == Tier::Thorough {
            fvols.push(VolCfg::from_preset(5));
            fvols.push(VolCfg::from_preset(13));
            fvols.push(VolCfg::from_gen_preset(0));
        }
        let kmax: u16 = tier.pick(700, 5000);
        let fb: Block = run::run_indexed("transient_fault_during_first_mutation_then_second_mutation", (fvols.len() * n_scripts) as u64, |i, blk| {
            let v = &fvols[i as usize / n_scripts];
            let cs = v.cluster_size();
            let (name, script) = first_mutation_scripts(cs).swap_remove(i as usize % n_scripts);
            for k in 0..kmax {
                let mut ops = populate_ops(cs);
                ops.push(Op::FaultNext { k, hold: script.len() as u8, interrupted: false, burst: 0 });
                ops.extend(script.iter().cloned());
                ops.push(Op::CreateFile { via: 0, path: "zz after the fault".into(), keep: 2 });
                ops.push(Op::Write { h: 1, len: 10, seed: 9 });
                ops.push(Op::CloseFile { h: 1 });
                let case = Case { vol: v.clone(), ops };
                let mut out = hist::eval_case(hp_ref, &case);
                let fired = out.classes.contains_key("cases_with_fault_fired");
                out.nontrivial = fired;
                out.hash = run::hash_str(&format!("fault|{}|{}|{:?}", name, k, v));
                blk.record(&out, || serde_json::json!({"script": name, "fault_at_device_call": k, "vol": v}));
                if let Some(m) = out.violation {
                    return Some(run::Failure { message: format!("transient fault at device call {} of first mutation '{}': {}", k, name, m), case: serde_json::to_value(&case).unwrap(), kind: "history".into() });
                }
                if !fired {
                    // k is past the last device call of the scripted operation: every position has been enumerated
                    break;
                }
            }
            None
        });
        rep.add(fb);
    }
    if !rep.failed() {
        rep.add(hist::random_block(&hp, "random_histories", seed, tier.pick(hp.quick_cases, hp.thorough_cases)));
    }
    if !rep.failed() {
        if let Some(b) = hist::pressure_block(&hp, seed, tier) {
            rep.add(b);
        }
    }
    rep.finish()
}
