//! C12 - the dirty bit brackets structural changes; clean unmount restores it
use super::hist::HistProp;
use crate::gen::{GenCfg, K};
use crate::ops::{Aspect, RunCfg, Trace};

fn nontrivial(t: &Trace) -> bool {
    t.has("mutation") && (t.has("abandoned_mount_reports_dirty") || t.has("remount") || t.has("remount_by_drop"))
}

pub fn prop() -> HistProp {
    let mut rc = RunCfg::new(&[Aspect::Dirty, Aspect::Panic, Aspect::Budget]);
    rc.dirty = true;
    rc.flush_each = false;
    rc.known.dst_inside_src = true;
    let mut gc = GenCfg::mixed();
    gc.max_ops = 14;
    gc.status0 = vec![0, 0, 1, 2, 3];
    gc.weights.push((K::SetTimes, 6));
    gc.weights.push((K::Remount, 6));
    gc.tiny_free_pct = 20;
    gc.gen_geom_pct = 25;
    HistProp {
        id: "C12",
        level: "exploration",
        rule: "random short histories over every mutating call kind (first mutation varied: create, mkdir, remove, rename, write, truncate, set_*), initial status byte in {0,1,2,3}, FAT12/16 (offset 0x25) and FAT32 (offset 0x41); every call boundary is an abandonment point: 'changed' is decided independently by diffing the raw image against the mount-time image outside status byte, FS-info and slot timestamps; changed => bit 0 of the on-disk status byte set and a fresh mount of a copy reports dirty(); bits set at mount stay set; after unmount() or drop the byte equals its mount-time value; non-trivial = a structural change followed by an abandonment check or a remount; distinct by hash(config, ops)",
        run_cfg: rc,
        gen_cfg: gc,
        nontrivial,
        quick_cases: 8000,
        thorough_cases: 150000,
        assumptions: vec!["a write-back of timestamps alone is not a structural change"],
    }
}
