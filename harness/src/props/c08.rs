//! C08 - any specification-valid volume made by someone else is read faithfully and modified minimally
use crate::dev::{MemDev, Store};
use crate::imggen::{self, Freedoms, Pool};
use crate::ops::{classify, Region};
use crate::refdec::{self, fold, Decoded, DirNode, Fk};
use crate::run::{self, Block, CaseOut, Failure, Report, Tier};
use crate::session::{self, guard, Caught, Clock, MountOpts, Session};
use crate::tree::{self, CmpMask, TNode, Ts};
use crate::vol::{self, VolCfg};
use fatfs::{Read, Seek, Write};
use proptest::prelude::*;
use serde::{Deserialize, Serialize};
use std::collections::HashMap;

#[derive(Clone, Debug, Serialize, Deserialize)]
pub struct ImgCase {
    /// index into the geometry table below
    pub geom: u8,
    pub freedoms: Freedoms,
    pub entropy: Vec<u32>,
    pub objects: u8,
    pub mutation: u8,
    pub mut_entropy: Vec<u32>,
}

fn geoms() -> Vec<VolCfg> {
    let mut v: Vec<VolCfg> = (0..vol::GEN_PRESETS.len()).map(VolCfg::from_gen_preset).collect();
    // more FAT12/16 variety through imggen with default-ish geometry
    for p in [0usize, 2, 3, 4, 5, 7, 10, 11] {
        let mut c = VolCfg::from_preset(p);
        c.gen = Some(imggen::GenGeom { rsvd: 1 + (p as u16 % 3), eoc: (p % 8) as u8, ..Default::default() });
        v.push(c);
    }
    // cluster counts exactly on the FAT-width limits (largest FAT12, smallest / largest FAT16, smallest FAT32)
    for i in 0..vol::BOUNDARY_CLUSTERS.len() {
        v.push(VolCfg::boundary(i));
    }
    v
}

fn truth_lookup<'a>(nodes: &'a [TNode], path: &[String]) -> Option<&'a TNode> {
    let (first, rest) = path.split_first()?;
    let n = nodes.iter().find(|n| n.name_string() == *first)?;
    if rest.is_empty() {
        Some(n)
    } else {
        truth_lookup(&n.children, rest)
    }
}

fn all_paths(nodes: &[TNode], prefix: &mut Vec<String>, files: &mut Vec<Vec<String>>, dirs: &mut Vec<Vec<String>>) {
    for n in nodes {
        prefix.push(n.name_string());
        if n.is_dir {
            dirs.push(prefix.clone());
            all_paths(&n.children, prefix, files, dirs);
        } else {
            files.push(prefix.clone());
        }
        prefix.pop();
    }
}

fn lookup_safe(p: &[String]) -> bool {
    // names with replacement characters (OEM bytes) cannot be looked up by name; '/' never occurs
    p.iter().all(|c| !c.contains('\u{FFFD}') && !c.is_empty())
}

fn truth_mut<'a>(nodes: &'a mut Vec<TNode>, path: &[String]) -> Option<&'a mut Vec<TNode>> {
    // children vector of the directory at `path` ([] = root)
    let mut cur = nodes;
    for comp in path {
        let n = cur.iter_mut().find(|n| n.name_string() == *comp)?;
        cur = &mut n.children;
    }
    Some(cur)
}

struct Mutation {
    what: String,
    /// paths (as components) of objects the mutation may change: files, and directories whose slots may change
    affected_files: Vec<Vec<String>>,
    affected_dirs: Vec<Vec<String>>,
}

pub fn eval(c: &ImgCase) -> CaseOut {
    let mut out = CaseOut::default();
    out.hash = run::hash_str(&serde_json::to_string(c).unwrap_or_default());
    let gs = geoms();
    let cfg = &gs[c.geom as usize % gs.len()];
    let dev0 = match vol::make_device(cfg) {
        Ok(d) => d,
        Err(e) => {
            out.violation = Some(format!("harness: {}", e));
            return out;
        }
    };
    let mut img = dev0.take_store();
    let truth = match imggen::populate(&mut img, &c.entropy, &c.freedoms, 2 + c.objects as usize % 24) {
        Ok(t) => t,
        Err(e) => {
            out.classes.insert(format!("builder_gave_up:{}", e), 1);
            return out;
        }
    };
    out.nontrivial = c.freedoms.count() >= 3 && truth.has_fragmented_file;
    out.classes.insert(format!("fat{}", cfg.fat), 1);
    out.classes.insert("files".into(), truth.n_files as u64);
    out.classes.insert("dirs".into(), truth.n_dirs as u64);
    if truth.has_fragmented_file {
        out.classes.insert("images_with_fragmented_file".into(), 1);
    }
    // 0. imggen vs refdec (both independent of the library): they must agree, otherwise the harness is wrong
    let dec = match refdec::decode(&img, refdec::DecodeOpts::default()) {
        Ok(d) => d,
        Err(e) => {
            out.violation = Some(format!("HARNESS: refdec cannot decode the generated image: {}", e));
            return out;
        }
    };
    // orphan long-name runs are deliberate; in front of a short-only entry refdec reports them as a broken run
    if let Some(f) = dec.findings.iter().find(|f| !(c.freedoms.orphan_runs && (f.kind == Fk::Orphan || f.kind == Fk::LfnRun))) {
        out.violation = Some(format!("HARNESS: refdec finds the generated image invalid: {:?} {}", f.kind, f.what));
        return out;
    }
    let mask = CmpMask { short: true, attr: true, size: true, times: true, data: true, dots: false, dir_times: true };
    if let Err(e) = tree::compare("imggen's ground truth", &truth.root, "refdec", &tree::refdec_tree(&dec), mask, "/") {
        out.violation = Some(format!("HARNESS: {}", e));
        return out;
    }
    let g = dec.geom.clone();
    // 1. read through the library
    let dev = MemDev::new(img.clone());
    dev.with(|d| d.budget = 30_000_000);
    // one storage in four makes short transfers (legal for the storage traits): reads through the library, and the
    // mutation below, must not depend on transfer sizes
    let short_seed = c.mut_entropy.first().copied().unwrap_or(0) as u64;
    if short_seed % 4 == 0 {
        dev.with(|d| d.short_io = short_seed.wrapping_mul(0x9E37_79B9_7F4A_7C15) | 1);
        out.classes.insert("images_on_short_transfer_storage".into(), 1);
    }
    let mut pool = Pool::new(&c.mut_entropy);
    let chunk = [1usize, 7, 100, 511, 512, 513, 4096, 70000][pool.below(8) as usize];
    let truth_label = truth.label;
    let free_expected = dec.free;
    // a stale (but in-range) count in the FAT32 information sector is what a clean mount reports - documented as
    // "may be incorrect"; the true count is accepted too (a library is free to recount)
    let stored_free: Option<u64> = if g.width == 32 && g.raw.fs_info != 0 && c.freedoms.stale_count { Some(refdec::rd32(&img, g.fsinfo_off() + 488) as u64) } else { None };
    if stored_free.map_or(false, |s| s != free_expected) {
        out.classes.insert("images_with_stale_fsinfo_free_count".into(), 1);
    }
    let devh = dev.handle();
    let width = g.width;
    // ground truth of the status flags: boot-sector status byte OR the two flag bits of table entry 1 (FAT16/32)
    // without the 0x29 extended boot signature the volume id / label / type fields of the boot sector are not there
    let has_ext_sig = refdec::rd8(&img, g.status_off() + 1) == 0x29;
    let e1 = g.fat_raw(&img, g.active_copy(), 1);
    let st_byte = refdec::rd8(&img, g.status_off());
    let (want_dirty, want_ioerr) = match width {
        16 => (st_byte & 1 != 0 || e1 & (1 << 15) == 0, st_byte & 2 != 0 || e1 & (1 << 14) == 0),
        32 => (st_byte & 1 != 0 || e1 & (1 << 27) == 0, st_byte & 2 != 0 || e1 & (1 << 26) == 0),
        _ => (st_byte & 1 != 0, st_byte & 2 != 0),
    };
    let r = guard(move || {
        let clock = Clock::new(800_000_000_000);
        let s = Session::mount(&devh, &clock, &MountOpts::default()).map_err(|e| format!("mount failed: {:?}", e))?;
        let fs = s.fs();
        let w = match fs.fat_type() {
            fatfs::FatType::Fat12 => 12,
            fatfs::FatType::Fat16 => 16,
            fatfs::FatType::Fat32 => 32,
        };
        if w != width {
            return Err(format!("library sees FAT{}, the volume is FAT{}", w, width));
        }
        if has_ext_sig && fs.volume_id() != 0xCAFE_F00D {
            return Err(format!("volume id {:#x}", fs.volume_id()));
        }
        let lab = fs.read_volume_label_from_root_dir_as_bytes().map_err(|e| format!("label: {:?}", e))?;
        if lab != truth_label {
            return Err(format!("root-directory label {:?}, ground truth {:?}", lab, truth_label));
        }
        let st = fs.stats().map_err(|e| format!("stats: {:?}", e))?;
        if st.free_clusters() as u64 != free_expected && Some(st.free_clusters() as u64) != stored_free {
            return Err(format!("stats reports {} free clusters, the table has {}", st.free_clusters(), free_expected));
        }
        let fl = fs.read_status_flags().map_err(|e| format!("status flags: {:?}", e))?;
        if fl.dirty() != want_dirty || fl.io_error() != want_ioerr {
            return Err(format!("status flags dirty={} io_error={}, the volume's boot sector and table entry 1 say dirty={} io_error={}", fl.dirty(), fl.io_error(), want_dirty, want_ioerr));
        }
        let t = lib_tree_chunked(&s.root(), chunk, "/", 0)?;
        Ok((s, t))
    });
    let (sess, lt) = match r {
        Caught::Panic(p) => {
            out.violation = Some(format!("reading the generated volume panicked: {}", p));
            return out;
        }
        Caught::Ok(Err(e)) => {
            out.violation = Some(format!("reading the generated volume: {}", e));
            return out;
        }
        Caught::Ok(Ok(x)) => x,
    };
    if dev.with(|d| d.budget_hit) {
        out.violation = Some("reading the generated volume exceeded the device-call budget".into());
        let mut s = sess;
        s.poisoned = true;
        return out;
    }
    if let Err(e) = tree::compare("the library", &lt, "the ground truth", &truth.root, mask, "/") {
        out.violation = Some(format!("read: {}", e));
        let mut s = sess;
        s.poisoned = true;
        return out;
    }
    // lookups by visible name (exact and upper-cased)
    let mut files = Vec::new();
    let mut dirs = Vec::new();
    all_paths(&truth.root, &mut Vec::new(), &mut files, &mut dirs);
    let nreads = dev.with(|d| d.n_writes);
    if nreads != 0 {
        out.violation = Some(format!("read-only use issued {} device writes", nreads));
        let mut s = sess;
        s.poisoned = true;
        return out;
    }
    // 2. one mutation through the library
    let files_ok: Vec<&Vec<String>> = files.iter().filter(|p| lookup_safe(p)).collect();
    let dirs_ok: Vec<&Vec<String>> = dirs.iter().filter(|p| lookup_safe(p)).collect();
    let pick_dir = |pool: &mut Pool| -> Vec<String> {
        if dirs_ok.is_empty() || pool.chance(40) {
            Vec::new()
        } else {
            dirs_ok[pool.below(dirs_ok.len() as u32) as usize].clone()
        }
    };
    let mut new_truth = truth.root.clone();
    let clock_now = Ts::from_ms(800_000_000_000);
    let kind = c.mutation % 7;
    let filled = std::rc::Rc::new(std::cell::Cell::new(0usize));
    let mutation: Option<(Mutation, Box<dyn FnOnce(&Session) -> Result<(), String>>)> = match kind {
        0 | 1 => {
            // create a file (0) or directory (1) with a long name in an existing directory
            let d = pick_dir(&mut pool);
            let name = format!("made by the library {}.{}", pool.below(1000), if kind == 0 { "dat" } else { "dir" });
            let len = if kind == 0 { [0usize, 1, 600, 5000][pool.below(4) as usize] } else { 0 };
            let data: Vec<u8> = (0..len).map(|i| (i * 13 + 5) as u8).collect();
            let mut path = d.clone();
            path.push(name.clone());
            let ps = path.join("/");
            if let Some(kids) = truth_mut(&mut new_truth, &d) {
                kids.push(TNode { name: name.encode_utf16().collect(), short: Vec::new(), is_dir: kind == 1, attr: if kind == 1 { 0x10 } else { 0 }, size: len as u64, created: clock_now.floor_10ms(), modified: clock_now.floor_2s(), accessed: clock_now.date_only(), data: if kind == 0 { Some(data.clone()) } else { None }, children: Vec::new(), has_long: true });
            }
            let is_dir = kind == 1;
            Some((
                Mutation { what: format!("{}({:?})", if is_dir { "create_dir" } else { "create_file+write" }, ps), affected_files: vec![path.clone()], affected_dirs: vec![d.clone()] },
                Box::new(move |s: &Session| {
                    if is_dir {
                        s.root().create_dir(&ps).map(|_| ()).map_err(|e| format!("{:?}", e))
                    } else {
                        let mut f = s.root().create_file(&ps).map_err(|e| format!("{:?}", e))?;
                        f.write_all(&data).map_err(|e| format!("{:?}", e))?;
                        Ok(())
                    }
                }),
            ))
        }
        2 => {
            if files_ok.is_empty() {
                None
            } else {
                let p = files_ok[pool.below(files_ok.len() as u32) as usize].clone();
                let ps = p.join("/");
                let (parent, name) = (p[..p.len() - 1].to_vec(), p[p.len() - 1].clone());
                if let Some(kids) = truth_mut(&mut new_truth, &parent) {
                    kids.retain(|n| n.name_string() != name);
                }
                Some((Mutation { what: format!("remove({:?})", ps), affected_files: vec![p.clone()], affected_dirs: vec![parent] }, Box::new(move |s: &Session| s.root().remove(&ps).map_err(|e| format!("{:?}", e)))))
            }
        }
        3 => {
            if files_ok.is_empty() {
                None
            } else {
                // a file - or, two times in five, a directory (its ".." entry then has to name the new parent: 0 for the
                // root directory, also on FAT32)
                let move_dir = !dirs_ok.is_empty() && pool.chance(40);
                let p = if move_dir { dirs_ok[pool.below(dirs_ok.len() as u32) as usize].clone() } else { files_ok[pool.below(files_ok.len() as u32) as usize].clone() };
                let mut d = pick_dir(&mut pool);
                if move_dir && d.len() >= p.len() && d[..p.len()] == p[..] {
                    // not into itself or below itself
                    d = Vec::new();
                }
                let newname = format!("renamed by the library {}", pool.below(1000));
                let (parent, name) = (p[..p.len() - 1].to_vec(), p[p.len() - 1].clone());
                let mut moved = None;
                if let Some(kids) = truth_mut(&mut new_truth, &parent) {
                    if let Some(i) = kids.iter().position(|n| n.name_string() == name) {
                        moved = Some(kids.remove(i));
                    }
                }
                if let (Some(mut m), Some(kids)) = (moved, truth_mut(&mut new_truth, &d)) {
                    m.name = newname.encode_utf16().collect();
                    m.short = Vec::new();
                    m.has_long = true;
                    kids.push(m);
                }
                let ps = p.join("/");
                let mut dp = d.clone();
                dp.push(newname);
                let dps = dp.join("/");
                Some((
                    Mutation { what: format!("rename({:?} -> {:?})", ps, dps), affected_files: vec![p.clone(), dp.clone()], affected_dirs: if move_dir { vec![parent, d, p.clone(), dp.clone()] } else { vec![parent, d] } },
                    Box::new(move |s: &Session| {
                        let r = s.root();
                        r.rename(&ps, &r, &dps).map_err(|e| format!("{:?}", e))
                    }),
                ))
            }
        }
        6 => {
            // fill the volume: write a new file until the library reports that no space is left (only where that is
            // cheap), so that the allocator has to walk to the very end of a table it did not create
            if dec.free > 3000 {
                None
            } else {
                let name = "filled up by the library.bin".to_string();
                let cs = g.cluster_size() as usize;
                new_truth.push(TNode { name: name.encode_utf16().collect(), short: Vec::new(), is_dir: false, attr: 0, size: 0, created: clock_now.floor_10ms(), modified: clock_now.floor_2s(), accessed: clock_now.date_only(), data: Some(Vec::new()), children: Vec::new(), has_long: true });
                let filled2 = filled.clone();
                let nm = name.clone();
                Some((
                    Mutation { what: "fill the volume with one new file".into(), affected_files: vec![vec![name]], affected_dirs: vec![Vec::new()] },
                    Box::new(move |s: &Session| {
                        let mut f = s.root().create_file(&nm).map_err(|e| format!("{:?}", e))?;
                        let mut total = 0usize;
                        loop {
                            let chunk: Vec<u8> = (0..3 * cs + 17).map(|i| ((total + i) * 7 + 1) as u8).collect();
                            let mut off = 0usize;
                            let mut full = false;
                            while off < chunk.len() {
                                match f.write(&chunk[off..]) {
                                    Ok(0) => {
                                        full = true;
                                        break;
                                    }
                                    Ok(n) => off += n,
                                    Err(fatfs::Error::NotEnoughSpace) => {
                                        full = true;
                                        break;
                                    }
                                    Err(e) => return Err(format!("write: {:?}", e)),
                                }
                            }
                            total += off;
                            if full || total > 4000 * cs {
                                break;
                            }
                        }
                        filled2.set(total);
                        Ok(())
                    }),
                ))
            }
        }
        _ => {
            // truncate to half (4) or overwrite in the middle and append (5)
            let cands: Vec<&&Vec<String>> = files_ok.iter().filter(|p| truth_lookup(&truth.root, p).map_or(false, |n| n.size > 0)).collect();
            if cands.is_empty() {
                None
            } else {
                let p = (**cands[pool.below(cands.len() as u32) as usize]).clone();
                let ps = p.join("/");
                let (parent, name) = (p[..p.len() - 1].to_vec(), p[p.len() - 1].clone());
                let old = truth_lookup(&truth.root, &p).unwrap().data.clone().unwrap_or_default();
                let trunc = kind == 4;
                // truncation point: the middle, the start (the entry must stop naming any cluster - both words of it on
                // FAT32), the first cluster boundary, or the end (nothing to cut)
                let half = if trunc {
                    match pool.below(5) {
                        0 | 1 => 0,
                        2 => (g.cluster_size() as usize).min(old.len()),
                        3 => old.len(),
                        _ => old.len() / 2,
                    }
                } else {
                    old.len() / 2
                };
                let extra: Vec<u8> = (0..(1 + pool.below(3000) as usize)).map(|i| (i * 7 + 3) as u8).collect();
                let mut newdata = old[..half].to_vec();
                if !trunc {
                    newdata.extend_from_slice(&extra);
                    if newdata.len() < old.len() {
                        newdata.extend_from_slice(&old[newdata.len()..]);
                    }
                }
                if let Some(kids) = truth_mut(&mut new_truth, &parent) {
                    if let Some(n) = kids.iter_mut().find(|n| n.name_string() == name) {
                        n.size = newdata.len() as u64;
                        n.data = Some(newdata);
                        if !trunc {
                            n.modified = clock_now.floor_2s();
                        }
                    }
                }
                Some((
                    Mutation { what: format!("{}({:?})", if trunc { "seek + truncate" } else { "overwrite from the middle" }, ps), affected_files: vec![p.clone()], affected_dirs: vec![parent] },
                    Box::new(move |s: &Session| {
                        let mut f = s.root().open_file(&ps).map_err(|e| format!("open: {:?}", e))?;
                        f.seek(fatfs::SeekFrom::Start(half as u64)).map_err(|e| format!("seek: {:?}", e))?;
                        if trunc {
                            f.truncate().map_err(|e| format!("truncate: {:?}", e))?;
                        } else {
                            f.write_all(&extra).map_err(|e| format!("write: {:?}", e))?;
                        }
                        Ok(())
                    }),
                ))
            }
        }
    };
    let Some((mu, action)) = mutation else {
        drop(sess);
        out.classes.insert("read_only_cases".into(), 1);
        return out;
    };
    let r = guard(move || {
        let res = action(&sess);
        match res {
            Ok(()) => sess.unmount().map_err(|e| format!("unmount: {:?}", e)),
            Err(e) => {
                let mut s = sess;
                s.poisoned = true;
                Err(e)
            }
        }
    });
    match r {
        Caught::Panic(p) => {
            out.violation = Some(format!("{} on the generated volume panicked: {}", mu.what, p));
            return out;
        }
        Caught::Ok(Err(e)) => {
            if e.contains("NotEnoughSpace") {
                // legitimate only when space really is short: a (nearly) taken table, or a fixed root directory without
                // room for a long name. No mutation here needs more than a few clusters.
                let fixed_root_short = g.width != 32 && dec.root.used_slots + 24 > dec.root.total_slots;
                if dec.free >= 64 && !fixed_root_short {
                    out.violation = Some(format!("{} failed with NotEnoughSpace although the table has {} free clusters (FS-info count stored on the volume: {:?})", mu.what, dec.free, stored_free));
                    return out;
                }
                out.classes.insert("mutation_out_of_space".into(), 1);
                return out;
            }
            out.violation = Some(format!("{} on the generated volume failed: {}", mu.what, e));
            return out;
        }
        Caught::Ok(Ok(())) => {}
    }
    out.classes.insert(format!("mutation_kind_{}", kind), 1);
    if kind == 6 {
        let total = filled.get();
        if let Some(n) = new_truth.iter_mut().find(|n| n.name_string() == "filled up by the library.bin") {
            n.size = total as u64;
            n.data = Some((0..total).map(|i| (i * 7 + 1) as u8).collect());
            if total == 0 {
                n.modified = clock_now.floor_2s();
            }
        }
        // the library may only have stopped because the table really has no free entry left
        let free_after = dev.with_store(|st| g.count_free(st));
        if free_after != 0 {
            out.violation = Some(format!("after filling the volume until NotEnoughSpace the table still has {} free entries", free_after));
            return out;
        }
    }
    let img2 = dev.snapshot();
    // (i) still valid, no new kinds of findings
    let dec2 = match refdec::decode(&img2, refdec::DecodeOpts::default()) {
        Ok(d) => d,
        Err(e) => {
            out.violation = Some(format!("after {}: image no longer decodes: {}", mu.what, e));
            return out;
        }
    };
    let count = |d: &Decoded| -> HashMap<Fk, usize> {
        let mut m = HashMap::new();
        for f in &d.findings {
            *m.entry(f.kind).or_insert(0) += 1;
        }
        m
    };
    let (c1, c2) = (count(&dec), count(&dec2));
    for (k, n) in &c2 {
        if *n > c1.get(k).copied().unwrap_or(0) {
            let f = dec2.findings.iter().find(|f| f.kind == *k).unwrap();
            out.violation = Some(format!("after {}: new structural finding {:?}: {}", mu.what, k, f.what));
            return out;
        }
    }
    // (ii) everything reads back (independent decode and fresh mount)
    let mask2 = CmpMask { short: false, attr: true, size: true, times: true, data: true, dots: false, dir_times: false };
    if let Err(e) = tree::compare("the independent decode after the mutation", &tree::refdec_tree(&dec2), "the expected tree", &new_truth, mask2, "/") {
        out.violation = Some(format!("after {}: {}", mu.what, e));
        return out;
    }
    let dev3 = MemDev::new(img2.clone());
    let r = guard(move || {
        let clock = Clock::new(0);
        let s = Session::mount(&dev3, &clock, &MountOpts::default()).map_err(|e| format!("remount failed: {:?}", e))?;
        let t = lib_tree_chunked(&s.root(), 4096, "/", 0);
        s.abandon();
        t
    });
    match r {
        Caught::Panic(p) => {
            out.violation = Some(format!("after {}: remount panicked: {}", mu.what, p));
            return out;
        }
        Caught::Ok(Err(e)) => {
            out.violation = Some(format!("after {}: {}", mu.what, e));
            return out;
        }
        Caught::Ok(Ok(t)) => {
            if let Err(e) = tree::compare("a fresh mount after the mutation", &t, "the expected tree", &new_truth, mask2, "/") {
                out.violation = Some(format!("after {}: {}", mu.what, e));
                return out;
            }
        }
    }
    // (iii) raw diff confined to what the mutation may change
    if let Err(e) = check_diff(&img, &img2, &dec, &dec2, &mu) {
        out.violation = Some(format!("after {}: {}", mu.what, e));
    }
    out
}

fn find_dir<'a>(d: &'a Decoded, path: &[String]) -> Option<&'a DirNode> {
    let mut cur = &d.root;
    for comp in path {
        let units: Vec<u16> = comp.encode_utf16().collect();
        let e = cur.entries.iter().find(|e| !e.is_label() && e.is_dir() && e.visible_units() == units)?;
        cur = e.child.as_deref()?;
    }
    Some(cur)
}

fn check_diff(a: &Store, b: &Store, pre: &Decoded, post: &Decoded, mu: &Mutation) -> Result<(), String> {
    let g = &pre.geom;
    // object ids (pre and post) of affected files / dirs
    let path_str = |p: &[String]| if p.is_empty() { "/".to_string() } else { format!("/{}", p.join("/")) };
    let aff_files: Vec<String> = mu.affected_files.iter().map(|p| fold(&path_str(p))).collect();
    let aff_dirs: Vec<String> = mu.affected_dirs.iter().map(|p| fold(&path_str(p))).collect();
    let owned_by_affected = |d: &Decoded, c: u32| -> bool {
        match d.owner.get(&c) {
            None => false,
            Some(o) => {
                let ob = &d.objects[*o];
                let p = fold(&ob.path);
                aff_files.contains(&p) || aff_dirs.contains(&p)
            }
        }
    };
    // directory slot maps of affected directories before the mutation: abs offset -> (state, belongs to affected entry)
    let mut slot_info: HashMap<u64, (u8, bool)> = HashMap::new();
    for dp in &mu.affected_dirs {
        if let Some(dn) = find_dir(pre, dp) {
            for (i, abs) in dn.slot_abs.iter().enumerate() {
                slot_info.insert(*abs, (dn.slot_state[i], false));
            }
            // a directory that is itself being moved: its ".." entry names the new parent afterwards
            if mu.affected_files.iter().any(|f| f == dp) {
                for e in dn.entries.iter().filter(|e| e.short == *b"..         ") {
                    for s in &e.slot_abs {
                        if let Some(x) = slot_info.get_mut(s) {
                            x.1 = true;
                        }
                    }
                }
            }
            for e in &dn.entries {
                let mut p = dp.clone();
                p.push(e.visible_string());
                if mu.affected_files.iter().any(|f| fold(&path_str(f)) == fold(&path_str(&p))) {
                    for s in &e.slot_abs {
                        if let Some(x) = slot_info.get_mut(s) {
                            x.1 = true;
                        }
                    }
                    // orphan long-name slots that sit directly in front of the entry belong to nobody else: a writer
                    // that removes the entry may sweep them along
                    if let Some(first_i) = dn.slot_abs.iter().position(|a| *a == e.first_abs) {
                        let mut k = first_i;
                        while k > 0 && dn.slot_state[k - 1] == 3 {
                            k -= 1;
                            if let Some(x) = slot_info.get_mut(&dn.slot_abs[k]) {
                                x.1 = true;
                            }
                        }
                    }
                }
            }
        }
    }
    // short entries of affected directories themselves (their timestamps may be restamped) and of their ancestors
    let mut dir_entry_slots: Vec<u64> = Vec::new();
    for dp in &mu.affected_dirs {
        for k in 1..=dp.len() {
            let parent = &dp[..k - 1];
            if let Some(dn) = find_dir(pre, parent) {
                let units: Vec<u16> = dp[k - 1].encode_utf16().collect();
                if let Some(e) = dn.entries.iter().find(|e| e.visible_units() == units) {
                    dir_entry_slots.push(e.short_abs);
                }
            }
        }
    }
    let len = a.len().min(b.len());
    let mut off = 0u64;
    let chunk = 1u64 << 16;
    let dense = a.dense_bytes().is_some() && b.dense_bytes().is_some();
    let mut check_byte = |o: u64, old: u8, new: u8| -> Result<(), String> {
        let (region, _) = classify(g, o);
        match region {
            Region::Status | Region::FsInfo => Ok(()),
            Region::Boot => Err(format!("byte {} of the boot sector changed ({:#04x} -> {:#04x})", o, old, new)),
            Region::Reserved => Err(format!("byte {} in a reserved sector changed", o)),
            Region::Slack => Err(format!("byte {} in the slack after the last cluster changed", o)),
            Region::Fat => {
                let fb = g.fat_bytes();
                let rel = o - g.fat_off(0);
                let copy = rel / fb;
                let within = rel % fb;
                if !g.mirrored() && copy != g.active_copy() {
                    return Err(format!("inactive FAT copy {} changed at table byte {}", copy, within));
                }
                let cl = match g.width {
                    12 => (within * 2 / 3) as u32,
                    16 => (within / 2) as u32,
                    _ => (within / 4) as u32,
                };
                // FAT12: a byte may belong to two entries; accept if either neighbour qualifies
                let cands: Vec<u32> = if g.width == 12 { vec![cl.saturating_sub(1), cl, cl + 1] } else { vec![cl] };
                if g.width == 32 && within % 4 == 3 && (old & 0xF0) != (new & 0xF0) {
                    return Err(format!("reserved high bits of FAT32 entry {} changed", cl));
                }
                let maxc = g.max_cluster();
                if cands.iter().all(|c| *c > maxc) {
                    return Err(format!("padding FAT entry {} (past the last cluster {}) changed", cl, maxc));
                }
                if cands.iter().any(|c| *c >= 2 && *c <= maxc && (pre.fat.get(*c) == 0 || owned_by_affected(pre, *c) || owned_by_affected(post, *c))) {
                    Ok(())
                } else {
                    Err(format!("FAT entry of cluster {} changed; it was neither free nor part of an object the mutation touches", cl))
                }
            }
            Region::Root | Region::Cluster(_) => {
                // directory slots of affected directories
                let slot_abs = o - (o - if let Region::Cluster(n) = region { g.cluster_off(n) } else { g.root_off() }) % 32;
                if let Some((state, ours)) = slot_info.get(&slot_abs) {
                    if *ours || *state == 0 || *state == 1 {
                        return Ok(());
                    }
                    if dir_entry_slots.contains(&slot_abs) && (13..26).contains(&(o - slot_abs)) && !(20..22).contains(&(o - slot_abs)) {
                        return Ok(());
                    }
                    return Err(format!("directory slot at byte {} (state {}) of an affected directory changed although it holds someone else's entry", slot_abs, state));
                }
                if dir_entry_slots.contains(&slot_abs) {
                    let f = o - slot_abs;
                    if (13..20).contains(&f) || (22..26).contains(&f) {
                        return Ok(());
                    }
                    return Err(format!("entry of an affected directory changed outside its timestamp fields (byte {} of the slot)", f));
                }
                match region {
                    Region::Cluster(n) => {
                        if pre.fat.get(n) == 0 || owned_by_affected(pre, n) {
                            Ok(())
                        } else {
                            let who = pre.owner.get(&n).map(|i| pre.objects[*i].path.clone()).unwrap_or_else(|| "a BAD or unowned cluster".into());
                            Err(format!("byte {} in cluster {} changed; the cluster belongs to {}", o, n, who))
                        }
                    }
                    _ => {
                        // fixed root area beyond the declared entries (rest of its last sector)
                        Err(format!("byte {} in the fixed root area outside any directory slot of an affected directory changed", o))
                    }
                }
            }
        }
    };
    if dense {
        let (x, y) = (a.dense_bytes().unwrap(), b.dense_bytes().unwrap());
        for i in 0..len as usize {
            if x[i] != y[i] {
                check_byte(i as u64, x[i], y[i])?;
            }
        }
    } else {
        while off < len {
            let n = chunk.min(len - off) as usize;
            let x = refdec::rdv(a, off, n);
            let y = refdec::rdv(b, off, n);
            if x != y {
                for i in 0..n {
                    if x[i] != y[i] {
                        check_byte(off + i as u64, x[i], y[i])?;
                    }
                }
            }
            off += n as u64;
        }
    }
    Ok(())
}

/// recursive listing through the library, file contents read in chunks of `chunk` bytes
fn lib_tree_chunked(dir: &session::FDir, chunk: usize, path: &str, depth: usize) -> Result<Vec<TNode>, String> {
    let mut out = Vec::new();
    if depth > 8 {
        return Err("nesting too deep".into());
    }
    let mut n = 0;
    for r in dir.iter() {
        n += 1;
        if n > 5000 {
            return Err(format!("listing of {} does not end", path));
        }
        let e = r.map_err(|e| format!("iterating {}: {:?}", path, e))?;
        let name = e.file_name();
        let units: Vec<u16> = match e.long_file_name_as_ucs2_units() {
            Some(u) => u.to_vec(),
            None => name.encode_utf16().collect(),
        };
        let sb = e.short_file_name_as_bytes().to_vec();
        let is_dot = sb == b"." || sb == b"..";
        let mut node = TNode {
            name: units,
            short: sb,
            is_dir: e.is_dir(),
            attr: e.attributes().bits(),
            size: e.len(),
            created: session::ts_of_dt(e.created()),
            modified: session::ts_of_dt(e.modified()),
            accessed: session::ts_of_date(e.accessed()),
            data: None,
            children: Vec::new(),
            has_long: e.long_file_name_as_ucs2_units().is_some(),
        };
        let cp = format!("{}{}/", path, name);
        if e.is_dir() {
            if !is_dot {
                node.children = lib_tree_chunked(&e.to_dir(), chunk, &cp, depth + 1)?;
            }
        } else {
            let mut f = e.to_file();
            let mut data = Vec::new();
            let mut buf = vec![0u8; chunk];
            loop {
                let k = f.read(&mut buf).map_err(|e| format!("reading {}: {:?}", cp, e))?;
                if k == 0 {
                    break;
                }
                data.extend_from_slice(&buf[..k]);
                if data.len() > 1 << 24 {
                    return Err(format!("{} does not end", cp));
                }
            }
            node.data = Some(data);
        }
        out.push(node);
    }
    Ok(out)
}

fn freedoms_strategy() -> impl Strategy<Value = Freedoms> {
    (prop::collection::vec(prop::bool::weighted(0.6), 14..=14), prop::bool::weighted(0.3), prop::bool::weighted(0.4)).prop_map(|(b, stale, ea)| Freedoms {
        stale_count: stale,
        ea_handle: ea,
        fragmented: b[0],
        backwards: b[1],
        eoc_variants: b[2],
        bad_clusters: b[3],
        deleted_slots: b[4],
        orphan_runs: b[5],
        short_only: b[6],
        nt_case_flags: b[7],
        lead_05: b[8],
        oem_bytes: b[9],
        label_anywhere: b[10],
        all_attrs: b[11],
        junk_after_end: b[12],
        extra_dir_clusters: b[13],
    })
}

pub fn case_strategy() -> impl Strategy<Value = ImgCase> {
    (any::<u8>(), freedoms_strategy(), prop::collection::vec(any::<u32>(), 48..=48), any::<u8>(), any::<u8>(), prop::collection::vec(any::<u32>(), 8..=8)).prop_map(|(geom, freedoms, entropy, objects, mutation, mut_entropy)| ImgCase { geom, freedoms, entropy, objects, mutation, mut_entropy })
}

pub fn replay(v: &serde_json::Value) -> Result<Option<String>, String> {
    let c: ImgCase = serde_json::from_value(v["case"].clone()).map_err(|e| format!("bad case: {}", e))?;
    Ok(eval(&c).violation)
}

pub fn run(tier: Tier, seed: u64) -> i32 {
    let rule = "volumes built by imggen (independent of the library's writer) over 18 geometries (FAT12/16/32, sector 512..4096, 1-3 FATs, mirroring off with each active copy and garbage in inactive ones, root cluster != 2, non-zero FAT32 high nibbles, every end-of-chain value) and populated with named switches: fragmented / backwards chains, BAD clusters, deleted slots and runs, orphan long-name runs (wrong checksum, truncated, followed by a deleted entry), short-only entries with NT lowercase flags / 0x05 lead byte / OEM bytes, labels anywhere in the root, a stale FAT32 FS-info free count (0, half, one less, more than the table has), non-zero bytes 20..22 in FAT12/16 entries (extended-attribute handles), all RO/HID/SYS/ARCH combinations, arbitrary valid timestamps, multi-cluster directories, garbage after the end marker; read oracle = listings, names, short names, attributes, 3 timestamps, sizes, contents (random chunk sizes), label, id, width, free count, status flags equal the builder's ground truth (which refdec must confirm first) and no device write happens; modify oracle = one library mutation (create file/dir, remove, rename, truncate, overwrite, or filling the volume until NotEnoughSpace) then no new refdec finding, expected tree read back by refdec and a fresh mount, and every changed byte of the raw diff lies in the status byte, FS-info, FAT entries (low 28 bits) of clusters that were free or belong to the touched objects, free or own directory slots of the touched directories, timestamp fields of their own entries, or clusters that were free or belong to the touched file; non-trivial = image with >= 3 freedoms and a fragmented file; distinct by hash of the case";
    let mut rep = Report::new("C08", tier, seed, "exploration", rule);
    rep.assume("valid volumes only: C07/C17 own the invalid ones; the FS-info free count is exact or (freedom stale_count) a stale in-range value, which the specification allows");
    rep.assume("names containing OEM bytes >= 0x80 are listed (as U+FFFD) but not used for by-name lookups");
    let mut reg = Block::new("regress");
    for f in run::regress_files("C08") {
        if let Ok(v) = run::load_replay(&f) {
            if let Ok(c) = serde_json::from_value::<ImgCase>(v["case"].clone()) {
                let out = eval(&c);
                reg.record(&out, || v["case"].clone());
                if let Some(m) = out.violation {
                    if reg.failure.is_none() {
                        reg.failure = Some(Failure { message: format!("regression case {}: {}", f, m), case: v["case"].clone(), kind: "image".into() });
                    }
                }
            }
        }
    }
    rep.add(reg);
    if !rep.failed() {
        rep.add(run::run_random("generated_foreign_images", seed, tier.pick(12000, 120000), "image", || run::boxed(case_strategy()), |c: &ImgCase| eval(c)));
    }
    if !rep.failed() && tier == Tier::Thorough {
        rep.add(run::fuzz_block("image", 200_000, seed, 512));
    }
    rep.finish()
}

/// debugging aid: build the image of a replay case and print what refdec sees
pub fn dump(v: &serde_json::Value) {
    let c: ImgCase = serde_json::from_value(v["case"].clone()).unwrap();
    let gs = geoms();
    let cfg = &gs[c.geom as usize % gs.len()];
    let dev0 = vol::make_device(cfg).unwrap();
    let mut img = dev0.take_store();
    let truth = imggen::populate(&mut img, &c.entropy, &c.freedoms, 2 + c.objects as usize % 24);
    println!("cfg {:?}", cfg);
    match truth {
        Ok(t) => {
            fn pr(v: &[TNode], ind: usize) {
                for n in v {
                    println!("{}{:?} short={:?} dir={} size={}", " ".repeat(ind), n.name_string(), String::from_utf8_lossy(&n.short), n.is_dir, n.size);
                    pr(&n.children, ind + 2);
                }
            }
            pr(&t.root, 0);
        }
        Err(e) => println!("builder: {}", e),
    }
    let d = refdec::decode(&img, refdec::DecodeOpts::default()).unwrap();
    for f in &d.findings {
        println!("finding {:?} {}", f.kind, f.what);
    }
    for o in &d.objects {
        println!("obj {} dir={} clusters={:?}", o.path, o.is_dir, o.clusters);
    }
    println!("nonzero fat: {:?}", d.fat.nonzero());
}
