//! C03 - the on-disk structures stay consistent after every operation
use super::hist::HistProp;
use crate::gen::GenCfg;
use crate::ops::{Aspect, RunCfg, Trace};

fn nontrivial(t: &Trace) -> bool {
    t.has("op_failed") && (t.has("rename") || t.has("remove"))
}

pub fn prop() -> HistProp {
    let mut rc = RunCfg::new(&[Aspect::Fsck, Aspect::Panic, Aspect::Budget]);
    rc.flush_each = true;
    rc.known.partial_create_nospace = crate::run::known_active("C03", "partial-create-out-of-space");
    let mut gc = GenCfg::mixed();
    gc.populate_pct = 10;
    // a third of the sessions keep access dates (the option rewrites directory entries on reads and listings)
    gc.access_date = vec![false, false, true];
    HistProp {
        id: "C03",
        level: "exploration",
        rule: "random histories of namespace and file-I/O calls (including user errors and out-of-space on volumes with 3..40 free clusters and 16-entry roots) on generated volume configurations; after EVERY call the raw image is checked by refdec::fsck (chains acyclic/terminated/unshared, no lost clusters, size<->chain length, dot entries, nothing after the end marker, long-name runs complete/ordered/padded/checksummed, no orphan long-name slot, no duplicate names, directory sizes 0); non-trivial = history with a failing call and a successful rename or remove; distinct by hash(config, ops)",
        run_cfg: rc,
        gen_cfg: gc,
        nontrivial,
        quick_cases: 20000,
        thorough_cases: 400000,
        pressure_cases: (6000, 120000),
        assumptions: vec!["file handles are flushed at the end of each mutating file call, so deferred size/first-cluster state (C04/C14) is not mistaken for corruption", "documented preconditions of DESIGN 4.3"],
    }
}
