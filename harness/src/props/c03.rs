//! C03 - the on-disk structures stay consistent after every operation
use super::hist::{self, HistProp};
use crate::run::{Report, Tier};
use crate::gen::GenCfg;
use crate::ops::{Aspect, RunCfg, Trace};

fn nontrivial(t: &Trace) -> bool {
    t.has("op_failed") && (t.has("rename") || t.has("remove"))
}

pub fn prop() -> HistProp {
    let mut rc = RunCfg::new(&[Aspect::Fsck, Aspect::Panic, Aspect::Budget]);
    rc.flush_each = true;
    rc.known.partial_create_nospace = crate::run::known_active("C03", "partial-create-out-of-space");
    let mut gc = GenCfg::mixed();
    gc.populate_pct = 10;
    // a third of the sessions keep access dates (the option rewrites directory entries on reads and listings)
    gc.access_date = vec![false, false, true];
    HistProp {
        id: "C03",
        level: "exploration",
        rule: "random histories of namespace and file-I/O calls (including user errors and out-of-space on volumes with 3..40 free clusters and 16-entry roots) on generated volume configurations; after EVERY call the raw image is checked by refdec::fsck (chains acyclic/terminated/unshared, no lost clusters, size<->chain length, dot entries, nothing after the end marker, long-name runs complete/ordered/padded/checksummed, no orphan long-name slot, no duplicate names, directory sizes 0); non-trivial = history with a failing call and a successful rename or remove; distinct by hash(config, ops)",
        run_cfg: rc,
        gen_cfg: gc,
        nontrivial,
        quick_cases: 20000,
        thorough_cases: 400000,
        pressure_cases: (6000, 120000),
        assumptions: vec!["file handles are flushed at the end of each mutating file call, so deferred size/first-cluster state (C04/C14) is not mistaken for corruption", "documented preconditions of DESIGN 4.3"],
    }
}

pub fn run(tier: Tier, seed: u64) -> i32 {
    let hp = prop();
    let mut rep = Report::new(hp.id, tier, seed, hp.level, hp.rule);
    rep.rule.push_str("; plus the reserved dot entries as operands: each of 43 calls that end in or pass through '.' / '..' (remove, rename from / onto, create, create / remove through a handle opened on a dot entry, write) alone and (thorough: in every ordered pair) on a FAT12, FAT16 and FAT32 volume - no outcome is predicted, the image must pass fsck after every call and after unmount");
    for a in &hp.assumptions {
        rep.assume(a);
    }
    let kb = hist::known_block(&hp, &mut rep);
    rep.add(kb);
    rep.add(hist::regress_block(&hp));
    // regression cases of the dot-entry block (kind "dots") are not histories
    let mut reg = crate::run::Block::new("regress_dot_entries");
    for f in crate::run::regress_files("C03") {
        if let Ok(v) = crate::run::load_replay(&f) {
            if v["kind"].as_str() != Some("dots") {
                continue;
            }
            if let Ok(c) = serde_json::from_value::<super::c03dots::DotCase>(v["case"].clone()) {
                let out = super::c03dots::eval(&c);
                reg.record(&out, || v["case"].clone());
                if let Some(m) = out.violation {
                    if reg.failure.is_none() {
                        reg.failure = Some(crate::run::Failure { message: format!("regression case {}: {}", f, m), case: v["case"].clone(), kind: "dots".into() });
                    }
                }
            }
        }
    }
    rep.add(reg);
    if !rep.failed() {
        rep.add(super::c03dots::block(tier == Tier::Thorough));
    }
    if !rep.failed() {
        rep.add(hist::random_block(&hp, "random_histories", seed, tier.pick(hp.quick_cases, hp.thorough_cases)));
    }
    if !rep.failed() {
        if let Some(b) = hist::pressure_block(&hp, seed, tier) {
            rep.add(b);
        }
    }
    rep.finish()
}
