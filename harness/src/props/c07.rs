//! C07 - mounting is total: garbage is rejected, never trusted and never a panic
//!
//! On top of valid FAT12/16/32 base images: every value of every 8- and 16-bit BPB field (exhaustive), boundary
//! and power-of-two values of the 32-bit fields and of the FS-info words, random combinations of 2-6 mutated
//! fields, fully random sectors; strict and non-strict mount. Oracle: no panic / overflow / budget overrun in
//! FileSystem::new and the first queries on the mounted volume; library Ok => the necessary coherence conditions
//! of the property hold (independent 64-bit parse) and width, cluster size and cluster count agree.

use crate::dev::{MemDev, Store};
use crate::refdec::{Geom, RawBpb};
use crate::run::{self, Block, CaseOut, Failure, Mix, Report, Tier};
use crate::session::{guard, Caught, Clock, Fs};
use crate::vol::{self, VolCfg};
use proptest::prelude::*;
use serde::{Deserialize, Serialize};
use serde_json::json;

/// (sector selector: 0 = boot sector, 1 = FS-info sector, 2 = backup boot sector; byte offset; width in bytes)
#[derive(Clone, Debug, Serialize, Deserialize, PartialEq)]
pub struct Patch {
    pub sector: u8,
    pub off: u16,
    pub width: u8,
    pub value: u32,
}

#[derive(Clone, Debug, Serialize, Deserialize)]
pub struct MountCase {
    pub base: u8,
    pub strict: bool,
    pub patches: Vec<Patch>,
    /// Some: replace the whole boot sector by these bytes (hex)
    #[serde(default)]
    pub raw_sector: Option<Vec<u8>>,
}

pub const FIELDS8: &[(u16, &str)] = &[(0, "jmp0"), (13, "sec_per_clus"), (16, "num_fats"), (21, "media"), (36, "drv/fatsz32.0"), (37, "status12/fatsz32.1"), (38, "bootsig12"), (64, "drv32"), (65, "status32"), (66, "bootsig32")];
pub const FIELDS16: &[(u16, &str)] = &[
    (11, "byts_per_sec"),
    (14, "rsvd_sec_cnt"),
    (17, "root_ent_cnt"),
    (19, "tot_sec16"),
    (22, "fatsz16"),
    (24, "sec_per_trk"),
    (26, "num_heads"),
    (40, "ext_flags"),
    (42, "fs_ver"),
    (48, "fs_info"),
    (50, "bk_boot_sec"),
    (510, "signature"),
];
pub const FIELDS32: &[(u8, u16, &str)] = &[(0, 28, "hidd_sec"), (0, 32, "tot_sec32"), (0, 36, "fatsz32"), (0, 44, "root_clus"), (1, 0, "fsi_lead"), (1, 484, "fsi_struc"), (1, 488, "fsi_free"), (1, 492, "fsi_next"), (1, 508, "fsi_trail")];

pub fn bases() -> Vec<VolCfg> {
    let mut g = VolCfg::from_gen_preset(5);
    g.pad_sectors = 8;
    vec![VolCfg::from_preset(1), VolCfg::from_preset(8), VolCfg::from_preset(12), g, VolCfg::from_preset(4)]
}

pub struct BaseImg {
    pub store: Store,
    pub raw: RawBpb,
    pub fsinfo_off: u64,
    pub bk_off: u64,
}

pub fn make_bases() -> Result<Vec<BaseImg>, String> {
    let mut v = Vec::new();
    for cfg in bases() {
        let dev = vol::make_device(&cfg)?;
        // a few entries in the root so that iteration has something to chew on
        {
            let clock = Clock::new(0);
            let s = crate::session::Session::mount(&dev, &clock, &Default::default()).map_err(|e| format!("{:?}", e))?;
            let r = s.root();
            let _ = r.create_dir("some directory").map_err(|e| format!("{:?}", e))?;
            let _ = r.create_file("file one.txt").map_err(|e| format!("{:?}", e))?;
            drop(r);
            s.unmount().map_err(|e| format!("{:?}", e))?;
        }
        let store = dev.take_store();
        let raw = RawBpb::read(&store);
        let bps = raw.byts_per_sec as u64;
        v.push(BaseImg { fsinfo_off: raw.fs_info as u64 * bps, bk_off: raw.bk_boot_sec as u64 * bps, raw, store });
    }
    Ok(v)
}

fn sector_base(b: &BaseImg, sector: u8) -> u64 {
    match sector {
        0 => 0,
        1 => b.fsinfo_off,
        _ => b.bk_off,
    }
}

fn apply(dev: &MemDev, b: &BaseImg, c: &MountCase) -> Vec<(u64, Vec<u8>)> {
    let mut undo = Vec::new();
    dev.with(|d| {
        if let Some(raw) = &c.raw_sector {
            let mut old = vec![0u8; raw.len()];
            d.store.read_at(0, &mut old);
            undo.push((0u64, old));
            d.store.write_at(0, raw);
        }
        for p in &c.patches {
            let o = sector_base(b, p.sector) + p.off as u64;
            let w = p.width as usize;
            let mut old = vec![0u8; w];
            d.store.read_at(o, &mut old);
            undo.push((o, old));
            d.store.write_at(o, &p.value.to_le_bytes()[..w]);
        }
    });
    undo
}

fn restore(dev: &MemDev, undo: Vec<(u64, Vec<u8>)>) {
    dev.with(|d| {
        for (o, old) in undo.into_iter().rev() {
            d.store.write_at(o, &old);
        }
    });
}

thread_local! {
    static DEVS: std::cell::RefCell<Vec<MemDev>> = const { std::cell::RefCell::new(Vec::new()) };
}

fn dev_for(bases: &[BaseImg], i: usize) -> MemDev {
    DEVS.with(|d| {
        let mut d = d.borrow_mut();
        if d.is_empty() {
            for b in bases {
                let dev = MemDev::new(b.store.clone());
                dev.with(|x| x.discard_writes = true);
                d.push(dev);
            }
        }
        d[i].handle()
    })
}

#[derive(Debug)]
struct Accepted {
    width: u8,
    cluster_size: u32,
    clusters: Option<u32>,
}

pub fn eval(bases: &[BaseImg], c: &MountCase) -> CaseOut {
    let bi = c.base as usize % bases.len();
    let b = &bases[bi];
    let dev = dev_for(bases, bi);
    let undo = apply(&dev, b, c);
    let mut out = CaseOut::default();
    // independent parse of what is now on the device
    let raw = dev.with_store(|s| RawBpb::read(s));
    let derived = Geom::derive(&raw);
    let start = dev.calls();
    // one mount in four on a storage that makes short transfers (set per case: the device is shared by the thread)
    let sh = c.patches.iter().fold(0x9E37_79B9u64, |a, p| (a ^ (p.off as u64) ^ (p.value as u64)).wrapping_mul(0x100_0000_01B3).rotate_left(17));
    dev.with(|d| {
        d.pos = 0;
        d.budget = start + 3_000_000;
        d.budget_hit = false;
        d.short_io = if sh % 4 == 0 { sh | 1 } else { 0 };
    });
    let strict = c.strict;
    let devh = dev.handle();
    let cheap_stats = match &derived {
        Ok(g) => g.clusters <= 300_000,
        Err(_) => false,
    };
    let r = guard(move || {
        let clock = Clock::new(0);
        let opts = fatfs::FsOptions::new().time_provider(clock).strict(strict);
        match Fs::new(devh, opts) {
            Err(e) => Err(crate::session::ek(&e)),
            Ok(fs) => {
                let width = match fs.fat_type() {
                    fatfs::FatType::Fat12 => 12,
                    fatfs::FatType::Fat16 => 16,
                    fatfs::FatType::Fat32 => 32,
                };
                let cs = fs.cluster_size();
                let mut clusters = None;
                if cheap_stats {
                    if let Ok(st) = fs.stats() {
                        clusters = Some(st.total_clusters());
                    }
                }
                let _ = fs.read_status_flags();
                let _ = fs.volume_label();
                let _ = fs.volume_id();
                // The property is about the boot sector and the FS-info sector. With a patched geometry the table
                // and the directory clusters are whatever bytes happen to lie there; following cluster chains
                // through that garbage is outside C07 (and C17 requires valid cluster pointers). So the root is
                // listed only where no chain is followed: the fixed root of FAT12/16.
                if width != 32 {
                    let _ = fs.read_volume_label_from_root_dir();
                    let root = fs.root_dir();
                    for e in root.iter().take(64) {
                        match e {
                            Ok(e) => {
                                let _ = (e.file_name(), e.len(), e.is_dir());
                            }
                            Err(_) => break,
                        }
                    }
                    drop(root);
                }
                drop(fs);
                Ok(Accepted { width, cluster_size: cs, clusters })
            }
        }
    });
    let budget_hit = dev.with(|d| d.budget_hit);
    dev.with(|d| d.budget = u64::MAX);
    restore(&dev, undo);
    let geometry_relevant = c.raw_sector.is_some() || c.patches.iter().any(|p| p.sector != 0 || ![0u16, 21, 24, 26, 28].contains(&p.off));
    out.nontrivial = geometry_relevant;
    out.hash = run::hash_str(&serde_json::to_string(c).unwrap_or_default());
    match r {
        Caught::Panic(p) => {
            // the thread-local device may be left with a poisoned borrow state by the unwinding: rebuild lazily
            DEVS.with(|d| d.borrow_mut().clear());
            out.violation = Some(format!("mount (strict={}) of base {} with {:?} panicked: {}", strict, bi, c.patches, p));
        }
        Caught::Ok(res) => {
            if budget_hit {
                out.violation = Some(format!("mount (strict={}) of base {} with {:?} exceeded 3,000,000 device calls", strict, bi, c.patches));
                return out;
            }
            match res {
                Err(_) => {
                    out.classes.insert("rejected".into(), 1);
                }
                Ok(acc) => {
                    out.classes.insert("accepted".into(), 1);
                    match &derived {
                        Err(why) => {
                            out.violation = Some(format!("mount (strict={}) of base {} with {:?} was accepted (FAT{}, cluster size {}), but the geometry is not coherent: {}", strict, bi, c.patches, acc.width, acc.cluster_size, why));
                        }
                        Ok(g) => {
                            if acc.width != g.width || acc.cluster_size as u64 != g.cluster_size() || acc.clusters.map_or(false, |n| n as u64 != g.clusters) {
                                out.violation = Some(format!(
                                    "mount (strict={}) of base {} with {:?}: library says FAT{} / cluster size {} / {:?} clusters, the independent parse says FAT{} / {} / {}",
                                    strict,
                                    bi,
                                    c.patches,
                                    acc.width,
                                    acc.cluster_size,
                                    acc.clusters,
                                    g.width,
                                    g.cluster_size(),
                                    g.clusters
                                ));
                            }
                        }
                    }
                }
            }
        }
    }
    out
}

fn interesting32(which: u64, m: &mut Mix) -> u32 {
    match which % 12 {
        0 => 0,
        1 => 1,
        2 => 2,
        3 => 0xFFFF_FFFF,
        4 => 0x0FFF_FFFF,
        5 => 0x0FFF_FFF7,
        6 => 0x8000_0000,
        7 => {
            let p = m.below(32);
            1u32 << p
        }
        8 => {
            let p = m.below(32);
            (1u32 << p).wrapping_sub(1)
        }
        9 => {
            let p = m.below(32);
            (1u32 << p).wrapping_add(1)
        }
        10 => m.below(70000) as u32,
        _ => m.next() as u32,
    }
}

fn interesting16(which: u64, m: &mut Mix) -> u16 {
    match which % 10 {
        0 => 0,
        1 => 1,
        2 => 0xFFFF,
        3 => 512,
        4 => 4096,
        5 => {
            let p = m.below(16);
            1u16 << p
        }
        6 => (1u16 << m.below(16)).wrapping_sub(1),
        7 => 0x8000,
        8 => m.below(64) as u16,
        _ => m.next() as u16,
    }
}

fn patch_strategy() -> impl Strategy<Value = Patch> {
    (any::<u8>(), any::<u64>(), any::<u64>()).prop_map(|(kind, sel, rnd)| {
        let mut m = Mix::new(rnd, sel);
        match kind % 3 {
            0 => {
                let (off, _) = FIELDS8[(sel % FIELDS8.len() as u64) as usize];
                Patch { sector: 0, off, width: 1, value: [0u32, 1, 2, 3, 0x29, 0x7F, 0x80, 0xFF, (rnd & 0xFF) as u32][(rnd >> 8) as usize % 9] }
            }
            1 => {
                let (off, _) = FIELDS16[(sel % FIELDS16.len() as u64) as usize];
                Patch { sector: 0, off, width: 2, value: interesting16(rnd >> 3, &mut m) as u32 }
            }
            _ => {
                let (sector, off, _) = FIELDS32[(sel % FIELDS32.len() as u64) as usize];
                Patch { sector, off, width: 4, value: interesting32(rnd >> 3, &mut m) }
            }
        }
    })
}

pub fn replay(v: &serde_json::Value) -> Result<Option<String>, String> {
    let c: MountCase = serde_json::from_value(v["case"].clone()).map_err(|e| format!("bad mount case: {}", e))?;
    let bases = make_bases()?;
    Ok(eval(&bases, &c).violation)
}

pub fn run(tier: Tier, seed: u64) -> i32 {
    let rule = "valid FAT12/16/32 bases (library-formatted and imggen) with patched boot-sector / FS-info bytes: block A = every value of each 8-bit and 16-bit BPB field (exhaustive) x strict/non-strict; block B = every power of two, +-1, field-specific boundaries and random values of each 32-bit field and FS-info word; block C = random combinations of 2..6 patched fields from interesting-value sets; block C2 = FAT12/16-style BPBs whose cluster count is pushed over the FAT16 limit while sector 0 itself carries the FS-info signatures; block D = fully random boot sectors; oracle = no panic/overflow/budget overrun, and accepted => independent 64-bit parse finds the geometry coherent and agrees on width, cluster size, cluster count; non-trivial = at least one geometry-relevant field differs from the base; distinct by hash of the patch set";
    let mut rep = Report::new("C07", tier, seed, "exploration", rule);
    rep.assume("the library may reject more than the property's necessary conditions (FS-info signatures, fs version, conflicting totals): rejection is never a violation");
    rep.assume("stats() on accepted volumes is only called when the independent parse finds <= 300000 clusters (a recount of 2^28 entries is legitimately long, not a hang)");
    let bases = match make_bases() {
        Ok(b) => b,
        Err(e) => {
            eprintln!("cannot build bases: {}", e);
            return 2;
        }
    };
    let nb = bases.len() as u64;
    // regression
    let mut reg = Block::new("regress");
    for f in run::regress_files("C07") {
        if let Ok(v) = run::load_replay(&f) {
            if let Ok(c) = serde_json::from_value::<MountCase>(v["case"].clone()) {
                let out = eval(&bases, &c);
                reg.record(&out, || v["case"].clone());
                if let Some(m) = out.violation {
                    if reg.failure.is_none() {
                        reg.failure = Some(Failure { message: format!("regression case {}: {}", f, m), case: v["case"].clone(), kind: "mount".into() });
                    }
                }
            }
        }
    }
    rep.add(reg);
    // block A: exhaustive 8/16-bit fields
    let n8 = FIELDS8.len() as u64 * 256;
    let n16 = FIELDS16.len() as u64 * 65536;
    let per_base_mode = n8 + n16;
    let total_a = per_base_mode * nb * 2;
    let stride_a: u64 = 1; // exhaustive in both tiers: ~1 us per mount
    let mut a = run::run_indexed("single_field_8_16_bit_exhaustive", total_a / stride_a, |idx, blk| {
        let idx = idx * stride_a;
        let bm = idx / per_base_mode;
        let r = idx % per_base_mode;
        let base = (bm / 2) as u8;
        let strict = bm % 2 == 0;
        let patch = if r < n8 {
            let (off, _) = FIELDS8[(r / 256) as usize];
            Patch { sector: 0, off, width: 1, value: (r % 256) as u32 }
        } else {
            let r = r - n8;
            let (off, _) = FIELDS16[(r / 65536) as usize];
            Patch { sector: 0, off, width: 2, value: (r % 65536) as u32 }
        };
        let c = MountCase { base, strict, patches: vec![patch], raw_sector: None };
        let out = eval(&bases, &c);
        blk.record(&out, || serde_json::to_value(&c).unwrap());
        out.violation.map(|m| Failure { message: m, case: serde_json::to_value(&c).unwrap(), kind: "mount".into() })
    });
    a.exhaustive = true;
    rep.add(a);
    // block B: 32-bit fields
    if !rep.failed() {
        let mut vals: Vec<u32> = vec![0, 1, 2, 3, 0xFFFF_FFFF, 0xFFFF_FFFE, 0x0FFF_FFFF, 0x0FFF_FFF7, 0x0FFF_FFF8, 0x0FFF_FFF4, 0x0FFF_FFF5, 0x1000_0000, 65524, 65525, 65526, 4084, 4085, 4086, 0x4161_5252, 0x6141_7272, 0xAA55_0000];
        for p in 0..32 {
            let x = 1u32 << p;
            vals.extend_from_slice(&[x, x.wrapping_sub(1), x.wrapping_add(1)]);
        }
        let mut m = Mix::new(seed, 0xB);
        for _ in 0..tier.pick(400, 20000) {
            vals.push(m.next() as u32);
            vals.push(m.below(140000) as u32);
        }
        // values relative to each base's own geometry: the limits the validation has to get exactly right
        for bimg in bases.iter() {
            if let Ok(g) = Geom::derive(&bimg.raw) {
                let c = g.clusters as u32;
                let fds = g.first_data_sector as u32;
                for d in 0..5u32 {
                    vals.push(c.wrapping_add(d));
                    vals.push(c.wrapping_sub(d));
                    vals.push(fds.wrapping_add(d));
                    vals.push(fds.wrapping_sub(d));
                    vals.push(fds.wrapping_add(g.spc as u32).wrapping_sub(d));
                    vals.push((g.tot_sec as u32).wrapping_add(d));
                    vals.push((g.tot_sec as u32).wrapping_sub(d));
                    vals.push((g.fatsz as u32).wrapping_add(d));
                    vals.push((g.fatsz as u32).wrapping_sub(d));
                }
                // the smallest total for which the width changes: clusters 4084/4085 and 65524/65525
                for lim in [4084u64, 4085, 65524, 65525] {
                    for d in 0..3u64 {
                        vals.push((g.first_data_sector + lim * g.spc + d) as u32);
                    }
                }
            }
        }
        vals.sort();
        vals.dedup();
        let nf = FIELDS32.len() as u64;
        let nv = vals.len() as u64;
        let total_b = nf * nv * nb * 2;
        let b = run::run_indexed("single_field_32_bit_boundaries", total_b, |idx, blk| {
            let vi = idx % nv;
            let fi = (idx / nv) % nf;
            let bm = idx / (nv * nf);
            let (sector, off, _) = FIELDS32[fi as usize];
            let c = MountCase { base: (bm / 2) as u8, strict: bm % 2 == 0, patches: vec![Patch { sector, off, width: 4, value: vals[vi as usize] }], raw_sector: None };
            let out = eval(&bases, &c);
            blk.record(&out, || serde_json::to_value(&c).unwrap());
            out.violation.map(|m| Failure { message: m, case: serde_json::to_value(&c).unwrap(), kind: "mount".into() })
        });
        rep.add(b);
    }
    // block C: random combinations
    if !rep.failed() {
        let n = tier.pick(300_000u32, 10_000_000u32);
        let bases_ref = &bases;
        let c = run::run_random(
            "random_field_combinations",
            seed,
            n,
            "mount",
            || run::boxed((any::<u8>(), any::<bool>(), prop::collection::vec(patch_strategy(), 2..=6)).prop_map(|(base, strict, patches)| MountCase { base: base % 5, strict, patches, raw_sector: None })),
            |c: &MountCase| eval(bases_ref, c),
        );
        rep.add(c);
    }
    // block C2: the boot sector doubling as information sector. A FAT12/16-style BPB (FATSz16 != 0) names no FS-info
    // sector, so a reader that nevertheless takes the volume for FAT32 (cluster count pushed over the limit) looks for
    // the FS-info signatures in sector 0 itself - and they can be there: "whatever bytes the boot sector contains".
    if !rep.failed() {
        let n = tier.pick(60_000u32, 2_000_000u32);
        let bases_ref = &bases;
        let c2 = run::run_random(
            "fat16_style_bpb_with_fsinfo_signatures_in_sector_0",
            seed ^ 0xC2,
            n,
            "mount",
            || {
                run::boxed((any::<u8>(), any::<bool>(), any::<u8>(), any::<u64>(), prop::collection::vec(patch_strategy(), 0..=2)).prop_map(|(base, strict, plant, rnd, extra)| {
                    let mut m = Mix::new(rnd, 7);
                    let mut patches = Vec::new();
                    // total sector count moved to the 32-bit field, with interesting / random values
                    patches.push(Patch { sector: 0, off: 19, width: 2, value: if plant & 0x80 != 0 { m.below(3) as u32 } else { 0 } });
                    let t = match m.below(6) {
                        0 => 65_525 + m.below(4000) as u32,
                        1 => 70_000 + m.below(1 << 20) as u32,
                        2 => interesting32(m.next(), &mut m),
                        3 => 0x0FFF_FFF0 + m.below(64) as u32,
                        4 => 1u32 << (16 + m.below(16)),
                        _ => m.next() as u32,
                    };
                    patches.push(Patch { sector: 0, off: 32, width: 4, value: t });
                    if plant & 1 != 0 {
                        patches.push(Patch { sector: 0, off: 0, width: 4, value: 0x4161_5252 });
                    }
                    if plant & 2 != 0 {
                        patches.push(Patch { sector: 0, off: 484, width: 4, value: 0x6141_7272 });
                    }
                    if plant & 4 != 0 {
                        patches.push(Patch { sector: 0, off: 508, width: 2, value: 0 });
                    }
                    if plant & 8 != 0 {
                        // free count / next free words of the would-be information sector
                        patches.push(Patch { sector: 0, off: 488, width: 4, value: interesting32(m.next(), &mut m) });
                        patches.push(Patch { sector: 0, off: 492, width: 4, value: interesting32(m.next(), &mut m) });
                    }
                    if plant & 0x30 == 0x30 {
                        patches.push(Patch { sector: 0, off: 13, width: 1, value: 1 << m.below(8) });
                    }
                    patches.extend(extra);
                    // FAT12/16 bases are 0, 1 and 4
                    MountCase { base: [0u8, 1, 4, 0, 1][base as usize % 5], strict, patches, raw_sector: None }
                }))
            },
            |c: &MountCase| eval(bases_ref, c),
        );
        rep.add(c2);
    }
    // block D: random byte-level damage of the BPB area (1..8 random bytes at random offsets in 0..90 and the
    // signature), and fully random boot sectors with a plausible sector size / cluster size / signature
    if !rep.failed() {
        let n = tier.pick(200_000u32, 4_000_000u32);
        let bases_ref = &bases;
        let d = run::run_random(
            "random_byte_damage_and_random_sectors",
            seed ^ 0xD,
            n,
            "mount",
            || {
                run::boxed((any::<u8>(), any::<bool>(), prop::collection::vec((0u16..92, any::<u8>()), 1..=8), any::<u8>(), prop::collection::vec(any::<u8>(), 512..=512)).prop_map(|(base, strict, damage, fix, mut bytes)| {
                    if fix & 3 != 0 {
                        // byte damage on top of the valid base
                        let patches = damage.into_iter().map(|(o, v)| Patch { sector: 0, off: if o >= 90 { 510 + (o - 90) } else { o }, width: 1, value: v as u32 }).collect();
                        return MountCase { base: base % 5, strict, patches, raw_sector: None };
                    }
                    bytes[510] = 0x55;
                    bytes[511] = 0xAA;
                    let bps = [512u16, 1024, 2048, 4096][(fix >> 2) as usize % 4];
                    bytes[11..13].copy_from_slice(&bps.to_le_bytes());
                    bytes[13] = 1 << ((fix >> 4) % 8);
                    MountCase { base: base % 5, strict, patches: vec![], raw_sector: Some(bytes) }
                }))
            },
            |c: &MountCase| eval(bases_ref, c),
        );
        rep.add(d);
    }
    let _ = json!(null);
    if !rep.failed() && tier == Tier::Thorough {
        rep.add(run::fuzz_block("mount", 3_000_000, seed, 256));
    }
    rep.finish()
}
