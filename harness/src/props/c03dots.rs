//! C03, scripted block: the reserved dot entries as operands.
//!
//! Every subdirectory holds the entries "." and ".."; a path may end in them or pass through them. Whatever the
//! library chooses to do with such a call (carry it out, refuse it), the raw image has to satisfy the structural
//! invariants afterwards - the property is stated for every API call, "successfully or with any error". No outcome
//! is predicted here: the oracle is refdec's fsck on the image after the call and after unmount.
use crate::dev::MemDev;
use crate::refdec;
use crate::run::{self, Block, CaseOut, Failure};
use crate::session::{guard, Caught, Clock, MountOpts, Session};
use crate::vol::{self, VolCfg};
use fatfs::Write;
use serde::{Deserialize, Serialize};

#[derive(Clone, Debug, Serialize, Deserialize, PartialEq)]
pub enum DotOp {
    Remove(String),
    Rename(String, String),
    CreateFile(String),
    CreateDir(String),
    /// open the directory at the path, then create a file / a directory of that name through the handle
    CreateVia(String, String, bool),
    /// open the directory at the path and remove an entry through the handle
    RemoveVia(String, String),
    /// open the file at the path (a dot entry is a directory: must fail or behave), write to it
    WriteTo(String),
}

#[derive(Clone, Debug, Serialize, Deserialize)]
pub struct DotCase {
    pub vol: VolCfg,
    pub ops: Vec<DotOp>,
}

pub fn dot_ops() -> Vec<DotOp> {
    use DotOp::*;
    let s = |x: &str| x.to_string();
    vec![
        Remove(s("d/.")),
        Remove(s("d/..")),
        Remove(s("d/e/.")),
        Remove(s("d/e/..")),
        Remove(s("empty/.")),
        Remove(s("empty/..")),
        Remove(s(".")),
        Remove(s("..")),
        Rename(s("d/e/."), s("x")),
        Rename(s("d/e/.."), s("y")),
        Rename(s("empty/."), s("moved dot")),
        Rename(s("empty/.."), s("up")),
        Rename(s("d/."), s("d/e/self")),
        Rename(s("g.txt"), s("d/.")),
        Rename(s("g.txt"), s("d/..")),
        Rename(s("g.txt"), s(".")),
        Rename(s("empty"), s("d/e/..")),
        Rename(s("d/e/."), s("d/e/.")),
        Rename(s("d/e/.."), s("d/e/..")),
        CreateFile(s("d/.")),
        CreateFile(s("d/..")),
        CreateFile(s(".")),
        CreateFile(s("..")),
        CreateDir(s("d/.")),
        CreateDir(s("d/..")),
        CreateDir(s(".")),
        CreateDir(s("..")),
        CreateDir(s("d/e/../z")),
        CreateFile(s("d/./e/../via dots.txt")),
        CreateVia(s("d/."), s("made through dot.txt"), false),
        CreateVia(s("d/.."), s("made through dotdot of a top-level directory.txt"), false),
        CreateVia(s("d/e/.."), s("made through dotdot.txt"), false),
        CreateVia(s("d/.."), s("dir through dotdot"), true),
        CreateVia(s("d/e/.."), s("dir through dotdot"), true),
        CreateVia(s("empty/."), s("first entry through dot.txt"), false),
        RemoveVia(s("d/e/.."), s("f.bin")),
        RemoveVia(s("d/.."), s("g.txt")),
        RemoveVia(s("d/.."), s("d")),
        RemoveVia(s("d/e/.."), s("e")),
        RemoveVia(s("d/e"), s(".")),
        RemoveVia(s("d/e"), s("..")),
        WriteTo(s("d/.")),
        WriteTo(s("d/e/..")),
    ]
}

fn fsck(dev: &MemDev, what: &str) -> Result<(), String> {
    let dec = dev.with_store(|s| refdec::decode(s, refdec::DecodeOpts::default())).map_err(|e| format!("{}: the image no longer decodes: {}", what, e))?;
    match dec.findings.first() {
        Some(f) => Err(format!("{}: {:?}: {}", what, f.kind, f.what)),
        None => Ok(()),
    }
}

pub fn eval(c: &DotCase) -> CaseOut {
    let mut out = CaseOut::default();
    out.hash = run::hash_str(&serde_json::to_string(c).unwrap_or_default());
    out.nontrivial = true;
    let dev = match vol::make_device(&c.vol) {
        Ok(d) => d,
        Err(e) => {
            out.violation = Some(format!("HARNESS: {}", e));
            return out;
        }
    };
    let clock = Clock::new(600_000_000_000);
    let cs = c.vol.cluster_size() as usize;
    // populate
    let pop = (|| -> Result<(), String> {
        let s = Session::mount(&dev, &clock, &MountOpts::default()).map_err(|e| format!("mount: {:?}", e))?;
        let r = s.root();
        for d in ["d", "d/e", "empty"] {
            r.create_dir(d).map_err(|e| format!("create_dir {}: {:?}", d, e))?;
        }
        for (f, n) in [("d/f.bin", cs + 7), ("g.txt", 5), ("d/e/deep file with a long name.txt", 3)] {
            let mut h = r.create_file(f).map_err(|e| format!("create_file {}: {:?}", f, e))?;
            h.write_all(&vec![0x42u8; n]).map_err(|e| format!("write {}: {:?}", f, e))?;
        }
        drop(r);
        s.unmount().map_err(|e| format!("unmount: {:?}", e))
    })();
    if let Err(e) = pop {
        out.violation = Some(format!("HARNESS: populating failed: {}", e));
        return out;
    }
    if let Err(e) = fsck(&dev, "after populating") {
        out.violation = Some(format!("HARNESS: {}", e));
        return out;
    }
    let devh = dev.handle();
    let ops = c.ops.clone();
    let clock2 = clock.clone();
    let r = guard(move || -> Result<(), String> {
        let s = Session::mount(&devh, &clock2, &MountOpts::default()).map_err(|e| format!("mount failed: {:?}", e))?;
        let mut verdict = Ok(());
        for op in &ops {
            let root = s.root();
            let res: String = match op {
                DotOp::Remove(p) => format!("{:?}", root.remove(p).map_err(|e| crate::session::ek(&e))),
                DotOp::Rename(a, b) => format!("{:?}", root.rename(a, &root, b).map_err(|e| crate::session::ek(&e))),
                DotOp::CreateFile(p) => format!("{:?}", root.create_file(p).map(|_| ()).map_err(|e| crate::session::ek(&e))),
                DotOp::CreateDir(p) => format!("{:?}", root.create_dir(p).map(|_| ()).map_err(|e| crate::session::ek(&e))),
                DotOp::CreateVia(d, n, dir) => match root.open_dir(d) {
                    Err(e) => format!("open_dir: {:?}", crate::session::ek(&e)),
                    Ok(h) => {
                        if *dir {
                            format!("{:?}", h.create_dir(n).map(|_| ()).map_err(|e| crate::session::ek(&e)))
                        } else {
                            match h.create_file(n) {
                                Err(e) => format!("{:?}", crate::session::ek(&e)),
                                Ok(mut f) => format!("created, write: {:?}", f.write_all(b"through a dot entry").map_err(|e| crate::session::ek(&e))),
                            }
                        }
                    }
                },
                DotOp::RemoveVia(d, n) => match root.open_dir(d) {
                    Err(e) => format!("open_dir: {:?}", crate::session::ek(&e)),
                    Ok(h) => format!("{:?}", h.remove(n).map_err(|e| crate::session::ek(&e))),
                },
                DotOp::WriteTo(p) => match root.open_file(p) {
                    Err(e) => format!("open_file: {:?}", crate::session::ek(&e)),
                    Ok(mut f) => format!("opened, write: {:?}", f.write_all(b"xyz").map_err(|e| crate::session::ek(&e))),
                },
            };
            drop(root);
            if let Err(e) = fsck(&s.dev, &format!("after {:?} (which returned {})", op, res)) {
                verdict = Err(e);
                break;
            }
        }
        if verdict.is_err() {
            s.abandon();
            return verdict;
        }
        let d2 = s.dev.handle();
        s.unmount().map_err(|e| format!("unmount failed: {:?}", e))?;
        fsck(&d2, &format!("after unmount at the end of {:?}", ops))
    });
    match r {
        Caught::Panic(p) => out.violation = Some(format!("{:?} panicked: {}", c.ops, p)),
        Caught::Ok(Err(e)) => out.violation = Some(e),
        Caught::Ok(Ok(())) => {}
    }
    out
}

pub fn replay(v: &serde_json::Value) -> Result<Option<String>, String> {
    let c: DotCase = serde_json::from_value(v["case"].clone()).map_err(|e| format!("bad case: {}", e))?;
    Ok(eval(&c).violation)
}

/// every single operation, and every ordered pair, on a FAT12, a FAT16 and a FAT32 volume
pub fn block(pairs: bool) -> Block {
    let vols: Vec<VolCfg> = [1usize, 8, 12].iter().map(|p| VolCfg::from_preset(*p)).collect();
    let ops = dot_ops();
    let n = ops.len() as u64;
    let per_vol = if pairs { n + n * n } else { n };
    let mut b = run::run_indexed("dot_entries_as_operands", per_vol * vols.len() as u64, |i, blk| {
        let v = &vols[(i / per_vol) as usize];
        let k = i % per_vol;
        let seq = if k < n { vec![ops[k as usize].clone()] } else { vec![ops[((k - n) / n) as usize].clone(), ops[((k - n) % n) as usize].clone()] };
        let c = DotCase { vol: v.clone(), ops: seq };
        let out = eval(&c);
        blk.record(&out, || serde_json::to_value(&c).unwrap());
        out.violation.map(|m| Failure { message: m, case: serde_json::to_value(&c).unwrap(), kind: "dots".into() })
    });
    b.exhaustive = true;
    b
}
