//! refdec: an independent FAT12/16/32 decoder and structural checker, written from the Microsoft FAT
//! specification (see DESIGN.md appendix A). It shares no code with /repo and never calls into it.

use std::collections::{HashMap, HashSet};

pub trait Img {
    fn len(&self) -> u64;
    fn read_at(&self, off: u64, buf: &mut [u8]);
    /// For sparse images whose untouched bytes are all zero: offsets of the materialised pages (and the page size)
    /// that intersect [off, off+len). None = not sparse / unknown, the caller has to read everything.
    fn zero_sparse_pages(&self, _off: u64, _len: u64) -> Option<(u64, Vec<u64>)> {
        None
    }
}

impl Img for Vec<u8> {
    fn len(&self) -> u64 {
        <[u8]>::len(self) as u64
    }
    fn read_at(&self, off: u64, buf: &mut [u8]) {
        self.as_slice().read_at(off, buf)
    }
}

impl Img for [u8] {
    fn len(&self) -> u64 {
        <[u8]>::len(self) as u64
    }
    fn read_at(&self, off: u64, buf: &mut [u8]) {
        let l = <[u8]>::len(self) as u64;
        if off + buf.len() as u64 <= l {
            buf.copy_from_slice(&self[off as usize..off as usize + buf.len()]);
        } else {
            for (i, b) in buf.iter_mut().enumerate() {
                let o = off + i as u64;
                *b = if o < l { self[o as usize] } else { 0 };
            }
        }
    }
}

impl<'a> Img for &'a [u8] {
    fn len(&self) -> u64 {
        <[u8]>::len(self) as u64
    }
    fn read_at(&self, off: u64, buf: &mut [u8]) {
        (**self).read_at(off, buf)
    }
}

pub fn rd8(img: &dyn Img, off: u64) -> u8 {
    let mut b = [0u8; 1];
    img.read_at(off, &mut b);
    b[0]
}
pub fn rd16(img: &dyn Img, off: u64) -> u16 {
    let mut b = [0u8; 2];
    img.read_at(off, &mut b);
    u16::from_le_bytes(b)
}
pub fn rd32(img: &dyn Img, off: u64) -> u32 {
    let mut b = [0u8; 4];
    img.read_at(off, &mut b);
    u32::from_le_bytes(b)
}
pub fn rdv(img: &dyn Img, off: u64, len: usize) -> Vec<u8> {
    let mut v = vec![0u8; len];
    img.read_at(off, &mut v);
    v
}

/// Raw BPB fields, no validation. Offsets per the specification.
#[derive(Clone, Debug, Default, PartialEq, Eq)]
pub struct RawBpb {
    pub jmp0: u8,
    pub byts_per_sec: u16,
    pub sec_per_clus: u8,
    pub rsvd_sec_cnt: u16,
    pub num_fats: u8,
    pub root_ent_cnt: u16,
    pub tot_sec16: u16,
    pub media: u8,
    pub fatsz16: u16,
    pub sec_per_trk: u16,
    pub num_heads: u16,
    pub hidd_sec: u32,
    pub tot_sec32: u32,
    // FAT32 layout only (valid when fatsz16 == 0)
    pub fatsz32: u32,
    pub ext_flags: u16,
    pub fs_ver: u16,
    pub root_clus: u32,
    pub fs_info: u16,
    pub bk_boot_sec: u16,
    // tail, at 36 (FAT12/16 layout) or 64 (FAT32 layout)
    pub drv_num: u8,
    pub status: u8,
    pub boot_sig: u8,
    pub vol_id: u32,
    pub vol_lab: [u8; 11],
    pub fil_sys_type: [u8; 8],
    pub sig55aa: [u8; 2],
}

impl RawBpb {
    pub fn read(img: &dyn Img) -> RawBpb {
        let s = rdv(img, 0, 512);
        Self::from_sector(&s)
    }
    pub fn from_sector(s: &[u8]) -> RawBpb {
        let u16at = |o: usize| u16::from_le_bytes([s[o], s[o + 1]]);
        let u32at = |o: usize| u32::from_le_bytes([s[o], s[o + 1], s[o + 2], s[o + 3]]);
        let mut b = RawBpb {
            jmp0: s[0],
            byts_per_sec: u16at(11),
            sec_per_clus: s[13],
            rsvd_sec_cnt: u16at(14),
            num_fats: s[16],
            root_ent_cnt: u16at(17),
            tot_sec16: u16at(19),
            media: s[21],
            fatsz16: u16at(22),
            sec_per_trk: u16at(24),
            num_heads: u16at(26),
            hidd_sec: u32at(28),
            tot_sec32: u32at(32),
            sig55aa: [s[510], s[511]],
            ..Default::default()
        };
        let tail = if b.fatsz16 == 0 {
            b.fatsz32 = u32at(36);
            b.ext_flags = u16at(40);
            b.fs_ver = u16at(42);
            b.root_clus = u32at(44);
            b.fs_info = u16at(48);
            b.bk_boot_sec = u16at(50);
            64
        } else {
            36
        };
        b.drv_num = s[tail];
        b.status = s[tail + 1];
        b.boot_sig = s[tail + 2];
        b.vol_id = u32at(tail + 3);
        b.vol_lab.copy_from_slice(&s[tail + 7..tail + 18]);
        b.fil_sys_type.copy_from_slice(&s[tail + 18..tail + 26]);
        b
    }
    pub fn layout32(&self) -> bool {
        self.fatsz16 == 0
    }
    pub fn status_off(&self) -> u64 {
        if self.layout32() {
            65
        } else {
            37
        }
    }
}

#[derive(Clone, Debug, PartialEq, Eq)]
pub struct Geom {
    pub raw: RawBpb,
    pub bps: u64,
    pub spc: u64,
    pub rsvd: u64,
    pub nfats: u64,
    pub fatsz: u64,
    pub tot_sec: u64,
    pub root_dir_sectors: u64,
    pub first_data_sector: u64,
    pub clusters: u64,
    pub width: u8,
}

impl Geom {
    /// Derive the geometry with 64-bit arithmetic. Returns Err(reason) when one of the necessary coherence
    /// conditions (those listed in property C07) fails.
    pub fn derive(raw: &RawBpb) -> Result<Geom, String> {
        let bps = raw.byts_per_sec as u64;
        if !(bps.is_power_of_two() && (512..=4096).contains(&bps)) {
            return Err(format!("bytes/sector {} not a power of two in 512..4096", bps));
        }
        let spc = raw.sec_per_clus as u64;
        if spc == 0 || !spc.is_power_of_two() {
            return Err(format!("sectors/cluster {} not a power of two", spc));
        }
        let nfats = raw.num_fats as u64;
        if nfats == 0 {
            return Err("zero FATs".into());
        }
        let fatsz = if raw.fatsz16 != 0 { raw.fatsz16 as u64 } else { raw.fatsz32 as u64 };
        if fatsz == 0 {
            return Err("zero FAT size".into());
        }
        let rsvd = raw.rsvd_sec_cnt as u64;
        if rsvd == 0 {
            return Err("zero reserved sectors".into());
        }
        let tot_sec = if raw.tot_sec16 != 0 { raw.tot_sec16 as u64 } else { raw.tot_sec32 as u64 };
        if tot_sec == 0 {
            return Err("zero total sectors".into());
        }
        let root_dir_sectors = (raw.root_ent_cnt as u64 * 32 + bps - 1) / bps;
        let first_data_sector = rsvd + nfats * fatsz + root_dir_sectors;
        if first_data_sector > u32::MAX as u64 {
            return Err("metadata regions exceed 32-bit sector numbers".into());
        }
        if first_data_sector >= tot_sec {
            return Err(format!("metadata ({} sectors) does not fit in {} sectors", first_data_sector, tot_sec));
        }
        let clusters = (tot_sec - first_data_sector) / spc;
        let width = if clusters < 4085 {
            12
        } else if clusters < 65525 {
            16
        } else {
            32
        };
        if (width == 32) != raw.layout32() {
            return Err(format!("layout (FATSz16={}) inconsistent with {} clusters", raw.fatsz16, clusters));
        }
        if width == 32 {
            if clusters > 0x0FFF_FFF4 + 11 {
                // more clusters than 28-bit entries can name
                return Err("too many clusters".into());
            }
            let rc = raw.root_clus as u64;
            if rc < 2 || rc > clusters + 1 {
                return Err(format!("root cluster {} out of range 2..={}", rc, clusters + 1));
            }
            if raw.fs_info as u64 >= rsvd {
                return Err("FS-info sector outside the reserved area".into());
            }
            if raw.bk_boot_sec as u64 >= rsvd {
                return Err("backup boot sector outside the reserved area".into());
            }
            if raw.ext_flags & 0x80 != 0 && (raw.ext_flags & 0x0F) as u64 >= raw.num_fats as u64 {
                // mirroring disabled: the named copy has to be one of the copies (otherwise the "table" lies in the data region)
                return Err(format!("active FAT {} of {} FAT copies", raw.ext_flags & 0x0F, raw.num_fats));
            }
        } else if raw.root_ent_cnt == 0 {
            return Err("FAT12/16 volume without root directory entries".into());
        }
        Ok(Geom {
            raw: raw.clone(),
            bps,
            spc,
            rsvd,
            nfats,
            fatsz,
            tot_sec,
            root_dir_sectors,
            first_data_sector,
            clusters,
            width,
        })
    }

    pub fn parse(img: &dyn Img) -> Result<Geom, String> {
        let raw = RawBpb::read(img);
        Geom::derive(&raw)
    }

    pub fn cluster_size(&self) -> u64 {
        self.bps * self.spc
    }
    pub fn max_cluster(&self) -> u32 {
        (self.clusters + 1) as u32
    }
    pub fn mirrored(&self) -> bool {
        self.width != 32 || self.raw.ext_flags & 0x80 == 0
    }
    pub fn active_copy(&self) -> u64 {
        if self.mirrored() {
            0
        } else {
            (self.raw.ext_flags & 0x0F) as u64
        }
    }
    pub fn fat_off(&self, copy: u64) -> u64 {
        (self.rsvd + copy * self.fatsz) * self.bps
    }
    pub fn fat_bytes(&self) -> u64 {
        self.fatsz * self.bps
    }
    pub fn root_off(&self) -> u64 {
        (self.rsvd + self.nfats * self.fatsz) * self.bps
    }
    pub fn root_bytes(&self) -> u64 {
        self.raw.root_ent_cnt as u64 * 32
    }
    /// Slots of the fixed root directory as a lenient reader sees them: the declared count rounded up to whole
    /// sectors. The specification asks for a count that fills whole sectors; where it does not, the tail of the
    /// last root sector belongs to nothing else, and this library (like others) uses it.
    pub fn root_slots(&self) -> usize {
        (self.root_dir_sectors * self.bps / 32) as usize
    }
    pub fn data_off(&self) -> u64 {
        self.first_data_sector * self.bps
    }
    pub fn cluster_off(&self, n: u32) -> u64 {
        (self.first_data_sector + (n as u64 - 2) * self.spc) * self.bps
    }
    pub fn volume_bytes(&self) -> u64 {
        self.tot_sec * self.bps
    }
    pub fn data_end(&self) -> u64 {
        self.cluster_off(2) + self.clusters * self.cluster_size()
    }
    pub fn status_off(&self) -> u64 {
        self.raw.status_off()
    }
    pub fn fsinfo_off(&self) -> u64 {
        self.raw.fs_info as u64 * self.bps
    }
    /// number of entries one FAT copy can hold
    pub fn fat_capacity(&self) -> u64 {
        self.fat_bytes() * 8 / self.width as u64
    }

    /// raw FAT entry of cluster n in the given copy (FAT32: all 32 bits)
    pub fn fat_raw(&self, img: &dyn Img, copy: u64, n: u32) -> u32 {
        let base = self.fat_off(copy);
        match self.width {
            12 => {
                let o = base + n as u64 + n as u64 / 2;
                let w = rd16(img, o);
                if n & 1 == 0 {
                    (w & 0x0FFF) as u32
                } else {
                    (w >> 4) as u32
                }
            }
            16 => rd16(img, base + 2 * n as u64) as u32,
            _ => rd32(img, base + 4 * n as u64),
        }
    }
    /// FAT value (FAT32: low 28 bits) from the active copy
    pub fn fat(&self, img: &dyn Img, n: u32) -> u32 {
        let v = self.fat_raw(img, self.active_copy(), n);
        if self.width == 32 {
            v & 0x0FFF_FFFF
        } else {
            v
        }
    }
    pub fn eoc_min(&self) -> u32 {
        match self.width {
            12 => 0xFF8,
            16 => 0xFFF8,
            _ => 0x0FFF_FFF8,
        }
    }
    pub fn bad_mark(&self) -> u32 {
        self.eoc_min() - 1
    }
    pub fn is_eoc(&self, v: u32) -> bool {
        v >= self.eoc_min()
    }

    /// Whole active FAT as values for clusters 0..=max_cluster (FAT32: low 28 bits)
    pub fn fat_table(&self, img: &dyn Img) -> Vec<u32> {
        let n = self.max_cluster() as usize + 1;
        let copy = self.active_copy();
        let bytes_needed = match self.width {
            12 => n + n / 2 + 2,
            16 => n * 2,
            _ => n * 4,
        };
        let buf = rdv(img, self.fat_off(copy), bytes_needed);
        let mut t = Vec::with_capacity(n);
        for i in 0..n {
            let v = match self.width {
                12 => {
                    let o = i + i / 2;
                    let w = u16::from_le_bytes([buf[o], buf[o + 1]]);
                    if i & 1 == 0 {
                        (w & 0x0FFF) as u32
                    } else {
                        (w >> 4) as u32
                    }
                }
                16 => u16::from_le_bytes([buf[2 * i], buf[2 * i + 1]]) as u32,
                _ => u32::from_le_bytes([buf[4 * i], buf[4 * i + 1], buf[4 * i + 2], buf[4 * i + 3]]) & 0x0FFF_FFFF,
            };
            t.push(v);
        }
        t
    }

    pub fn count_free(&self, img: &dyn Img) -> u64 {
        self.fat_view(img).count_free()
    }
}

/// FAT values of clusters 0..=max_cluster: dense table, or only the non-zero entries of a sparse volume
#[derive(Clone, Debug)]
pub enum FatView {
    Dense(Vec<u32>),
    Sparse { nonzero: HashMap<u32, u32>, len: u64 },
}

impl FatView {
    pub fn get(&self, n: u32) -> u32 {
        match self {
            FatView::Dense(v) => v.get(n as usize).copied().unwrap_or(0),
            FatView::Sparse { nonzero, .. } => nonzero.get(&n).copied().unwrap_or(0),
        }
    }
    pub fn len(&self) -> u64 {
        match self {
            FatView::Dense(v) => v.len() as u64,
            FatView::Sparse { len, .. } => *len,
        }
    }
    /// (cluster, value) of every non-zero entry with cluster >= 2, ascending
    pub fn nonzero(&self) -> Vec<(u32, u32)> {
        match self {
            FatView::Dense(v) => v.iter().enumerate().skip(2).filter(|(_, x)| **x != 0).map(|(i, x)| (i as u32, *x)).collect(),
            FatView::Sparse { nonzero, .. } => {
                let mut r: Vec<(u32, u32)> = nonzero.iter().filter(|(k, _)| **k >= 2).map(|(k, v)| (*k, *v)).collect();
                r.sort();
                r
            }
        }
    }
    pub fn count_free(&self) -> u64 {
        match self {
            FatView::Dense(v) => v[2..].iter().filter(|x| **x == 0).count() as u64,
            FatView::Sparse { nonzero, len } => (*len - 2) - nonzero.keys().filter(|k| **k >= 2).count() as u64,
        }
    }
}

impl Geom {
    /// FAT of the active copy; uses the sparse representation when the image can tell which pages were ever written
    pub fn fat_view(&self, img: &dyn Img) -> FatView {
        let n = self.max_cluster() as u64 + 1;
        let base = self.fat_off(self.active_copy());
        let bytes = match self.width {
            12 => n + n / 2 + 2,
            16 => n * 2,
            _ => n * 4,
        };
        if self.width == 32 && n > 400_000 {
            if let Some((psz, pages)) = img.zero_sparse_pages(base, bytes) {
                let mut nonzero = HashMap::new();
                for p in pages {
                    let lo = p.max(base);
                    let hi = (p + psz).min(base + bytes);
                    if hi <= lo {
                        continue;
                    }
                    // align to entries
                    let first = (lo - base + 3) / 4;
                    let last = (hi - base) / 4;
                    if last <= first {
                        continue;
                    }
                    let buf = rdv(img, base + first * 4, ((last - first) * 4) as usize);
                    for i in 0..(last - first) as usize {
                        let v = u32::from_le_bytes([buf[4 * i], buf[4 * i + 1], buf[4 * i + 2], buf[4 * i + 3]]) & 0x0FFF_FFFF;
                        if v != 0 {
                            nonzero.insert((first as usize + i) as u32, v);
                        }
                    }
                    // an entry straddling a page boundary cannot happen: pages are 4-byte aligned relative to the volume
                    // start only if base is; handle the unaligned case by re-reading boundary entries
                    if (base % 4) != 0 {
                        for e in [first.saturating_sub(1), last] {
                            if e < n {
                                let v = rd32(img, base + e * 4) & 0x0FFF_FFFF;
                                if v != 0 {
                                    nonzero.insert(e as u32, v);
                                }
                            }
                        }
                    }
                }
                return FatView::Sparse { nonzero, len: n };
            }
        }
        FatView::Dense(self.fat_table(img))
    }
}

// ------------------------------------------------------------------------------------------------
// directory slots

pub fn sfn_checksum(name: &[u8]) -> u8 {
    let mut sum: u8 = 0;
    for b in &name[..11] {
        sum = ((sum & 1) << 7).wrapping_add(sum >> 1).wrapping_add(*b);
    }
    sum
}

#[derive(Clone, Debug)]
pub struct Slot {
    pub abs: u64,
    pub raw: [u8; 32],
}

impl Slot {
    pub fn is_end(&self) -> bool {
        self.raw[0] == 0
    }
    pub fn is_deleted(&self) -> bool {
        self.raw[0] == 0xE5
    }
    pub fn attr(&self) -> u8 {
        self.raw[11]
    }
    /// long-name slot by the specification's test (attr & 0x3F == 0x0F)
    pub fn is_lfn(&self) -> bool {
        self.raw[11] & 0x3F == 0x0F
    }
    pub fn lfn_units(&self) -> [u16; 13] {
        let r = &self.raw;
        let mut u = [0u16; 13];
        let pos = [1, 3, 5, 7, 9, 14, 16, 18, 20, 22, 24, 28, 30];
        for (i, p) in pos.iter().enumerate() {
            u[i] = u16::from_le_bytes([r[*p], r[*p + 1]]);
        }
        u
    }
}

#[derive(Clone, Debug, PartialEq, Eq)]
pub enum DirLoc {
    FixedRoot,
    Chain(u32),
}

#[derive(Clone, Copy, Debug, PartialEq, Eq, Hash, PartialOrd, Ord)]
pub enum Fk {
    FatRange,
    Cycle,
    CrossLink,
    Lost,
    SizeChain,
    DotEntries,
    AfterEnd,
    LfnRun,
    Orphan,
    DupShort,
    DupLong,
    DirSize,
    BadShortName,
    Reserved,
    Geometry,
    Depth,
    FsInfo,
}

#[derive(Clone, Debug)]
pub struct Finding {
    pub kind: Fk,
    pub what: String,
}

#[derive(Clone, Debug)]
pub struct Ent {
    pub short: [u8; 11],
    pub attr: u8,
    pub nt: u8,
    pub ctime_cs: u8,
    pub ctime: u16,
    pub cdate: u16,
    pub adate: u16,
    pub mtime: u16,
    pub mdate: u16,
    pub first_cluster: u32,
    pub size: u32,
    pub long: Option<Vec<u16>>,
    /// absolute offset of the first slot of the entry (its first long-name slot, or the short slot)
    pub first_abs: u64,
    pub short_abs: u64,
    /// absolute offsets of all slots of this entry, in directory order
    pub slot_abs: Vec<u64>,
    pub clusters: Vec<u32>,
    pub data: Option<Vec<u8>>,
    pub child: Option<Box<DirNode>>,
    pub obj: usize,
}

impl Ent {
    pub fn is_dir(&self) -> bool {
        self.attr & 0x10 != 0
    }
    pub fn is_label(&self) -> bool {
        self.attr & 0x08 != 0
    }
    pub fn is_dot(&self) -> bool {
        &self.short == b".          " || &self.short == b"..         "
    }
    /// short name as "BASE.EXT" bytes with the 0x05 translation, no case flags applied
    pub fn short_display(&self) -> Vec<u8> {
        short_display(&self.short, 0)
    }
    /// the visible name as UTF-16 units: the long name if there is a valid run, else the short name with the
    /// NT case flags applied (OEM bytes >= 0x80 rendered as U+FFFD, as the library's default converter does)
    pub fn visible_units(&self) -> Vec<u16> {
        if let Some(l) = &self.long {
            return l.clone();
        }
        short_display(&self.short, self.nt)
            .iter()
            .map(|b| if *b < 0x80 { *b as u16 } else { 0xFFFD })
            .collect()
    }
    pub fn visible_string(&self) -> String {
        String::from_utf16_lossy(&self.visible_units())
    }
    pub fn short_string(&self) -> String {
        self.short_display().iter().map(|b| if *b < 0x80 { *b as char } else { '\u{FFFD}' }).collect()
    }
}

pub fn short_display(short: &[u8; 11], nt: u8) -> Vec<u8> {
    let mut base: Vec<u8> = short[..8].to_vec();
    while base.last() == Some(&b' ') {
        base.pop();
    }
    let mut ext: Vec<u8> = short[8..].to_vec();
    while ext.last() == Some(&b' ') {
        ext.pop();
    }
    if nt & 0x08 != 0 {
        base.make_ascii_lowercase();
    }
    if nt & 0x10 != 0 {
        ext.make_ascii_lowercase();
    }
    if !base.is_empty() && base[0] == 0x05 {
        base[0] = 0xE5;
    }
    let mut out = base;
    if !ext.is_empty() {
        out.push(b'.');
        out.extend_from_slice(&ext);
    }
    out
}

#[derive(Clone, Debug, Default)]
pub struct DirNode {
    pub obj: usize,
    pub clusters: Vec<u32>,
    pub entries: Vec<Ent>,
    /// number of slots (of any kind) before the end marker
    pub used_slots: usize,
    pub total_slots: usize,
    /// for every slot: 0 = end/never used, 1 = deleted, 2 = live (belongs to an entry), 3 = orphan long-name slot
    pub slot_state: Vec<u8>,
    pub slot_abs: Vec<u64>,
    pub label: Option<[u8; 11]>,
}

#[derive(Clone, Debug)]
pub struct ObjInfo {
    pub path: String,
    pub is_dir: bool,
    pub clusters: Vec<u32>,
    pub short_abs: u64,
    pub parent: usize,
}

pub struct Decoded {
    pub geom: Geom,
    pub root: DirNode,
    pub findings: Vec<Finding>,
    pub owner: HashMap<u32, usize>,
    pub objects: Vec<ObjInfo>,
    pub fat: FatView,
    pub free: u64,
}

pub struct DecodeOpts {
    pub read_data: bool,
    pub max_depth: usize,
    /// files larger than this are not read (sparse large-volume tests)
    pub max_file_read: u64,
}

impl Default for DecodeOpts {
    fn default() -> Self {
        DecodeOpts { read_data: true, max_depth: 120, max_file_read: 64 << 20 }
    }
}

/// outcome of the independent backwards parse of the long-name slots preceding a short entry
#[derive(Clone, Debug, PartialEq, Eq)]
pub enum RunVerdict {
    /// no long-name slot directly precedes the short entry
    None,
    /// a complete run: the units (terminator and padding stripped), the number of slots it uses,
    /// and whether terminator/padding are well formed
    Ok { units: Vec<u16>, nslots: usize, well_padded: bool },
    /// long-name slots precede the entry but do not form a valid run for it
    Broken(String),
}

/// `pending`: the long-name slots that directly precede the short entry (directory order).
/// `strict_attr`: not used for classification here (the caller classifies slots); kept for symmetry.
pub fn parse_run_backwards(pending: &[&Slot], short: &[u8; 11]) -> RunVerdict {
    parse_run_backwards_with(pending, short, 0x3F, false)
}

/// `idx_mask`: which bits of the order byte form the index (the specification defines 0x40 = last and indices
/// 1..20; bits 5 and 7 are undefined: 0x3F counts bit 5 into the index, 0x1F ignores it); `reject_bit7`: treat an
/// order byte with bit 7 set as invalid.
pub fn parse_run_backwards_with(pending: &[&Slot], short: &[u8; 11], idx_mask: u8, reject_bit7: bool) -> RunVerdict {
    if pending.is_empty() {
        return RunVerdict::None;
    }
    let chk = sfn_checksum(short);
    let mut units: Vec<u16> = Vec::new();
    let mut expect = 1u8;
    let mut nslots = 0usize;
    let mut complete = false;
    for s in pending.iter().rev() {
        let ord = s.raw[0];
        let idx = ord & idx_mask;
        if reject_bit7 && ord & 0x80 != 0 {
            return RunVerdict::Broken("order byte with bit 7 set".into());
        }
        if idx != expect {
            return RunVerdict::Broken(format!("index {} where {} expected", idx, expect));
        }
        if s.raw[13] != chk {
            return RunVerdict::Broken(format!("checksum {:02x} != {:02x}", s.raw[13], chk));
        }
        if idx > 20 {
            return RunVerdict::Broken("more than 20 slots".into());
        }
        units.extend_from_slice(&s.lfn_units());
        nslots += 1;
        if ord & 0x40 != 0 {
            complete = true;
            break;
        }
        expect += 1;
    }
    if !complete {
        return RunVerdict::Broken("no slot carries the last-flag".into());
    }
    // terminator / padding
    let mut well_padded = true;
    let end = units.iter().position(|u| *u == 0);
    let name: Vec<u16> = match end {
        Some(p) => {
            if units[p + 1..].iter().any(|u| *u != 0xFFFF) {
                well_padded = false;
            }
            // the terminator must be in the last slot of the name
            if p / 13 != nslots - 1 {
                well_padded = false;
            }
            // 0xFFFF is the padding value, never a character: a name that contains it before the terminator is
            // malformed (readers differ on whether the padding-looking units count)
            if units[..p].iter().any(|u| *u == 0xFFFF) {
                well_padded = false;
            }
            units[..p].to_vec()
        }
        None => {
            // no terminator: legal only when the name fills its last slot; 0xFFFF is padding, never a character
            if units.iter().any(|u| *u == 0xFFFF) {
                well_padded = false;
            }
            let mut n = units.clone();
            while n.last() == Some(&0xFFFF) {
                n.pop();
            }
            n
        }
    };
    if name.is_empty() {
        return RunVerdict::Broken("empty long name".into());
    }
    if name.len() > 255 {
        return RunVerdict::Broken(format!("{} units > 255", name.len()));
    }
    RunVerdict::Ok { units: name, nslots, well_padded }
}

struct Walker<'a> {
    img: &'a dyn Img,
    g: Geom,
    fat: FatView,
    findings: Vec<Finding>,
    owner: HashMap<u32, usize>,
    objects: Vec<ObjInfo>,
    opts: DecodeOpts,
    dir_clusters_seen: HashSet<u32>,
}

impl<'a> Walker<'a> {
    fn err(&mut self, kind: Fk, what: String) {
        if self.findings.len() < 64 {
            self.findings.push(Finding { kind, what });
        }
    }

    /// follow a chain from `first`, claiming each cluster for `obj`
    fn chain(&mut self, first: u32, obj: usize, what: &str) -> Vec<u32> {
        let mut out = Vec::new();
        let mut c = first;
        let maxc = self.g.max_cluster();
        loop {
            if c < 2 || c > maxc {
                self.err(Fk::FatRange, format!("{}: link to cluster {} outside 2..={}", what, c, maxc));
                break;
            }
            if let Some(o) = self.owner.get(&c).copied() {
                if o == obj {
                    self.err(Fk::Cycle, format!("{}: chain revisits cluster {}", what, c));
                } else {
                    let other = self.objects[o].path.clone();
                    self.err(Fk::CrossLink, format!("{}: cluster {} also belongs to {}", what, c, other));
                }
                break;
            }
            self.owner.insert(c, obj);
            out.push(c);
            let v = self.fat.get(c);
            if self.g.is_eoc(v) {
                break;
            }
            if v == 0 {
                self.err(Fk::FatRange, format!("{}: chain runs into free cluster entry at {}", what, c));
                break;
            }
            if v == self.g.bad_mark() {
                self.err(Fk::FatRange, format!("{}: chain runs into bad-cluster mark at {}", what, c));
                break;
            }
            c = v;
            if out.len() as u64 > self.g.clusters + 2 {
                self.err(Fk::Cycle, format!("{}: chain longer than the volume", what));
                break;
            }
        }
        out
    }

    fn read_slots(&self, loc: &DirLoc, clusters: &[u32]) -> Vec<Slot> {
        let mut slots = Vec::new();
        match loc {
            DirLoc::FixedRoot => {
                let base = self.g.root_off();
                let n = self.g.root_slots();
                let buf = rdv(self.img, base, n * 32);
                for i in 0..n {
                    let mut raw = [0u8; 32];
                    raw.copy_from_slice(&buf[i * 32..i * 32 + 32]);
                    slots.push(Slot { abs: base + i as u64 * 32, raw });
                }
            }
            DirLoc::Chain(_) => {
                let cs = self.g.cluster_size() as usize;
                for c in clusters {
                    let base = self.g.cluster_off(*c);
                    let buf = rdv(self.img, base, cs);
                    for i in 0..cs / 32 {
                        let mut raw = [0u8; 32];
                        raw.copy_from_slice(&buf[i * 32..i * 32 + 32]);
                        slots.push(Slot { abs: base + i as u64 * 32, raw });
                    }
                }
            }
        }
        slots
    }

    fn dir(&mut self, loc: DirLoc, obj: usize, parent_cluster: u32, self_cluster: u32, depth: usize) -> DirNode {
        let path = self.objects[obj].path.clone();
        let clusters = match &loc {
            DirLoc::FixedRoot => Vec::new(),
            DirLoc::Chain(first) => {
                let c = self.chain(*first, obj, &format!("dir {}", path));
                for x in &c {
                    self.dir_clusters_seen.insert(*x);
                }
                c
            }
        };
        self.objects[obj].clusters = clusters.clone();
        let slots = self.read_slots(&loc, &clusters);
        let mut node = DirNode {
            obj,
            clusters,
            total_slots: slots.len(),
            slot_state: vec![0; slots.len()],
            slot_abs: slots.iter().map(|s| s.abs).collect(),
            ..Default::default()
        };
        let is_root = obj == 0;
        let mut pending: Vec<usize> = Vec::new();
        let mut i = 0usize;
        let mut ended = false;
        while i < slots.len() {
            let s = &slots[i];
            if ended {
                if s.raw[0] != 0 {
                    self.err(Fk::AfterEnd, format!("dir {}: slot {} after the end marker has first byte {:02x}", path, i, s.raw[0]));
                    break;
                }
                i += 1;
                continue;
            }
            if s.is_end() {
                ended = true;
                node.used_slots = i;
                for p in pending.drain(..) {
                    node.slot_state[p] = 3;
                    self.findings.push(Finding { kind: Fk::Orphan, what: format!("dir {}: orphan long-name slot {} before the end marker", path, p) });
                }
                i += 1;
                continue;
            }
            if s.is_deleted() {
                node.slot_state[i] = 1;
                for p in pending.drain(..) {
                    node.slot_state[p] = 3;
                    self.findings.push(Finding { kind: Fk::Orphan, what: format!("dir {}: orphan long-name slot {} before a deleted slot", path, p) });
                }
                i += 1;
                continue;
            }
            if s.is_lfn() {
                pending.push(i);
                i += 1;
                continue;
            }
            // short entry
            let mut short = [0u8; 11];
            short.copy_from_slice(&s.raw[..11]);
            let pend_slots: Vec<&Slot> = pending.iter().map(|p| &slots[*p]).collect();
            let verdict = parse_run_backwards(&pend_slots, &short);
            let mut long = None;
            let mut first_idx = i;
            match verdict {
                RunVerdict::None => {}
                RunVerdict::Ok { units, nslots, well_padded } => {
                    let extra = pending.len() - nslots;
                    for p in &pending[..extra] {
                        node.slot_state[*p] = 3;
                        self.findings.push(Finding { kind: Fk::Orphan, what: format!("dir {}: orphan long-name slot {} before a complete run", path, p) });
                    }
                    for p in &pending[extra..] {
                        node.slot_state[*p] = 2;
                        let ps = &slots[*p];
                        if ps.raw[12] != 0 || ps.raw[26] != 0 || ps.raw[27] != 0 || ps.raw[11] != 0x0F {
                            self.findings.push(Finding { kind: Fk::LfnRun, what: format!("dir {}: long-name slot {} has attr/type/cluster fields {:02x}/{:02x}/{:02x}{:02x}", path, p, ps.raw[11], ps.raw[12], ps.raw[27], ps.raw[26]) });
                        }
                    }
                    if !well_padded {
                        self.findings.push(Finding { kind: Fk::LfnRun, what: format!("dir {}: long name before slot {} has a malformed terminator/padding", path, i) });
                    }
                    first_idx = pending[extra];
                    long = Some(units);
                }
                RunVerdict::Broken(why) => {
                    for p in &pending {
                        node.slot_state[*p] = 3;
                    }
                    self.findings.push(Finding { kind: Fk::LfnRun, what: format!("dir {}: broken long-name run before slot {}: {}", path, i, why) });
                }
            }
            pending.clear();
            node.slot_state[i] = 2;
            let r = &s.raw;
            let u16at = |o: usize| u16::from_le_bytes([r[o], r[o + 1]]);
            let hi = if self.g.width == 32 { u16at(20) as u32 } else { 0 };
            let mut e = Ent {
                short,
                attr: r[11],
                nt: r[12],
                ctime_cs: r[13],
                ctime: u16at(14),
                cdate: u16at(16),
                adate: u16at(18),
                mtime: u16at(22),
                mdate: u16at(24),
                first_cluster: (hi << 16) | u16at(26) as u32,
                size: u32::from_le_bytes([r[28], r[29], r[30], r[31]]),
                long,
                first_abs: slots[first_idx].abs,
                short_abs: s.abs,
                slot_abs: (first_idx..=i).map(|k| slots[k].abs).collect(),
                clusters: Vec::new(),
                data: None,
                child: None,
                obj: usize::MAX,
            };
            if e.is_label() && !e.is_dir() {
                if node.label.is_none() {
                    node.label = Some(e.short);
                }
                node.entries.push(e);
                i += 1;
                continue;
            }
            // short-name legality (for entries other than dot entries)
            let name_s = String::from_utf16_lossy(&e.visible_units());
            let child_path = if path == "/" { format!("/{}", name_s) } else { format!("{}/{}", path, name_s) };
            if e.is_dot() {
                // handled below
            } else if let Err(w) = check_short_name(&e.short) {
                self.findings.push(Finding { kind: Fk::BadShortName, what: format!("{}: {}", child_path, w) });
            }
            if e.is_dir() {
                if e.size != 0 {
                    self.err(Fk::DirSize, format!("{}: directory with size {}", child_path, e.size));
                }
                if e.is_dot() {
                    // dot entries must be the first two slots of a non-root directory
                    let idx_live = node.entries.len();
                    if is_root {
                        self.err(Fk::DotEntries, format!("{}: dot entry in the root directory", child_path));
                    } else if &e.short == b".          " {
                        if i != 0 || idx_live != 0 {
                            self.err(Fk::DotEntries, format!("{}: '.' is not the first slot", child_path));
                        }
                        if e.first_cluster != self_cluster {
                            self.err(Fk::DotEntries, format!("{}: '.' points at {} not {}", child_path, e.first_cluster, self_cluster));
                        }
                    } else {
                        if i != 1 || idx_live != 1 {
                            self.err(Fk::DotEntries, format!("{}: '..' is not the second slot", child_path));
                        }
                        if e.first_cluster != parent_cluster {
                            self.err(Fk::DotEntries, format!("{}: '..' points at {} not {}", child_path, e.first_cluster, parent_cluster));
                        }
                    }
                } else {
                    let cobj = self.objects.len();
                    self.objects.push(ObjInfo { path: child_path.clone(), is_dir: true, clusters: Vec::new(), short_abs: e.short_abs, parent: obj });
                    e.obj = cobj;
                    if e.first_cluster < 2 {
                        self.err(Fk::FatRange, format!("{}: directory without a cluster", child_path));
                    } else if depth >= self.opts.max_depth {
                        self.err(Fk::Depth, format!("{}: nesting deeper than {}", child_path, self.opts.max_depth));
                    } else if self.dir_clusters_seen.contains(&e.first_cluster) {
                        self.err(Fk::CrossLink, format!("{}: directory cluster {} already belongs to a directory", child_path, e.first_cluster));
                    } else {
                        let pc = if is_root { 0 } else { self_cluster };
                        let child = self.dir(DirLoc::Chain(e.first_cluster), cobj, pc, e.first_cluster, depth + 1);
                        e.clusters = child.clusters.clone();
                        e.child = Some(Box::new(child));
                    }
                }
            } else {
                let cobj = self.objects.len();
                self.objects.push(ObjInfo { path: child_path.clone(), is_dir: false, clusters: Vec::new(), short_abs: e.short_abs, parent: obj });
                e.obj = cobj;
                let cs = self.g.cluster_size();
                if e.first_cluster == 0 {
                    if e.size != 0 {
                        self.err(Fk::SizeChain, format!("{}: size {} but no cluster", child_path, e.size));
                    }
                    e.data = Some(Vec::new());
                } else {
                    e.clusters = self.chain(e.first_cluster, cobj, &format!("file {}", child_path));
                    self.objects[cobj].clusters = e.clusters.clone();
                    let need = (e.size as u64 + cs - 1) / cs;
                    if e.size == 0 {
                        self.err(Fk::SizeChain, format!("{}: empty file owns cluster {}", child_path, e.first_cluster));
                    } else if need != e.clusters.len() as u64 {
                        self.err(Fk::SizeChain, format!("{}: size {} needs {} clusters, chain has {}", child_path, e.size, need, e.clusters.len()));
                    }
                    if self.opts.read_data && (e.size as u64) <= self.opts.max_file_read {
                        let mut data = Vec::with_capacity(e.size as usize);
                        let mut left = e.size as u64;
                        for c in &e.clusters {
                            if left == 0 {
                                break;
                            }
                            let n = left.min(cs);
                            data.extend_from_slice(&rdv(self.img, self.g.cluster_off(*c), n as usize));
                            left -= n;
                        }
                        e.data = Some(data);
                    }
                }
            }
            node.entries.push(e);
            i += 1;
        }
        if !ended {
            node.used_slots = slots.len();
            for p in pending.drain(..) {
                node.slot_state[p] = 3;
                self.findings.push(Finding { kind: Fk::Orphan, what: format!("dir {}: orphan long-name slot {} at the end of the directory", path, p) });
            }
        }
        if !is_root {
            let dots = node.entries.iter().filter(|e| e.is_dot()).count();
            if dots != 2 {
                self.err(Fk::DotEntries, format!("dir {}: {} dot entries", path, dots));
            }
        }
        // duplicates
        let mut shorts: HashSet<[u8; 11]> = HashSet::new();
        let mut longs: HashSet<String> = HashSet::new();
        let mut dups: Vec<Finding> = Vec::new();
        for e in &node.entries {
            if e.is_label() && !e.is_dir() {
                continue;
            }
            if !shorts.insert(e.short) {
                dups.push(Finding { kind: Fk::DupShort, what: format!("dir {}: duplicate short name {:?}", path, String::from_utf8_lossy(&e.short)) });
            }
            let f = fold(&String::from_utf16_lossy(&e.visible_units()));
            if !longs.insert(f.clone()) {
                dups.push(Finding { kind: Fk::DupLong, what: format!("dir {}: duplicate name {:?}", path, f) });
            }
        }
        self.findings.extend(dups);
        node
    }
}

/// case folding used for name comparison: full Unicode upper-casing from std (not the code under test)
pub fn fold(s: &str) -> String {
    s.chars().flat_map(|c| c.to_uppercase()).collect()
}

/// legality of an 11-byte short name per the specification
pub fn check_short_name(n: &[u8; 11]) -> Result<(), String> {
    if n[0] == b' ' {
        return Err("short name starts with a space".into());
    }
    let legal = |b: u8| -> bool {
        matches!(b, b'A'..=b'Z' | b'0'..=b'9' | b'!' | b'#' | b'$' | b'%' | b'&' | b'\'' | b'(' | b')' | b'-' | b'@' | b'^' | b'_' | b'`' | b'{' | b'}' | b'~')
            || b >= 0x80
    };
    for (part, rng) in [("base", 0..8usize), ("extension", 8..11usize)] {
        let p = &n[rng];
        let len = p.iter().rposition(|b| *b != b' ').map_or(0, |x| x + 1);
        for (k, b) in p[..len].iter().enumerate() {
            let b = if part == "base" && k == 0 && *b == 0x05 { 0xE5 } else { *b };
            if !legal(b) {
                return Err(format!("illegal byte {:02x} in the {} of short name {:?}", b, part, String::from_utf8_lossy(n)));
            }
        }
    }
    Ok(())
}

pub fn decode(img: &dyn Img, opts: DecodeOpts) -> Result<Decoded, String> {
    let g = Geom::parse(img)?;
    let fat = g.fat_view(img);
    let mut w = Walker {
        img,
        g: g.clone(),
        fat,
        findings: Vec::new(),
        owner: HashMap::new(),
        objects: vec![ObjInfo { path: "/".into(), is_dir: true, clusters: Vec::new(), short_abs: 0, parent: 0 }],
        opts,
        dir_clusters_seen: HashSet::new(),
    };
    let root = if g.width == 32 {
        w.dir(DirLoc::Chain(g.raw.root_clus), 0, 0, g.raw.root_clus, 0)
    } else {
        w.dir(DirLoc::FixedRoot, 0, 0, 0, 0)
    };
    // FAT-level checks
    let maxc = g.max_cluster();
    let mut lost = 0u64;
    for (c, v) in w.fat.nonzero() {
        if c > maxc {
            continue;
        }
        if v == g.bad_mark() {
            continue;
        }
        if !g.is_eoc(v) && (v < 2 || v > maxc) {
            w.err(Fk::FatRange, format!("FAT[{}] = {:#x} out of range", c, v));
        }
        if !w.owner.contains_key(&c) {
            lost += 1;
            if lost <= 4 {
                w.err(Fk::Lost, format!("cluster {} is allocated (FAT value {:#x}) but belongs to no file or directory", c, v));
            }
        }
    }
    if lost > 4 {
        w.err(Fk::Lost, format!("{} lost clusters in total", lost));
    }
    let free = w.fat.count_free();
    // reserved entries
    let f0 = g.fat_raw(img, g.active_copy(), 0);
    let want0 = match g.width {
        12 => 0xF00 | g.raw.media as u32,
        16 => 0xFF00 | g.raw.media as u32,
        _ => 0x0FFF_FF00 | g.raw.media as u32,
    };
    let f0m = if g.width == 32 { f0 & 0x0FFF_FFFF } else { f0 };
    if f0m != want0 {
        w.err(Fk::Reserved, format!("FAT[0] = {:#x}, expected {:#x}", f0m, want0));
    }
    Ok(Decoded { geom: g, root, findings: w.findings, owner: w.owner, objects: w.objects, fat: w.fat, free })
}

impl Decoded {
    pub fn errors_of(&self, kinds: &[Fk]) -> Vec<&Finding> {
        self.findings.iter().filter(|f| kinds.contains(&f.kind)).collect()
    }
    pub fn find_dir<'a>(&'a self, path: &[String]) -> Option<&'a DirNode> {
        let mut d = &self.root;
        for comp in path {
            let f = fold(comp);
            let e = d.entries.iter().find(|e| !e.is_label() && e.is_dir() && !e.is_dot() && fold(&e.visible_string()) == f)?;
            d = e.child.as_deref()?;
        }
        Some(d)
    }
}

/// FS-info sector fields (FAT32): (lead sig, struct sig, free count, next free, trail sig)
pub fn fsinfo(img: &dyn Img, g: &Geom) -> (u32, u32, u32, u32, u32) {
    let o = g.fsinfo_off();
    (rd32(img, o), rd32(img, o + 484), rd32(img, o + 488), rd32(img, o + 492), rd32(img, o + 508))
}


/// content of a file read straight through the table from its entry's first cluster and size, without the
/// ownership bookkeeping of `decode` (which gives a cluster to the first entry that claims it). None if the chain
/// is shorter than the size, leaves the data region or loops.
pub fn read_chain_raw(img: &dyn Img, g: &Geom, first: u32, size: u64) -> Option<Vec<u8>> {
    let cs = g.cluster_size();
    let mut out = Vec::with_capacity(size as usize);
    let mut c = first;
    let mut left = size;
    let mut steps = 0u64;
    while left > 0 {
        if c < 2 || c > g.max_cluster() || steps > g.clusters {
            return None;
        }
        let n = left.min(cs);
        out.extend_from_slice(&rdv(img, g.cluster_off(c), n as usize));
        left -= n;
        steps += 1;
        if left > 0 {
            let v = g.fat(img, c);
            if g.is_eoc(v) || v == 0 || v == g.bad_mark() {
                return None;
            }
            c = v;
        }
    }
    Some(out)
}
