//! Session: a mounted library FileSystem on a MemDev, with handle slots that may outlive single calls.
//! The FileSystem is boxed and leaked to obtain 'static handles; `unmount`/`abandon` reclaim or forget it.

use crate::dev::{DevErr, MemDev};
use crate::tree::{TNode, Ts};
use fatfs::{Read, Seek, Write};
use std::cell::Cell;
use std::panic::{catch_unwind, AssertUnwindSafe};
use std::rc::Rc;

#[derive(Clone, Debug)]
pub struct Clock(pub Rc<Cell<u64>>);

impl Clock {
    pub fn new(ms: u64) -> Clock {
        Clock(Rc::new(Cell::new(ms)))
    }
    pub fn now_ms(&self) -> u64 {
        self.0.get()
    }
    pub fn advance(&self, ms: u64) {
        // stay inside 1980..2107
        let max = Ts::MAX_MS;
        let v = (self.0.get() + ms).min(max);
        self.0.set(v);
    }
    pub fn now_ts(&self) -> Ts {
        Ts::from_ms(self.0.get())
    }
}

impl fatfs::TimeProvider for Clock {
    fn get_current_date(&self) -> fatfs::Date {
        let t = self.now_ts();
        fatfs::Date::new(t.y, t.mo, t.d)
    }
    fn get_current_date_time(&self) -> fatfs::DateTime {
        let t = self.now_ts();
        fatfs::DateTime::new(fatfs::Date::new(t.y, t.mo, t.d), fatfs::Time::new(t.h, t.mi, t.s, t.ms))
    }
}

pub type Fs = fatfs::FileSystem<MemDev, Clock, fatfs::LossyOemCpConverter>;
pub type FFile = fatfs::File<'static, MemDev, Clock, fatfs::LossyOemCpConverter>;
pub type FDir = fatfs::Dir<'static, MemDev, Clock, fatfs::LossyOemCpConverter>;
pub type FEntry = fatfs::DirEntry<'static, MemDev, Clock, fatfs::LossyOemCpConverter>;
pub type FErr = fatfs::Error<DevErr>;

#[derive(Clone, Copy, Debug, PartialEq, Eq, Hash, PartialOrd, Ord, serde::Serialize, serde::Deserialize)]
pub enum EK {
    Io,
    UnexpectedEof,
    WriteZero,
    InvalidInput,
    NotFound,
    AlreadyExists,
    DirectoryIsNotEmpty,
    CorruptedFileSystem,
    NotEnoughSpace,
    InvalidFileNameLength,
    UnsupportedFileNameCharacter,
    Other,
}

pub fn ek(e: &FErr) -> EK {
    match e {
        fatfs::Error::Io(_) => EK::Io,
        fatfs::Error::UnexpectedEof => EK::UnexpectedEof,
        fatfs::Error::WriteZero => EK::WriteZero,
        fatfs::Error::InvalidInput => EK::InvalidInput,
        fatfs::Error::NotFound => EK::NotFound,
        fatfs::Error::AlreadyExists => EK::AlreadyExists,
        fatfs::Error::DirectoryIsNotEmpty => EK::DirectoryIsNotEmpty,
        fatfs::Error::CorruptedFileSystem => EK::CorruptedFileSystem,
        fatfs::Error::NotEnoughSpace => EK::NotEnoughSpace,
        fatfs::Error::InvalidFileNameLength => EK::InvalidFileNameLength,
        fatfs::Error::UnsupportedFileNameCharacter => EK::UnsupportedFileNameCharacter,
        _ => EK::Other,
    }
}

/// Result of running library code under catch_unwind
pub enum Caught<T> {
    Ok(T),
    Panic(String),
}

thread_local! {
    static LAST_PANIC: std::cell::RefCell<String> = const { std::cell::RefCell::new(String::new()) };
}

pub fn install_quiet_panic_hook() {
    std::panic::set_hook(Box::new(|info| {
        let msg = if let Some(s) = info.payload().downcast_ref::<&str>() {
            (*s).to_string()
        } else if let Some(s) = info.payload().downcast_ref::<String>() {
            s.clone()
        } else {
            "<non-string panic payload>".to_string()
        };
        let loc = info.location().map(|l| format!("{}:{}", l.file(), l.line())).unwrap_or_default();
        if std::env::var_os("VERIF_DEBUG_PANIC").is_some() {
            eprintln!("panic: {} @ {}\n{}", msg, loc, std::backtrace::Backtrace::force_capture());
        }
        LAST_PANIC.with(|p| *p.borrow_mut() = format!("{} @ {}", msg, loc));
    }));
}

pub fn last_panic() -> String {
    LAST_PANIC.with(|p| p.borrow().clone())
}

pub fn guard<T>(f: impl FnOnce() -> T) -> Caught<T> {
    match catch_unwind(AssertUnwindSafe(f)) {
        Ok(v) => Caught::Ok(v),
        Err(_) => Caught::Panic(LAST_PANIC.with(|p| p.borrow().clone())),
    }
}

pub struct MountOpts {
    pub access_date: bool,
    pub strict: bool,
}

impl Default for MountOpts {
    fn default() -> Self {
        MountOpts { access_date: false, strict: true }
    }
}

pub const NSLOTS: usize = 4;

pub struct Session {
    pub dev: MemDev,
    fs: *mut Fs,
    pub files: Vec<Option<FFile>>,
    pub dirs: Vec<Option<FDir>>,
    pub clock: Clock,
    pub poisoned: bool,
}

impl Session {
    pub fn mount(dev: &MemDev, clock: &Clock, mo: &MountOpts) -> Result<Session, FErr> {
        dev.reset_pos();
        // The options are built in a varying order and, where a value equals the documented default
        // (update_accessed_date false, strict true), sometimes by not calling the setter at all: every way a user can
        // arrive at the same options has to give the same behaviour. The order is a pure function of the state of the
        // case (device calls so far, clock), so replays reproduce it.
        fn acc<TP: fatfs::TimeProvider, OCC: fatfs::OemCpConverter>(o: fatfs::FsOptions<TP, OCC>, v: bool, omit: bool) -> fatfs::FsOptions<TP, OCC> {
            if omit && !v {
                o
            } else {
                o.update_accessed_date(v)
            }
        }
        fn stri<TP: fatfs::TimeProvider, OCC: fatfs::OemCpConverter>(o: fatfs::FsOptions<TP, OCC>, v: bool, omit: bool) -> fatfs::FsOptions<TP, OCC> {
            if omit && v {
                o
            } else {
                o.strict(v)
            }
        }
        let sel = dev.calls().wrapping_mul(31).wrapping_add(clock.now_ms() / 1000) % 24;
        let omit = sel >= 12;
        let (a, st, c) = (mo.access_date, mo.strict, clock.clone());
        let o = fatfs::FsOptions::new();
        let opts = match sel % 6 {
            0 => stri(acc(o.time_provider(c), a, omit), st, omit),
            1 => acc(stri(o.time_provider(c), st, omit), a, omit),
            2 => stri(acc(o, a, omit).time_provider(c), st, omit),
            3 => stri(acc(o, a, omit), st, omit).time_provider(c),
            4 => acc(stri(o, st, omit).time_provider(c), a, omit),
            _ => acc(stri(o, st, omit), a, omit).time_provider(c),
        };
        let opts = if sel % 4 == 3 { opts.oem_cp_converter(fatfs::LossyOemCpConverter::new()) } else { opts };
        let fs = Fs::new(dev.handle(), opts)?;
        let p = Box::into_raw(Box::new(fs));
        Ok(Session {
            dev: dev.handle(),
            fs: p,
            files: (0..NSLOTS).map(|_| None).collect(),
            dirs: (0..NSLOTS).map(|_| None).collect(),
            clock: clock.clone(),
            poisoned: false,
        })
    }

    pub fn fs(&self) -> &'static Fs {
        // SAFETY: the box lives until unmount/abandon/drop of the Session, all of which drop the handles first
        unsafe { &*self.fs }
    }

    pub fn root(&self) -> FDir {
        self.fs().root_dir()
    }

    pub fn via(&self, v: u8) -> FDir {
        if v > 0 {
            if let Some(Some(d)) = self.dirs.get(v as usize - 1) {
                return d.clone();
            }
        }
        self.root()
    }

    pub fn drop_handles(&mut self) {
        for f in self.files.iter_mut() {
            *f = None;
        }
        for d in self.dirs.iter_mut() {
            *d = None;
        }
    }

    /// drop all handles and unmount
    pub fn unmount(mut self) -> Result<(), FErr> {
        self.drop_handles();
        let p = std::mem::replace(&mut self.fs, std::ptr::null_mut());
        // SAFETY: no handle refers to the filesystem any more
        let b = unsafe { Box::from_raw(p) };
        b.unmount()
    }

    /// forget the session without running any destructor (power cut / abandonment / after a panic)
    pub fn abandon(mut self) {
        if self.poisoned || self.fs.is_null() || std::thread::panicking() {
            // after a panic inside the library its RefCells may still be borrowed: the objects can only be leaked
            for f in self.files.drain(..) {
                std::mem::forget(f);
            }
            for d in self.dirs.drain(..) {
                std::mem::forget(d);
            }
            self.fs = std::ptr::null_mut();
            // the leaked FileSystem keeps a handle on the device: release the storage so that only the handle leaks
            let _ = self.dev.take_store();
            self.dev.clear_logs();
            return;
        }
        // Nothing the destructors do may reach the image, the logs or the counters of the device - but leaking the
        // objects leaks the device they hold a handle on (and whatever store a caller puts back into it afterwards:
        // hundreds of kilobytes per abandoned session). So the destructors run for real, against a throw-away device
        // state that is swapped in for their duration.
        let throwaway = {
            let d = MemDev::new(crate::dev::Store::Dense(Vec::new()));
            d.with(|x| x.discard_writes = true);
            match Rc::try_unwrap(d.0) {
                Ok(cell) => cell.into_inner(),
                Err(_) => unreachable!(),
            }
        };
        let saved = std::mem::replace(&mut *self.dev.0.borrow_mut(), throwaway);
        let fs = std::mem::replace(&mut self.fs, std::ptr::null_mut());
        let files: Vec<Option<FFile>> = self.files.drain(..).collect();
        let dirs: Vec<Option<FDir>> = self.dirs.drain(..).collect();
        let r = catch_unwind(AssertUnwindSafe(move || {
            drop(files);
            drop(dirs);
            // SAFETY: the handles are gone
            let b = unsafe { Box::from_raw(fs) };
            drop(b);
        }));
        let _ = r;
        *self.dev.0.borrow_mut() = saved;
        let _ = self.dev.take_store();
        self.dev.clear_logs();
    }
}

impl Drop for Session {
    fn drop(&mut self) {
        // never run library destructors while unwinding from a panic inside the library: its RefCells may still
        // be borrowed and a second panic would abort the process
        if self.poisoned || std::thread::panicking() {
            for f in self.files.drain(..) {
                std::mem::forget(f);
            }
            for d in self.dirs.drain(..) {
                std::mem::forget(d);
            }
            return;
        }
        self.drop_handles();
        if !self.fs.is_null() {
            // SAFETY: handles dropped above
            let b = unsafe { Box::from_raw(self.fs) };
            drop(b);
        }
    }
}

pub fn ts_of_dt(dt: fatfs::DateTime) -> Ts {
    Ts { y: dt.date.year, mo: dt.date.month, d: dt.date.day, h: dt.time.hour, mi: dt.time.min, s: dt.time.sec, ms: dt.time.millis }
}
pub fn ts_of_date(d: fatfs::Date) -> Ts {
    Ts { y: d.year, mo: d.month, d: d.day, h: 0, mi: 0, s: 0, ms: 0 }
}

pub fn read_all(f: &mut FFile, chunk: usize, limit: usize) -> Result<Vec<u8>, FErr> {
    let mut out = Vec::new();
    let mut buf = vec![0u8; chunk.max(1)];
    loop {
        let n = f.read(&mut buf)?;
        if n == 0 {
            break;
        }
        out.extend_from_slice(&buf[..n]);
        if out.len() > limit {
            break;
        }
    }
    Ok(out)
}

/// Recursive listing of a directory through the library: names, short names, kinds, attributes, sizes,
/// timestamps and (optionally) file contents.
pub fn lib_tree(dir: &FDir, read_data: bool, skip_open: &dyn Fn(&str) -> bool, path: &str, depth: usize) -> Result<Vec<TNode>, String> {
    let mut out = Vec::new();
    if depth > 120 {
        return Err(format!("library listing nests deeper than 120 at {}", path));
    }
    let mut count = 0usize;
    for r in dir.iter() {
        count += 1;
        if count > 70000 {
            return Err(format!("library listing of {} does not end", path));
        }
        let e = r.map_err(|e| format!("iterating {}: {:?}", path, e))?;
        let name = e.file_name();
        let units: Vec<u16> = match e.long_file_name_as_ucs2_units() {
            Some(u) => u.to_vec(),
            None => name.encode_utf16().collect(),
        };
        let child_path = if path == "/" { format!("/{}", name) } else { format!("{}/{}", path, name) };
        let mut n = TNode {
            name: units,
            short: e.short_file_name_as_bytes().to_vec(),
            is_dir: e.is_dir(),
            attr: e.attributes().bits(),
            size: e.len(),
            created: ts_of_dt(e.created()),
            modified: ts_of_dt(e.modified()),
            accessed: ts_of_date(e.accessed()),
            data: None,
            children: Vec::new(),
            has_long: e.long_file_name_as_ucs2_units().is_some(),
        };
        let sb = e.short_file_name_as_bytes();
        let is_dot = sb == b"." || sb == b"..";
        if e.is_dir() {
            if !is_dot {
                let d = e.to_dir();
                n.children = lib_tree(&d, read_data, skip_open, &child_path, depth + 1)?;
            }
        } else if read_data && !skip_open(&child_path) {
            let mut f = e.to_file();
            let data = read_all(&mut f, 4096, 1 << 26).map_err(|e| format!("reading {}: {:?}", child_path, e))?;
            n.data = Some(data);
        }
        out.push(n);
    }
    Ok(out)
}

pub fn seek_from(whence: u8, off: i64) -> fatfs::SeekFrom {
    match whence % 3 {
        0 => fatfs::SeekFrom::Start(off as u64),
        1 => fatfs::SeekFrom::Current(off),
        _ => fatfs::SeekFrom::End(off),
    }
}

pub fn file_seek(f: &mut FFile, sf: fatfs::SeekFrom) -> Result<u64, FErr> {
    f.seek(sf)
}
pub fn file_write(f: &mut FFile, buf: &[u8]) -> Result<usize, FErr> {
    f.write(buf)
}
pub fn file_read(f: &mut FFile, buf: &mut [u8]) -> Result<usize, FErr> {
    f.read(buf)
}
pub fn file_flush(f: &mut FFile) -> Result<(), FErr> {
    f.flush()
}

// ---------------------------------------------------------------------------------------------------------
// a logger that accepts every level: the arguments of every log statement of the library are evaluated and formatted

struct SinkLogger;
impl log::Log for SinkLogger {
    fn enabled(&self, _: &log::Metadata) -> bool {
        true
    }
    fn log(&self, r: &log::Record) {
        // format the message as a real logger would (Debug impls of the library run here), then throw it away
        use std::fmt::Write;
        struct Null;
        impl std::fmt::Write for Null {
            fn write_str(&mut self, _: &str) -> std::fmt::Result {
                Ok(())
            }
        }
        let _ = write!(Null, "{}", r.args());
    }
    fn flush(&self) {}
}
static SINK: SinkLogger = SinkLogger;

/// process-wide: all cases evaluated concurrently must agree (one block = one setting)
pub fn set_logging(on: bool) {
    let _ = log::set_logger(&SINK);
    log::set_max_level(if on { log::LevelFilter::Trace } else { log::LevelFilter::Off });
}

