//! Glue for the coverage-guided (libFuzzer) targets in /verif/fuzz: bytes are decoded into the same structured
//! cases the proptest generators produce, and evaluated by the same oracles. A violation writes the replay file
//! (JSON case, same format as the proptest path) and panics so that libFuzzer stops and saves the input.

use crate::gen::{self, Case, GenCfg, NameTable, RawOp, RawVol};
use crate::ops::{run_history, Aspect, RunCfg};
use crate::props::{c07, c08, c17};
use crate::run::{self, CaseOut};
use serde_json::json;
use std::cell::RefCell;
use std::collections::{BTreeMap, HashSet};

struct Rd<'a> {
    d: &'a [u8],
    p: usize,
}
impl<'a> Rd<'a> {
    fn u8(&mut self) -> u8 {
        let v = self.d.get(self.p).copied().unwrap_or(0);
        self.p += 1;
        v
    }
    fn u16(&mut self) -> u16 {
        u16::from_le_bytes([self.u8(), self.u8()])
    }
    fn u32(&mut self) -> u32 {
        u32::from_le_bytes([self.u8(), self.u8(), self.u8(), self.u8()])
    }
    fn left(&self) -> usize {
        self.d.len().saturating_sub(self.p)
    }
}

#[derive(Default)]
struct Stats {
    execs: u64,
    nontrivial: HashSet<u64>,
    classes: BTreeMap<String, u64>,
}

thread_local! {
    static STATS: RefCell<Stats> = RefCell::new(Stats::default());
}

fn account(target: &str, out: &CaseOut) {
    STATS.with(|s| {
        let mut s = s.borrow_mut();
        s.execs += 1;
        if out.nontrivial {
            s.nontrivial.insert(out.hash);
        }
        for (k, v) in &out.classes {
            *s.classes.entry(k.clone()).or_insert(0) += v;
        }
        if s.execs % 2000 == 0 {
            if let Ok(path) = std::env::var("VERIF_FUZZ_STATS") {
                let j = json!({"target": target, "execs": s.execs, "distinct_nontrivial": s.nontrivial.len(), "classes": s.classes});
                let _ = std::fs::write(path, j.to_string());
            }
        }
    });
}

fn report(property: &str, kind: &str, case: serde_json::Value, msg: &str) -> ! {
    let body = json!({"property": property, "kind": kind, "message": msg, "case": case, "found_by": "libFuzzer"});
    let text = serde_json::to_string_pretty(&body).unwrap();
    let dir = format!("{}/replays", run::out_dir());
    let _ = std::fs::create_dir_all(&dir);
    let path = format!("{}/{}-fuzz-{:016x}.json", dir, property, run::hash_str(&text));
    let _ = std::fs::write(&path, text);
    eprintln!("VIOLATION property={} replay={}", property, path);
    eprintln!("  {}", msg);
    std::process::abort();
}

fn strict() -> bool {
    // in-target tolerance of known findings is by exclusion predicate only; nothing else is tolerated
    true
}

pub fn fuzz_ops(data: &[u8]) {
    crate::session::install_quiet_panic_hook();
    if data.len() < 8 {
        return;
    }
    let mut r = Rd { d: data, p: 0 };
    let mut gc = GenCfg::mixed();
    gc.max_ops = 40;
    gc.rich_names = false;
    let rv = RawVol { preset: r.u16(), tiny: r.u16(), lo: r.u16(), hi: r.u16(), misc: r.u16() };
    let mut vol = gen::decode_vol(&gc, &rv);
    // keep the campaign on small dense volumes: FAT32 bases are exercised by the proptest tiers
    if vol.fat == 32 {
        vol = crate::vol::VolCfg::from_preset((rv.preset % 8) as usize);
    }
    let nt = NameTable::new(&gc, &[]);
    let cs = vol.cluster_size();
    let mut ops = Vec::new();
    let mut mem: Vec<String> = Vec::new();
    while r.left() >= 8 && ops.len() < 60 {
        let raw = RawOp { kind: r.u16(), a: r.u16(), b: r.u16(), c: r.u8() as u16 * 257, d: r.u16(), n: r.u32(), x: r.u32() as i64 - (1 << 31) };
        ops.extend(gen::decode_op(&gc, &nt, cs, &raw, &mut mem));
    }
    let case = Case { vol, ops };
    let mut cfg = RunCfg::new(&[Aspect::Outcome, Aspect::Tree, Aspect::File, Aspect::Fsck, Aspect::Panic, Aspect::Budget]);
    cfg.flush_each = true;
    let (trace, viol) = run_history(&cfg, &case.vol, &case.ops);
    let mut out = CaseOut::default();
    out.hash = run::hash_str(&serde_json::to_string(&case).unwrap_or_default());
    out.nontrivial = trace.has("mutation") && trace.has("op_failed") && (trace.has("rename") || trace.has("remove"));
    out.classes.insert("ops_run".into(), trace.ops_run);
    account("ops", &out);
    if let Some(v) = viol {
        let prop = match v.aspect {
            Aspect::File => "C02",
            Aspect::Fsck => "C03",
            _ => "C01",
        };
        let _ = strict();
        report(prop, "history", serde_json::to_value(&case).unwrap(), &format!("[{:?} at step {}] {}", v.aspect, v.step, v.msg));
    }
}

thread_local! {
    static C17_BASES: RefCell<Option<c17::Bases>> = const { RefCell::new(None) };
    static C07_BASES: RefCell<Option<Vec<c07::BaseImg>>> = const { RefCell::new(None) };
}

pub fn fuzz_dirslots(data: &[u8]) {
    crate::session::install_quiet_panic_hook();
    if data.len() < 33 {
        return;
    }
    let chained = data[0] & 1 == 1;
    let slots: Vec<Vec<u8>> = data[1..].chunks(32).take(60).map(|c| {
        let mut v = c.to_vec();
        v.resize(32, 0);
        v
    }).collect();
    let case = c17::DirCase { chained, slots };
    let out = C17_BASES.with(|b| {
        let mut b = b.borrow_mut();
        if b.is_none() {
            *b = Some(c17::make_bases().expect("bases"));
        }
        c17::eval(b.as_ref().unwrap(), &case)
    });
    account("dirslots", &out);
    if let Some(m) = out.violation {
        report("C17", "dirslots", serde_json::to_value(&case).unwrap(), &m);
    }
}

pub fn fuzz_mount(data: &[u8]) {
    crate::session::install_quiet_panic_hook();
    if data.len() < 4 {
        return;
    }
    let mut r = Rd { d: data, p: 0 };
    let base = r.u8() % 5;
    let strict = r.u8() & 1 == 1;
    let mut patches = Vec::new();
    while r.left() >= 7 && patches.len() < 10 {
        let sector = r.u8() % 2;
        let off = r.u16() % 512;
        let width = [1u8, 2, 4][r.u8() as usize % 3];
        let value = r.u32();
        let off = off.min(512 - width as u16);
        patches.push(c07::Patch { sector, off, width, value });
    }
    let case = c07::MountCase { base, strict, patches, raw_sector: None };
    let out = C07_BASES.with(|b| {
        let mut b = b.borrow_mut();
        if b.is_none() {
            *b = Some(c07::make_bases().expect("bases"));
        }
        c07::eval(b.as_ref().unwrap(), &case)
    });
    account("mount", &out);
    if let Some(m) = out.violation {
        report("C07", "mount", serde_json::to_value(&case).unwrap(), &m);
    }
}

pub fn fuzz_image(data: &[u8]) {
    crate::session::install_quiet_panic_hook();
    if data.len() < 16 {
        return;
    }
    let mut r = Rd { d: data, p: 0 };
    let geom = r.u8();
    let fbits = r.u16();
    let objects = r.u8();
    let mutation = r.u8();
    let f = |i: u16| fbits & (1 << i) != 0;
    let freedoms = crate::imggen::Freedoms {
        fragmented: f(0),
        backwards: f(1),
        eoc_variants: f(2),
        bad_clusters: f(3),
        deleted_slots: f(4),
        orphan_runs: f(5),
        short_only: f(6),
        nt_case_flags: f(7),
        lead_05: f(8),
        oem_bytes: f(9),
        label_anywhere: f(10),
        all_attrs: f(11),
        junk_after_end: f(12),
        extra_dir_clusters: f(13),
        stale_count: f(14),
        ea_handle: f(15),
    };
    let mut_entropy: Vec<u32> = (0..4).map(|_| r.u32()).collect();
    let mut entropy: Vec<u32> = Vec::new();
    while r.left() >= 4 && entropy.len() < 64 {
        entropy.push(r.u32());
    }
    if entropy.is_empty() {
        entropy.push(0);
    }
    let case = c08::ImgCase { geom, freedoms, entropy, objects, mutation, mut_entropy };
    let out = c08::eval(&case);
    account("image", &out);
    if let Some(m) = out.violation {
        report("C08", "image", serde_json::to_value(&case).unwrap(), &m);
    }
}

/// seed corpora for the four targets (small valid inputs; committed under /verif/fuzz/corpus)
pub fn gen_corpus() {
    let dir = format!("{}/fuzz/corpus", run::verif_dir());
    let w = |t: &str, name: &str, data: &[u8]| {
        let d = format!("{}/{}", dir, t);
        let _ = std::fs::create_dir_all(&d);
        let _ = std::fs::write(format!("{}/{}", d, name), data);
    };
    // dirslots: valid runs of various lengths, pattern cases
    for (i, name) in ["a", "thirteen chrs", "fourteen chars", "a name of exactly 26 units", "naïve café 語 with more than twenty-six units in it"].iter().enumerate() {
        for chained in [0u8, 1] {
            let short = *b"SEEDNAMETXT";
            let units: Vec<u16> = name.encode_utf16().collect();
            let mut v = vec![chained];
            for s in c17::run_for_name(&units, &short) {
                v.extend_from_slice(&s);
            }
            v.extend_from_slice(&c17::short_slot(&short, 0x20));
            v.extend_from_slice(&c17::short_slot(b"PLAIN   BIN", 0x10));
            w("dirslots", &format!("seed-run-{}-{}", i, chained), &v);
        }
    }
    let long: Vec<u16> = (0..255).map(|i| 0x41 + (i % 26) as u16).collect();
    let mut v = vec![0u8];
    for s in c17::run_for_name(&long, b"LONG~1     ") {
        v.extend_from_slice(&s);
    }
    v.extend_from_slice(&c17::short_slot(b"LONG~1     ", 0x20));
    w("dirslots", "seed-run-255", &v);
    // mount: single patches on each base
    for base in 0..5u8 {
        for (j, (sector, off, width, value)) in [(0u8, 11u16, 2u8, 1024u32), (0, 13, 1, 2), (0, 36, 4, 70000), (0, 44, 4, 3), (1, 488, 4, 5), (0, 32, 4, 1 << 31)].iter().enumerate() {
            let mut d = vec![base, 1, *sector];
            d.extend_from_slice(&off.to_le_bytes());
            d.push(match width { 1 => 0, 2 => 1, _ => 2 });
            d.extend_from_slice(&value.to_le_bytes());
            w("mount", &format!("seed-{}-{}", base, j), &d);
        }
    }
    // ops and image: pseudo-random structured bytes
    for i in 0..24u64 {
        let mut m = run::Mix::new(0xC0FFEE, i);
        let n = 10 + 8 * (8 + m.below(30) as usize);
        let d: Vec<u8> = (0..n).map(|_| m.next() as u8).collect();
        w("ops", &format!("seed-{}", i), &d);
        let n2 = 16 + 4 * (8 + m.below(40) as usize);
        let d2: Vec<u8> = (0..n2).map(|_| m.next() as u8).collect();
        w("image", &format!("seed-{}", i), &d2);
    }
    println!("seed corpora written under {}", dir);
}
