//! fatfs-verif: property-based testing / fuzzing harness for rafalh/rust-fatfs (see /verif/DESIGN.md)
pub mod dev;
pub mod gen;
pub mod imggen;
pub mod model;
pub mod ops;
pub mod props;
pub mod refdec;
pub mod run;
pub mod session;
pub mod tree;
pub mod vol;
pub mod fuzzglue;
