//! Generators: proptest strategies for volume configurations, names and operation histories.
//! Everything random comes from proptest (so shrinking and replay work); raw numbers are mapped
//! monotonically onto choices so that shrinking towards 0 means "simpler".

use crate::ops::Op;
use crate::tree::Ts;
use crate::vol::{VolCfg, PRESETS};
use proptest::prelude::*;
use serde::{Deserialize, Serialize};

#[derive(Clone, Debug, Serialize, Deserialize)]
pub struct Case {
    pub vol: VolCfg,
    pub ops: Vec<Op>,
}

/// fixed small alphabet of names (bounded-exhaustive work and collisions in random work)
pub const SMALL_NAMES: &[&str] = &[
    "a",
    "b",
    "d",
    "A",
    "a.txt",
    "long file name.dat",
    "Long File Name.DAT",
    "LONGFI~1.DAT",
    "x+y",
    "é",
    "É",
    "ß",
    "SS",
    "e",
    // differs from the hot name "a.txt" by an embedded space only (the space is dropped from the alias, lossily)
    "a .txt",
    // differs from the hot name "a.txt" by a fourth extension character only (the alias keeps three, lossily)
    "a.txts",
    "a:b",
    "",
];

#[derive(Clone, Copy, Debug, PartialEq, Eq)]
pub enum K {
    List,
    Stats,
    Status,
    Labels,
    Tick,
    OpenFile,
    OpenDir,
    CreateFile,
    CreateDir,
    Write,
    Read,
    Seek,
    Flush,
    CloseFile,
    CloseDir,
    Truncate,
    Remove,
    Rename,
    SetTimes,
    Extents,
    Remount,
    /// macro: create a file (kept in a slot), write to it once or twice, then flush / close / leave open
    NewFileWritten,
    /// macro: open an existing path (kept in a slot), seek, read
    OpenSeekRead,
    /// macro: seek somewhere inside the file, then truncate there
    SeekTruncate,
    /// a write hit by a transient storage fault and retried by the caller
    WriteRetry,
    /// a flush hit by a transient storage fault and repeated by the caller
    FlushRetry,
    /// the handle replaced by its clone
    CloneSwap,
}

#[derive(Clone, Debug)]
pub struct GenCfg {
    pub max_ops: usize,
    pub weights: Vec<(K, u32)>,
    /// preset indices to draw volumes from
    pub presets: Vec<usize>,
    /// probability (0..=100) of a tiny-free-space volume
    pub tiny_free_pct: u32,
    pub status0: Vec<u8>,
    pub access_date: Vec<bool>,
    pub fsinfo_unknown_pct: u32,
    pub max_depth: usize,
    /// maximum write / read length as a multiple of the cluster size, in percent (300 = 3 clusters)
    pub max_io_pct: u32,
    /// include invalid names ("a:b", "", 256 bytes) in paths
    pub invalid_names: bool,
    pub rich_names: bool,
    /// probability (0..=100) of a volume built by imggen::mkfs (geometry the library's formatter cannot produce)
    pub gen_geom_pct: u32,
    /// probability (0..=100) of a volume whose cluster count sits on a FAT-width limit (vol::BOUNDARY_CLUSTERS) with
    /// free clusters only at the very start and the very end, so that chains reach the last clusters
    pub boundary_pct: u32,
    /// probability (0..=100) of a device that makes short transfers (legal for the storage traits)
    pub short_io_pct: u32,
    /// probability (0..=100) that the history starts from a foreign population (imggen) instead of an empty volume
    pub populate_pct: u32,
}

impl GenCfg {
    pub fn namespace() -> GenCfg {
        GenCfg {
            max_ops: 40,
            weights: vec![
                (K::List, 4),
                (K::OpenFile, 6),
                (K::OpenDir, 5),
                (K::CreateFile, 14),
                (K::CreateDir, 12),
                (K::Write, 6),
                (K::CloseFile, 3),
                (K::CloseDir, 3),
                (K::Remove, 12),
                (K::Rename, 16),
                (K::Remount, 1),
                (K::Tick, 3),
                (K::NewFileWritten, 4),
            ],
            presets: (0..PRESETS.len()).collect(),
            tiny_free_pct: 25,
            status0: vec![0],
            access_date: vec![false],
            fsinfo_unknown_pct: 0,
            max_depth: 3,
            max_io_pct: 250,
            invalid_names: true,
            rich_names: true,
            gen_geom_pct: 20,
            boundary_pct: 5,
            short_io_pct: 12,
            populate_pct: 0,
        }
    }
    pub fn fileio() -> GenCfg {
        GenCfg {
            max_ops: 50,
            weights: vec![
                (K::OpenFile, 6),
                (K::CreateFile, 8),
                (K::Write, 24),
                (K::Read, 16),
                (K::Seek, 18),
                (K::Flush, 4),
                (K::CloseFile, 4),
                (K::Truncate, 8),
                (K::Extents, 2),
                (K::Remount, 1),
                (K::Tick, 3),
                (K::NewFileWritten, 10),
                (K::OpenSeekRead, 6),
                (K::SeekTruncate, 5),
                (K::WriteRetry, 5),
                (K::FlushRetry, 3),
                (K::CloneSwap, 3),
            ],
            invalid_names: false,
            rich_names: false,
            tiny_free_pct: 10,
            ..GenCfg::namespace()
        }
    }
    pub fn mixed() -> GenCfg {
        GenCfg {
            max_ops: 45,
            weights: vec![
                (K::List, 2),
                (K::Stats, 3),
                (K::OpenFile, 5),
                (K::OpenDir, 3),
                (K::CreateFile, 12),
                (K::CreateDir, 8),
                (K::Write, 16),
                (K::Read, 4),
                (K::Seek, 6),
                (K::Flush, 2),
                (K::CloseFile, 4),
                (K::CloseDir, 2),
                (K::Truncate, 6),
                (K::Remove, 10),
                (K::Rename, 10),
                (K::Remount, 1),
                (K::Tick, 3),
                (K::NewFileWritten, 10),
                (K::OpenSeekRead, 3),
                (K::SeekTruncate, 3),
            ],
            tiny_free_pct: 50,
            ..GenCfg::namespace()
        }
    }
}

/// raw numbers of one op; decoded by `decode_op`
#[derive(Clone, Debug)]
pub struct RawOp {
    pub kind: u16,
    pub a: u16,
    pub b: u16,
    pub c: u16,
    pub d: u16,
    pub n: u32,
    pub x: i64,
}

fn pick<T: Copy>(items: &[T], r: u16) -> T {
    items[(r as usize * items.len()) >> 16]
}

fn pick_kind(w: &[(K, u32)], r: u16) -> K {
    let total: u64 = w.iter().map(|x| x.1 as u64).sum();
    let t = (r as u64 * total) >> 16;
    let mut acc = 0u64;
    for (k, wt) in w {
        acc += *wt as u64;
        if t < acc {
            return *k;
        }
    }
    w[w.len() - 1].0
}

pub struct NameTable {
    pub names: Vec<String>,
}

impl NameTable {
    pub fn new(gc: &GenCfg, extra: &[String]) -> NameTable {
        let mut names: Vec<String> = SMALL_NAMES.iter().filter(|n| gc.invalid_names || (!n.is_empty() && !n.contains(':'))).map(|s| s.to_string()).collect();
        if gc.rich_names {
            names.extend(extra.iter().filter(|s| *s != "." && *s != ".." && !s.contains('/')).cloned());
        }
        NameTable { names }
    }
    pub fn name(&self, r: u16) -> &str {
        &self.names[(r as usize * self.names.len()) >> 16]
    }
    /// a "hot" name: one of the first few names of the table, so that paths often name existing objects
    pub fn hot(&self, r: u16) -> &str {
        let n = self.names.len().min(6);
        &self.names[(r as usize * n) >> 16]
    }
    fn comp(&self, r: u16, bias: u16, hot_pct: u32) -> &str {
        if ((bias as u32 * 100) >> 16) < hot_pct {
            self.hot(r)
        } else {
            self.name(r)
        }
    }
    /// a path of 1..=max_depth components; shape bits add leading / trailing / doubled slashes.
    /// Depth 1 is most likely; intermediate components are mostly "hot" names.
    pub fn path(&self, a: u16, b: u16, c: u16, shape: u16, max_depth: usize) -> String {
        let dsel = ((shape & 0xFF) as u32 * 100) >> 8;
        let depth = if max_depth <= 1 || dsel < 55 {
            1
        } else if max_depth == 2 || dsel < 85 {
            2
        } else {
            3
        };
        let fin = self.comp(a, a.rotate_left(7) ^ shape, 65);
        let mid1 = self.comp(b, b.rotate_left(5) ^ shape, 88);
        let mid2 = self.comp(c, c.rotate_left(3) ^ shape, 88);
        let comps = [fin, mid1, mid2];
        let mut s = String::new();
        if shape & 0x100 != 0 && shape & 0x200 != 0 {
            s.push('/');
        }
        // components come last-first so that `a` is always the final component
        let used: Vec<&str> = comps[..depth.min(3)].iter().rev().copied().collect();
        for (i, comp) in used.iter().enumerate() {
            if i > 0 {
                s.push('/');
                if shape & 0x400 != 0 && shape & 0x800 != 0 && shape & 0x1000 != 0 {
                    s.push('/');
                }
            }
            s.push_str(comp);
        }
        if shape & 0x2000 != 0 && shape & 0x4000 != 0 {
            s.push('/');
        }
        s
    }
}

/// boundary-biased length / offset in bytes for cluster size cs
pub fn io_len(n: u32, cs: u32, max_pct: u32) -> u32 {
    let sel = n & 0xF;
    let r = n >> 4;
    let max = (cs as u64 * max_pct as u64 / 100).max(1) as u32;
    match sel {
        0 => 0,
        1 => 1,
        2 => cs - 1,
        3 => cs,
        4 => cs + 1,
        5 => 2 * cs - 1,
        6 => 2 * cs,
        7 => 2 * cs + 1,
        8 => (r % 16) + 1,
        9 => cs - 1 - (r % 8).min(cs - 1),
        _ => (r % max) + 1,
    }
    .min(max.max(2 * cs + 1))
}

pub fn seek_off(x: i64, n: u32, cs: u32) -> (u8, i64) {
    let whence = (n % 3) as u8;
    let sel = (n >> 2) & 0x1F;
    let csi = cs as i64;
    let small = x.rem_euclid(4 * csi + 3);
    let off = match sel {
        0 => 0,
        1 => 1,
        2 => -1,
        3 => csi - 1,
        4 => csi,
        5 => csi + 1,
        6 => 2 * csi - 1,
        7 => 2 * csi,
        8 => 2 * csi + 1,
        9 => 3 * csi,
        10 => -csi,
        11 => -csi - 1,
        12 => -csi + 1,
        13 => (1i64 << 32) - 1,
        14 => 1i64 << 32,
        15 => (1i64 << 32) + 5,
        16 => -(1i64 << 33),
        17 => i64::MAX,
        18 => i64::MIN,
        19 | 20 | 21 => -small,
        _ => small,
    };
    (whence, off)
}

fn biased(sel: u16, table: &[(u8, u32)]) -> u8 {
    let total: u32 = table.iter().map(|t| t.1).sum();
    let t = (sel as u32 * total) >> 16;
    let mut acc = 0;
    for (v, w) in table {
        acc += w;
        if t < acc {
            return *v;
        }
    }
    table[table.len() - 1].0
}

/// `mem`: paths named by earlier create / rename-destination ops of the same history; lookups, removes and rename
/// sources reuse them with high probability, so that histories act on objects that exist (still a pure function of
/// the raw numbers, so shrinking works)
pub fn decode_op(gc: &GenCfg, nt: &NameTable, cs: u32, r: &RawOp, mem: &mut Vec<String>) -> Vec<Op> {
    let k = pick_kind(&gc.weights, r.kind);
    // slot choices are biased towards the first slots so that handle ops usually find an open handle
    let via = biased(r.d.wrapping_mul(40503), &[(0, 60), (1, 22), (2, 10), (3, 5), (4, 3)]);
    let keep = biased(r.d.wrapping_mul(25173).wrapping_add(13849), &[(0, 30), (1, 38), (2, 20), (3, 8), (4, 4)]);
    let h = biased(r.d.wrapping_mul(30011).wrapping_add(7), &[(0, 58), (1, 25), (2, 11), (3, 6)]);
    let shape = r.d.rotate_left(7) ^ (r.n as u16);
    let fresh = nt.path(r.a, r.b, r.c, shape, gc.max_depth);
    let reuse_sel = (r.x as u64 >> 20) as u32 % 100;
    let known = if !mem.is_empty() && reuse_sel < 68 { mem[(r.a as usize * mem.len()) >> 16].clone() } else { fresh.clone() };
    let remember = |mem: &mut Vec<String>, p: &str| {
        let t = p.trim_matches('/').to_string();
        if !t.is_empty() && !mem.contains(&t) && mem.len() < 24 {
            mem.push(t);
        }
    };
    let one = match k {
        K::List => Op::List { via },
        K::Stats => Op::Stats,
        K::Status => Op::Status,
        K::Labels => Op::Labels,
        K::Tick => Op::Tick { ms: r.n % 200_000_000 },
        K::OpenFile => Op::OpenFile { via, path: known, keep },
        K::OpenDir => Op::OpenDir { via, path: known, keep },
        K::CreateFile => {
            // sometimes create below a directory created earlier
            let p = if !mem.is_empty() && reuse_sel >= 80 { format!("{}/{}", mem[(r.b as usize * mem.len()) >> 16], nt.name(r.a)) } else { fresh };
            remember(mem, &p);
            Op::CreateFile { via, path: p, keep }
        }
        K::CreateDir => {
            let p = if !mem.is_empty() && reuse_sel >= 85 { format!("{}/{}", mem[(r.b as usize * mem.len()) >> 16], nt.name(r.a)) } else { fresh };
            remember(mem, &p);
            Op::CreateDir { via, path: p, keep }
        }
        K::Write => Op::Write { h, len: io_len(r.n, cs, gc.max_io_pct), seed: (r.a >> 8) as u8 },
        K::WriteRetry => Op::WriteRetry { h, len: io_len(r.n, cs, gc.max_io_pct), seed: (r.a >> 8) as u8, k: (r.b % 24) * (1 + r.c % 3), interrupted: r.c & 7 == 0 },
        K::Read => Op::Read { h, len: io_len(r.n, cs, gc.max_io_pct) },
        K::Seek => {
            let (whence, off) = seek_off(r.x, r.n, cs);
            Op::Seek { h, whence, off }
        }
        K::Flush => Op::Flush { h },
        K::CloneSwap => Op::CloneSwap { h },
        K::FlushRetry => Op::FlushRetry { h, k: r.b % 10, interrupted: r.c & 7 == 0 },
        K::CloseFile => Op::CloseFile { h },
        K::CloseDir => Op::CloseDir { d: h },
        K::Truncate => Op::Truncate { h },
        K::Remove => Op::Remove { via, path: known },
        K::Rename => {
            let dvia = ((r.d >> 9) & 0x7) as u8;
            let dvia = if dvia > 4 { 0 } else { dvia };
            let src = known;
            let mut dst = nt.path(r.c ^ (r.n as u16), r.a.rotate_left(5) ^ (r.x as u16), r.b, shape.rotate_left(3), gc.max_depth);
            if !mem.is_empty() && (r.n >> 9) % 100 < 35 {
                // move below a path named earlier (a directory, with luck)
                dst = format!("{}/{}", mem[(r.c as usize * mem.len()) >> 16], nt.name(r.b));
            }
            if (r.n >> 9) % 100 >= 90 {
                // below something that was named below the source earlier (created there or MOVED there): a directory
                // into its own subtree, also when the descendant came from elsewhere
                let prefix = format!("{}/", src.trim_matches('/'));
                let below: Vec<&String> = mem.iter().filter(|m| m.starts_with(&prefix)).collect();
                if !below.is_empty() {
                    dst = format!("{}/{}", below[(r.c as usize * below.len()) >> 16], nt.name(r.b));
                }
            }
            remember(mem, &dst);
            Op::Rename { via, src, dvia, dst }
        }
        K::SetTimes => Op::SetTimes { h, which: (r.a % 3) as u8, ms: (r.x as u64) % Ts::MAX_MS },
        K::Extents => Op::Extents { h },
        K::Remount => Op::Remount { how: (r.a & 1) as u8 },
        K::NewFileWritten => {
            let slot = keep.max(1);
            let hh = slot - 1;
            remember(mem, &fresh);
            let mut v = vec![Op::CreateFile { via, path: fresh, keep: slot }];
            v.push(Op::Write { h: hh, len: io_len(r.n, cs, gc.max_io_pct), seed: (r.a >> 8) as u8 });
            if r.x & 1 != 0 {
                v.push(Op::Write { h: hh, len: io_len(r.n.rotate_left(9), cs, gc.max_io_pct), seed: (r.b >> 8) as u8 });
            }
            match (r.x >> 1) & 3 {
                0 => v.push(Op::Flush { h: hh }),
                1 => v.push(Op::CloseFile { h: hh }),
                _ => {}
            }
            return v;
        }
        K::OpenSeekRead => {
            let slot = keep.max(1);
            let hh = slot - 1;
            let (whence, off) = seek_off(r.x, r.n, cs);
            return vec![
                Op::OpenFile { via, path: known, keep: slot },
                Op::Seek { h: hh, whence, off },
                Op::Read { h: hh, len: io_len(r.n.rotate_left(7), cs, gc.max_io_pct) },
            ];
        }
        K::SeekTruncate => {
            let (_, off) = seek_off(r.x, r.n, cs);
            return vec![Op::Seek { h, whence: 0, off: off.rem_euclid(3 * cs as i64 + 2) }, Op::Truncate { h }];
        }
    };
    vec![one]
}


pub fn raw_op_strategy() -> impl Strategy<Value = RawOp> {
    (any::<u16>(), any::<u16>(), any::<u16>(), any::<u16>(), any::<u16>(), any::<u32>(), any::<i64>()).prop_map(|(kind, a, b, c, d, n, x)| RawOp { kind, a, b, c, d, n, x })
}

pub fn rich_name_strategy() -> impl Strategy<Value = String> {
    prop_oneof![
        4 => "[a-c]{1,3}",
        4 => "[a-zA-Z0-9]{1,8}(\\.[a-zA-Z0-9]{1,3})?",
        4 => "[a-zA-Z0-9 ._+,;=\\[\\]-]{1,24}",
        2 => "[ .]{0,2}[a-z]{1,6}[ .]{0,2}",
        3 => "[a-zà-ÿΑ-ω一-三ßſŉ]{1,12}",
        1 => "[a-z]{13}",
        1 => "[a-z]{14}",
        1 => "[a-z]{26}",
        1 => "[a-z]{100,120}",
        1 => "[a-z]{250,258}",
        1 => "[a-z]{255}",
        1 => "[ab]{1,4}[:*?<>|\"\\\\]",
        1 => "PREFIX[a-z]{1,3}",
        1 => "[A-Z]{1,6}~[1-9](\\.[A-Z]{1,3})?",
    ]
}

#[derive(Clone, Debug)]
pub struct RawVol {
    pub preset: u16,
    pub tiny: u16,
    pub lo: u16,
    pub hi: u16,
    pub misc: u16,
}

pub fn decode_vol(gc: &GenCfg, r: &RawVol) -> VolCfg {
    let p = pick(&gc.presets, r.preset);
    let use_gen = (((r.misc.rotate_left(13) as u32) * 100) >> 16) < gc.gen_geom_pct;
    let mut v = if use_gen { VolCfg::from_gen_preset((r.preset as usize * crate::vol::GEN_PRESETS.len()) >> 16) } else { VolCfg::from_preset(p) };
    if (((r.misc.rotate_left(3) as u32) * 100) >> 16) < gc.boundary_pct {
        v = VolCfg::boundary((r.preset as usize * crate::vol::BOUNDARY_CLUSTERS.len()) >> 16);
        v.free_lo = Some(pick(&[0u16, 1, 2, 5], r.lo));
        v.free_hi = pick(&[3u16, 6, 12, 20], r.hi);
        v.status0 = pick(&gc.status0, r.misc);
        v.access_date = pick(&gc.access_date, r.misc.rotate_left(4));
        v.short_io = short_io_of(gc, r);
        v.populate = populate_of(gc, r);
        return v;
    }
    let tiny = ((r.tiny as u32 * 100) >> 16) < gc.tiny_free_pct;
    if tiny {
        let los = [3u16, 6, 10, 20, 40];
        v.free_lo = Some(pick(&los, r.lo));
        v.free_hi = pick(&[0u16, 0, 2], r.hi);
    }
    v.status0 = pick(&gc.status0, r.misc);
    v.access_date = pick(&gc.access_date, r.misc.rotate_left(4));
    if v.fat == 32 && (((r.misc.rotate_left(9) as u32) * 100) >> 16) < gc.fsinfo_unknown_pct {
        v.fsinfo_unknown = true;
    }
    v.short_io = short_io_of(gc, r);
    v.populate = populate_of(gc, r);
    v
}

fn populate_of(gc: &GenCfg, r: &RawVol) -> Option<crate::vol::Populate> {
    let sel = r.preset.rotate_left(9) ^ r.tiny.rotate_left(3) ^ r.misc;
    if ((sel as u32 * 100) >> 16) >= gc.populate_pct {
        return None;
    }
    let mut m = crate::run::Mix::new(((r.preset as u64) << 48) | ((r.tiny as u64) << 32) | ((r.lo as u64) << 16) | r.hi as u64, r.misc as u64);
    Some(crate::vol::Populate { entropy: (0..24).map(|_| m.next() as u32).collect(), freedoms: m.next() as u16, objects: (m.next() % 14) as u8 })
}

fn short_io_of(gc: &GenCfg, r: &RawVol) -> u8 {
    let sel = r.hi.rotate_left(5) ^ r.lo.rotate_left(11);
    if ((sel as u32 * 100) >> 16) < gc.short_io_pct {
        1 + (sel % 250) as u8
    } else {
        0
    }
}

pub fn raw_vol_strategy() -> impl Strategy<Value = RawVol> {
    (any::<u16>(), any::<u16>(), any::<u16>(), any::<u16>(), any::<u16>()).prop_map(|(preset, tiny, lo, hi, misc)| RawVol { preset, tiny, lo, hi, misc })
}

pub fn case_strategy(gc: GenCfg) -> impl Strategy<Value = Case> {
    let max_ops = gc.max_ops;
    (raw_vol_strategy(), prop::collection::vec(rich_name_strategy(), 6..=6), prop::collection::vec(raw_op_strategy(), 1..=max_ops)).prop_map(move |(rv, extra, raws)| {
        let vol = decode_vol(&gc, &rv);
        let nt = NameTable::new(&gc, &extra);
        let cs = vol.cluster_size();
        // what a foreign population holds is known to the generator (a pure function of the volume configuration), so
        // that lookups, removals and renames act on it
        let mut mem: Vec<String> = if vol.populate.is_some() { crate::vol::populated_paths(&vol).into_iter().take(20).collect() } else { Vec::new() };
        let ops = raws.iter().flat_map(|r| decode_op(&gc, &nt, cs, r, &mut mem)).collect();
        Case { vol, ops }
    })
}

// ---------------------------------------------------------------------------------------------------------
// Directory-pressure histories.  The state-blind mixed generator rarely fills a directory (a full fixed root in
// ~0.1 % of its cases, a directory that has to grow in ~0.2 %), yet slot-run search, end-marker handling, growth and
// its roll-back are where entry creation is intricate.  This profile concentrates on ONE directory (a small fixed
// root, or a cluster-chained directory on a volume with 1..6 free clusters), creates entries whose names need
// 1..=7 slots (and sometimes 20), removes the most recent or a random earlier one (holes of every size directly in front
// of the end marker and in the middle), renames to names of another length, and moves entries in and out.

/// name number `i` needing a chosen number of slots: 1 (upper-case 8.3), 2 (lower case / 13 units), 3 (14 / 26), ...
pub fn pressure_name(i: usize, sel: u16) -> String {
    let stem = format!("f{:02}", i % 100);
    let lens: [usize; 16] = [0, 1, 3, 13, 14, 26, 27, 39, 40, 52, 53, 65, 66, 78, 130, 255];
    let l = lens[(sel as usize * lens.len()) >> 16];
    match l {
        0 => stem.to_uppercase(),                    // "F07": short entry only
        1 => format!("{}.TXT", stem.to_uppercase()), // "F07.TXT": short entry only
        _ => {
            let mut s = stem;
            while s.len() < l {
                s.push((b'a' + (s.len() % 23) as u8) as char);
            }
            s
        }
    }
}

pub fn pressure_case_strategy(gc: GenCfg) -> impl Strategy<Value = Case> {
    (raw_vol_strategy(), any::<u16>(), prop::collection::vec(raw_op_strategy(), 4..=64)).prop_map(move |(rv, mode, raws)| {
        let fixed_root = mode % 100 < 45;
        let mut vol = if fixed_root {
            // small fixed roots: 16, 32, 32, 40, 32 entries
            VolCfg::from_preset(pick(&[0usize, 0, 0, 1, 3, 5, 11], rv.preset))
        } else {
            let mut v = if ((rv.misc as u32 * 100) >> 16) < gc.gen_geom_pct { VolCfg::from_gen_preset((rv.preset as usize * crate::vol::GEN_PRESETS.len()) >> 16) } else { VolCfg::from_preset(pick(&[0usize, 1, 5, 8, 9, 12, 12, 3], rv.preset)) };
            v.free_lo = Some(pick(&[1u16, 2, 2, 3, 3, 4, 6], rv.lo));
            v.free_hi = pick(&[0u16, 0, 1], rv.hi);
            v
        };
        vol.status0 = pick(&gc.status0, rv.misc);
        vol.access_date = pick(&gc.access_date, rv.misc.rotate_left(4));
        vol.short_io = short_io_of(&gc, &rv);
        // the directory under pressure
        let base: &str = if fixed_root || (vol.fat == 32 && mode & 0x100 != 0) { "" } else if mode & 0x200 != 0 { "d/e" } else { "d" };
        let other: &str = if base.is_empty() { "o" } else { "" };
        let join = |dir: &str, n: &str| if dir.is_empty() { n.to_string() } else { format!("{}/{}", dir, n) };
        let mut ops = Vec::new();
        if !base.is_empty() {
            ops.push(Op::CreateDir { via: 0, path: "d".into(), keep: 0 });
            if base == "d/e" {
                ops.push(Op::CreateDir { via: 0, path: "d/e".into(), keep: 0 });
            }
        }
        let mut made: Vec<String> = Vec::new(); // full paths of entries named so far (some are gone again: state-blind)
        let mut counter = 0usize;
        let cs = vol.cluster_size();
        for r in &raws {
            let t = (r.kind as u32 * 100) >> 16;
            let newest_first = r.d & 3 != 0; // 75 %: act on the most recent entry (hole directly before the end marker)
            let pick_made = |made: &Vec<String>, sel: u16| -> Option<String> {
                if made.is_empty() {
                    None
                } else if newest_first {
                    Some(made[made.len() - 1 - ((sel as usize * made.len().min(3)) >> 16)].clone())
                } else {
                    Some(made[(sel as usize * made.len()) >> 16].clone())
                }
            };
            if t < 34 {
                // one create in eight names an entry created earlier (still there: opened; gone: created again; and if the
                // library does not recognise its own entry: a duplicate)
                let again = if r.c % 8 == 0 { pick_made(&made, r.b) } else { None };
                let p = match again {
                    Some(p) => p,
                    None => {
                        let p = join(base, &pressure_name(counter, r.a));
                        counter += 1;
                        made.push(p.clone());
                        p
                    }
                };
                ops.push(Op::CreateFile { via: 0, path: p, keep: 0 });
            } else if t < 46 {
                let p = join(base, &pressure_name(counter, r.a));
                counter += 1;
                made.push(p.clone());
                ops.push(Op::CreateDir { via: 0, path: p, keep: 0 });
            } else if t < 68 {
                if let Some(p) = pick_made(&made, r.b) {
                    if r.c & 7 != 0 {
                        made.retain(|x| *x != p);
                    }
                    ops.push(Op::Remove { via: 0, path: p });
                }
            } else if t < 82 {
                // rename inside the directory to a name of another length
                if let Some(p) = pick_made(&made, r.b) {
                    let dst = join(base, &pressure_name(counter, r.a));
                    counter += 1;
                    made.retain(|x| *x != p);
                    made.push(dst.clone());
                    ops.push(Op::Rename { via: 0, src: p, dvia: 0, dst });
                }
            } else if t < 88 {
                // move out of / into the directory
                if r.c & 1 == 0 {
                    if let Some(p) = pick_made(&made, r.b) {
                        if other == "o" && !made.iter().any(|x| x == "o") {
                            ops.push(Op::CreateDir { via: 0, path: "o".into(), keep: 0 });
                        }
                        let dst = join(other, &pressure_name(counter, r.a));
                        counter += 1;
                        made.retain(|x| *x != p);
                        made.push(dst.clone());
                        ops.push(Op::Rename { via: 0, src: p, dvia: 0, dst });
                    }
                } else {
                    let src = join(other, &pressure_name(counter, 0));
                    counter += 1;
                    if other == "o" {
                        ops.push(Op::CreateDir { via: 0, path: "o".into(), keep: 0 });
                    }
                    ops.push(Op::CreateFile { via: 0, path: src.clone(), keep: 0 });
                    let dst = join(base, &pressure_name(counter, r.a));
                    counter += 1;
                    made.push(dst.clone());
                    ops.push(Op::Rename { via: 0, src, dvia: 0, dst });
                }
            } else if t < 93 {
                // a file with data: eats clusters, so that growth of the directory runs out of space
                let p = join(base, &pressure_name(counter, r.a & 0x3FFF));
                counter += 1;
                made.push(p.clone());
                ops.push(Op::CreateFile { via: 0, path: p, keep: 1 });
                ops.push(Op::Write { h: 0, len: io_len(r.n, cs, 250), seed: (r.a >> 8) as u8 });
                ops.push(Op::CloseFile { h: 0 });
            } else if t < 95 {
                ops.push(Op::List { via: 0 });
            } else if t < 97 {
                ops.push(Op::Stats);
            } else if t < 99 {
                ops.push(Op::Remount { how: (r.a & 1) as u8 });
            } else {
                if let Some(p) = pick_made(&made, r.b) {
                    ops.push(Op::OpenFile { via: 0, path: p, keep: 0 });
                }
            }
        }
        Case { vol, ops }
    })
}
