//! imggen: a spec-driven image builder, independent of the library's writer. `mkfs` produces an empty volume
//! for any geometry the specification allows (reserved sectors, 1-3 FATs, mirroring off with any active copy,
//! FAT32 root cluster != 2, non-zero reserved high nibbles, any end-of-chain value). `populate` (further below)
//! writes directories and files using the encoding freedoms the library's own writer never uses, and returns
//! the ground truth.

use crate::dev::Store;
use crate::refdec::Geom;
use crate::vol::{set_fat, CANARY, GARBAGE};
use serde::{Deserialize, Serialize};

#[derive(Clone, Debug, Serialize, Deserialize, PartialEq, Eq, Hash)]
pub struct GenGeom {
    pub rsvd: u16,
    /// Some(k): mirroring disabled, copy k active
    pub mirror_off: Option<u8>,
    /// FAT32 root directory first cluster (>= 2)
    pub root_cluster: u32,
    /// put non-zero values into the reserved top nibble of FAT32 entries
    pub high_nibbles: bool,
    pub fsinfo: u16,
    pub bkboot: u16,
    /// low 3 bits select the end-of-chain value 0x..F8 + k used by the builder
    pub eoc: u8,
    pub media: u8,
    /// fill padding entries past the last cluster with non-zero values
    pub pad_garbage: bool,
    pub label: bool,
    /// FAT32 with mirroring ON: value of the (then meaningless) active-copy nibble of the extended flags
    #[serde(default)]
    pub stray_active: u8,
    /// FAT16/32 table entry 1: bit 0 = clean-shutdown bit cleared (volume was not unmounted properly by whoever used
    /// it last), bit 1 = no-I/O-error bit cleared; the boot-sector status byte stays as configured
    #[serde(default)]
    pub fat1: u8,
    /// non-zero: use exactly this FAT size in sectors (it must be able to hold clusters+2 entries) instead of the
    /// size the fixed-point iteration arrives at, so that an exact cluster count can be hit
    #[serde(default)]
    pub fatsz: u32,
    /// extended boot signature: 0 = 0x29 (volume id, label and type fields present); otherwise the byte itself
    /// (0x28: only the volume id follows; any other value: none of the three fields)
    #[serde(default)]
    pub ext_sig: u8,
    /// FAT32, non-zero: the root directory starts in the k-th cluster from the end (1 = the very last cluster)
    #[serde(default)]
    pub root_from_end: u8,
    /// FAT32: reserved bits 4..6 and 8..15 of the extended flags (what a reader has to ignore): low three bits of this
    /// value go to bits 4..6, the rest to bits 8..15
    #[serde(default)]
    pub ext_reserved: u16,
}

impl Default for GenGeom {
    fn default() -> Self {
        GenGeom { rsvd: 1, mirror_off: None, root_cluster: 2, high_nibbles: false, fsinfo: 1, bkboot: 6, eoc: 7, media: 0xF8, pad_garbage: false, label: false, stray_active: 0, fat1: 0, fatsz: 0, ext_sig: 0, root_from_end: 0, ext_reserved: 0 }
    }
}

pub struct MkfsParams {
    pub fat: u8,
    pub bps: u16,
    pub spc: u8,
    pub nfats: u8,
    pub root_entries: u16,
    pub total_sectors: u32,
    pub pad_sectors: u32,
    pub gg: GenGeom,
    /// untouched bytes read as zero (large sparse volumes: zero writes stay free of cost)
    pub zero_fill: bool,
}

fn put16(s: &mut [u8], o: usize, v: u16) {
    s[o..o + 2].copy_from_slice(&v.to_le_bytes());
}
fn put32(s: &mut [u8], o: usize, v: u32) {
    s[o..o + 4].copy_from_slice(&v.to_le_bytes());
}

/// compute the FAT size (sectors) by fixed-point iteration on the specification's definitions
pub fn fat_size(width: u8, bps: u64, spc: u64, rsvd: u64, nfats: u64, root_secs: u64, total: u64) -> Option<(u64, u64)> {
    let mut fatsz = 1u64;
    loop {
        let meta = rsvd + nfats * fatsz + root_secs;
        if meta >= total {
            return None;
        }
        let clusters = (total - meta) / spc;
        let need_bits = (clusters + 2) * width as u64;
        let need = (need_bits + 8 * bps - 1) / (8 * bps);
        if need <= fatsz {
            return Some((fatsz, clusters));
        }
        fatsz = need;
    }
}

pub fn mkfs(p: &MkfsParams) -> Result<Store, String> {
    let bps = p.bps as u64;
    let spc = p.spc as u64;
    let total = p.total_sectors as u64;
    let rsvd = p.gg.rsvd as u64;
    let nfats = p.nfats as u64;
    let root_secs = if p.fat == 32 { 0 } else { (p.root_entries as u64 * 32 + bps - 1) / bps };
    let (fatsz, clusters) = if p.gg.fatsz != 0 {
        let fatsz = p.gg.fatsz as u64;
        let meta = rsvd + nfats * fatsz + root_secs;
        if meta >= total {
            return Err("volume too small for the given FAT size".into());
        }
        let clusters = (total - meta) / spc;
        if (clusters + 2) * p.fat as u64 > fatsz * bps * 8 {
            return Err("the given FAT size cannot hold the cluster count".into());
        }
        (fatsz, clusters)
    } else {
        fat_size(p.fat, bps, spc, rsvd, nfats, root_secs, total).ok_or("volume too small")?
    };
    let root_cluster: u32 = if p.gg.root_from_end > 0 { (clusters + 2 - p.gg.root_from_end as u64) as u32 } else { p.gg.root_cluster };
    let width = if clusters < 4085 {
        12
    } else if clusters < 65525 {
        16
    } else {
        32
    };
    if width != p.fat {
        return Err(format!("geometry yields FAT{} not FAT{} ({} clusters)", width, p.fat, clusters));
    }
    if width != 32 && fatsz > 0xFFFF {
        return Err("FAT too large for FATSz16".into());
    }
    let vol_bytes = total * bps;
    let dev_bytes = vol_bytes + p.pad_sectors as u64 * bps;
    let fill = if p.zero_fill { 0 } else { GARBAGE };
    let mut st = if dev_bytes <= (4 << 20) { Store::dense(dev_bytes as usize, fill) } else { Store::sparse(dev_bytes, fill) };
    // boot sector
    let mut b = vec![0u8; bps as usize];
    b[0] = 0xEB;
    b[1] = 0x3C;
    b[2] = 0x90;
    b[3..11].copy_from_slice(b"IMGGEN10");
    put16(&mut b, 11, p.bps);
    b[13] = p.spc;
    put16(&mut b, 14, p.gg.rsvd);
    b[16] = p.nfats;
    put16(&mut b, 17, if width == 32 { 0 } else { p.root_entries });
    if width != 32 && total < 0x10000 {
        put16(&mut b, 19, total as u16);
    } else {
        put32(&mut b, 32, total as u32);
    }
    b[21] = p.gg.media;
    put16(&mut b, 22, if width == 32 { 0 } else { fatsz as u16 });
    put16(&mut b, 24, 63);
    put16(&mut b, 26, 255);
    put32(&mut b, 28, 0);
    let tail = if width == 32 {
        put32(&mut b, 36, fatsz as u32);
        let ext = match p.gg.mirror_off {
            Some(k) => 0x80 | (k as u16 & 0x0F),
            None => p.gg.stray_active as u16 & 0x0F,
        };
        let ext = ext | ((p.gg.ext_reserved & 7) << 4) | ((p.gg.ext_reserved >> 3) << 8);
        put16(&mut b, 40, ext);
        put16(&mut b, 42, 0);
        put32(&mut b, 44, root_cluster);
        put16(&mut b, 48, p.gg.fsinfo);
        put16(&mut b, 50, p.gg.bkboot);
        64
    } else {
        36
    };
    b[tail] = if width == 12 { 0 } else { 0x80 };
    b[tail + 1] = 0;
    b[tail + 2] = if p.gg.ext_sig == 0 { 0x29 } else { p.gg.ext_sig };
    put32(&mut b, tail + 3, 0xCAFE_F00D);
    b[tail + 7..tail + 18].copy_from_slice(if p.gg.label { b"GENLABEL   " } else { b"NO NAME    " });
    b[tail + 18..tail + 26].copy_from_slice(match width {
        12 => b"FAT12   ",
        16 => b"FAT16   ",
        _ => b"FAT32   ",
    });
    for (i, x) in b[tail + 26..510].iter_mut().enumerate() {
        *x = 0x90 ^ (i as u8 & 1); // "boot code"
    }
    b[510] = 0x55;
    b[511] = 0xAA;
    // reserved area: canary everywhere, then the defined sectors
    let canary = vec![CANARY; (rsvd * bps) as usize];
    st.write_at(0, &canary);
    st.write_at(0, &b);
    if width == 32 {
        if p.gg.bkboot != 0 && (p.gg.bkboot as u64) < rsvd {
            st.write_at(p.gg.bkboot as u64 * bps, &b);
        }
    }
    // FATs
    let chunk = vec![0u8; 1 << 20];
    for c in 0..nfats {
        let mut o = 0u64;
        let total_b = fatsz * bps;
        while o < total_b {
            let n = (total_b - o).min(chunk.len() as u64) as usize;
            st.write_at((rsvd + c * fatsz) * bps + o, &chunk[..n]);
            o += n as u64;
        }
    }
    let g = Geom::parse(&st).map_err(|e| format!("imggen produced a boot sector refdec rejects: {}", e))?;
    let eoc = g.eoc_min() + (p.gg.eoc as u32 & 7);
    let ones = match width {
        12 => 0xF00,
        16 => 0xFF00,
        _ => 0x0FFF_FF00,
    };
    for c in 0..nfats {
        set_fat(&mut st, &g, c, 0, ones | p.gg.media as u32);
        let mut e1 = g.eoc_min() + 7;
        if width == 16 {
            e1 &= !(((p.gg.fat1 as u32 & 1) << 15) | ((p.gg.fat1 as u32 & 2) << 13));
        } else if width == 32 {
            e1 &= !(((p.gg.fat1 as u32 & 1) << 27) | ((p.gg.fat1 as u32 & 2) << 25));
        }
        set_fat(&mut st, &g, c, 1, e1);
    }
    if p.gg.pad_garbage {
        let cap = g.fat_capacity();
        for n in (g.clusters + 2)..cap {
            for c in 0..nfats {
                set_fat(&mut st, &g, c, n as u32, 0x0AAA_AAA5 & (g.eoc_min() - 2));
            }
        }
    }
    if width == 32 && p.gg.high_nibbles {
        let base_fat = g.fat_off(0);
        for n in 2..(g.clusters + 2) {
            let nib = ((n * 7 + 3) % 16) as u8;
            for c in 0..nfats {
                let o = base_fat + c * g.fat_bytes() + 4 * n + 3;
                let mut x = [0u8; 1];
                st.read_at(o, &mut x);
                st.write_at(o, &[(x[0] & 0x0F) | (nib << 4)]);
            }
        }
    }
    // root directory
    if width == 32 {
        if root_cluster as u64 > g.clusters + 1 || root_cluster < 2 {
            return Err("root cluster out of range".into());
        }
        for c in 0..nfats {
            set_fat(&mut st, &g, c, root_cluster, eoc);
        }
        st.write_at(g.cluster_off(root_cluster), &vec![0u8; g.cluster_size() as usize]);
        // FS-info
        if p.gg.fsinfo != 0 && (p.gg.fsinfo as u64) < rsvd {
            let mut f = vec![0u8; bps as usize];
            put32(&mut f, 0, 0x4161_5252);
            put32(&mut f, 484, 0x6141_7272);
            put32(&mut f, 488, (g.clusters - 1) as u32);
            put32(&mut f, 492, 0xFFFF_FFFF);
            put32(&mut f, 508, 0xAA55_0000);
            st.write_at(p.gg.fsinfo as u64 * bps, &f);
        }
    } else {
        st.write_at(g.root_off(), &vec![0u8; (root_secs * bps) as usize]);
    }
    if p.gg.label {
        let mut e = [0u8; 32];
        e[..11].copy_from_slice(b"GENLABEL   ");
        e[11] = 0x08;
        let off = if width == 32 { g.cluster_off(root_cluster) } else { g.root_off() };
        st.write_at(off, &e);
    }
    // inactive copies hold garbage when mirroring is off
    if let (32, Some(act)) = (width, p.gg.mirror_off) {
        for c in 0..nfats {
            if c != act as u64 && !p.zero_fill {
                let junk: Vec<u8> = (0..(fatsz * bps) as usize).map(|i| (i as u8).wrapping_mul(37) ^ 0x5A).collect();
                st.write_at((rsvd + c * fatsz) * bps, &junk);
            }
        }
    }
    // canary after the declared end
    if p.pad_sectors > 0 {
        st.write_at(vol_bytes, &vec![CANARY; (p.pad_sectors as u64 * bps) as usize]);
    }
    Ok(st)
}

// ------------------------------------------------------------------------------------------------------------
// populate: directories and files written with the encoding freedoms the library's writer never uses

use crate::refdec::{sfn_checksum, Geom as G2};
use crate::tree::{TNode, Ts};

/// entropy pool consumed sequentially (all values come from the property-testing library)
pub struct Pool<'a> {
    vals: &'a [u32],
    pos: usize,
}

impl<'a> Pool<'a> {
    pub fn new(vals: &'a [u32]) -> Pool<'a> {
        Pool { vals, pos: 0 }
    }
    pub fn next(&mut self) -> u32 {
        if self.vals.is_empty() {
            return 0;
        }
        let v = self.vals[self.pos % self.vals.len()].wrapping_add(((self.pos / self.vals.len()) as u32).wrapping_mul(0x9E37_79B9));
        self.pos += 1;
        v
    }
    pub fn below(&mut self, n: u32) -> u32 {
        if n == 0 {
            0
        } else {
            ((self.next() as u64 * n as u64) >> 32) as u32
        }
    }
    pub fn chance(&mut self, pct: u32) -> bool {
        self.below(100) < pct
    }
}

#[derive(Clone, Debug, Serialize, Deserialize)]
pub struct Freedoms {
    pub fragmented: bool,
    pub backwards: bool,
    pub eoc_variants: bool,
    pub bad_clusters: bool,
    pub deleted_slots: bool,
    pub orphan_runs: bool,
    pub short_only: bool,
    pub nt_case_flags: bool,
    pub lead_05: bool,
    pub oem_bytes: bool,
    pub label_anywhere: bool,
    pub all_attrs: bool,
    pub junk_after_end: bool,
    pub extra_dir_clusters: bool,
    /// FAT32: the information sector's free count is stale (lower or higher than the table's, but in range): the
    /// specification calls it a hint that "is not necessarily correct"
    #[serde(default)]
    pub stale_count: bool,
    /// FAT12/16: bytes 20..22 of short entries hold a non-zero value (an extended-attribute handle of OS/2-era
    /// writers); they are not part of the cluster number there
    #[serde(default)]
    pub ea_handle: bool,
}

impl Freedoms {
    /// freedoms for volumes that operation histories start from: everything whose result is a finding-free volume with
    /// names that can be typed (no orphan runs, no junk behind the end marker, no 0x05 lead byte, no OEM bytes)
    pub fn for_histories(bits: u16) -> Freedoms {
        let b = |i: u16| bits & (1 << i) != 0;
        Freedoms {
            fragmented: b(0),
            backwards: b(1),
            eoc_variants: b(2),
            bad_clusters: b(3),
            deleted_slots: b(4),
            orphan_runs: false,
            short_only: b(5),
            nt_case_flags: b(6),
            lead_05: false,
            oem_bytes: false,
            label_anywhere: b(7),
            all_attrs: b(8),
            junk_after_end: false,
            extra_dir_clusters: b(9),
            stale_count: false,
            ea_handle: b(10),
        }
    }
    pub fn count(&self) -> usize {
        [self.fragmented, self.backwards, self.eoc_variants, self.bad_clusters, self.deleted_slots, self.orphan_runs, self.short_only, self.nt_case_flags, self.lead_05, self.oem_bytes, self.label_anywhere, self.all_attrs, self.junk_after_end, self.extra_dir_clusters, self.stale_count, self.ea_handle]
            .iter()
            .filter(|x| **x)
            .count()
    }
}

pub struct Truth {
    pub root: Vec<TNode>,
    pub label: Option<[u8; 11]>,
    pub has_fragmented_file: bool,
    pub n_files: usize,
    pub n_dirs: usize,
}

struct Alloc {
    free: Vec<u32>,
}

impl Alloc {
    fn take(&mut self, n: usize, pool: &mut Pool, fr: &Freedoms) -> Option<Vec<u32>> {
        if self.free.len() < n {
            return None;
        }
        let mut out = Vec::with_capacity(n);
        if fr.fragmented && n > 1 && pool.chance(60) {
            for _ in 0..n {
                let i = pool.below(self.free.len() as u32) as usize;
                out.push(self.free.remove(i));
            }
        } else {
            // one chain in five sits at the very end of the free space (the highest cluster numbers of the volume: beyond
            // 65535 on FAT32, where the first cluster needs both words of the entry)
            let start = if self.free.len() > n {
                if pool.chance(20) {
                    self.free.len() - n
                } else {
                    pool.below((self.free.len() - n) as u32) as usize
                }
            } else {
                0
            };
            out = self.free.drain(start..start + n).collect();
            if fr.backwards && pool.chance(40) {
                out.reverse();
            }
        }
        Some(out)
    }
}

fn dos_date(t: &Ts) -> u16 {
    ((t.y - 1980) << 9) | (t.mo << 5) | t.d
}
fn dos_time(t: &Ts) -> u16 {
    (t.h << 11) | (t.mi << 5) | (t.s / 2)
}

fn rand_ts(pool: &mut Pool) -> Ts {
    Ts { y: 1980 + pool.below(128) as u16, mo: 1 + pool.below(12) as u16, d: 1 + pool.below(28) as u16, h: pool.below(24) as u16, mi: pool.below(60) as u16, s: pool.below(60) as u16, ms: (pool.below(100) * 10) as u16 }
}

const SHORT_LEGAL: &[u8] = b"ABCDEFGHIJKLMNOPQRSTUVWXYZ0123456789!#$%&'()-@^_`{}~";

struct Child {
    slots: Vec<[u8; 32]>,
    node: TNode,
    /// index into `slots` of the short entry (to patch the cluster later)
    short_idx: usize,
    sub: Option<Vec<Child>>,
    data: Vec<u8>,
    folded: String,
    short: [u8; 11],
}

fn lfn_slots(units: &[u16], short: &[u8; 11]) -> Vec<[u8; 32]> {
    let chk = sfn_checksum(short);
    let n = (units.len() + 12) / 13;
    let mut out = Vec::new();
    for i in (0..n).rev() {
        let mut u = [0xFFFFu16; 13];
        let part = &units[i * 13..((i + 1) * 13).min(units.len())];
        u[..part.len()].copy_from_slice(part);
        if part.len() < 13 {
            u[part.len()] = 0;
        }
        let mut s = [0u8; 32];
        s[0] = (i + 1) as u8 | if i == n - 1 { 0x40 } else { 0 };
        s[11] = 0x0F;
        s[13] = chk;
        let pos = [1, 3, 5, 7, 9, 14, 16, 18, 20, 22, 24, 28, 30];
        for (k, p) in pos.iter().enumerate() {
            s[*p..*p + 2].copy_from_slice(&u[k].to_le_bytes());
        }
        out.push(s);
    }
    out
}

const NAME_CHARS: &[char] = &['a', 'b', 'c', 'X', 'Y', 'z', '0', '7', ' ', '.', '_', '-', '+', 'é', 'Ж', 'ß', '語', 'ü', ',', '[', ']', '~'];

fn gen_children(pool: &mut Pool, fr: &Freedoms, depth: usize, budget: &mut usize, serial: &mut u32, max_entries: usize, cs: usize) -> Vec<Child> {
    let mut out: Vec<Child> = Vec::new();
    let want = (1 + pool.below(6) as usize).min(max_entries).min(*budget);
    for _ in 0..want {
        if *budget == 0 {
            break;
        }
        *budget -= 1;
        *serial += 1;
        let is_dir = depth < 2 && pool.chance(30);
        let short_only = fr.short_only && pool.chance(45);
        let mut short = [b' '; 11];
        let mut nt = 0u8;
        let visible: Vec<u16>;
        if short_only {
            let bl = 1 + pool.below(8) as usize;
            let el = pool.below(4) as usize;
            for i in 0..bl {
                short[i] = SHORT_LEGAL[pool.below(SHORT_LEGAL.len() as u32) as usize];
            }
            for i in 0..el {
                short[8 + i] = SHORT_LEGAL[pool.below(36) as usize];
            }
            if fr.oem_bytes && pool.chance(40) {
                let k = pool.below(bl as u32) as usize;
                short[k] = 0x80 + pool.below(0x7F) as u8;
            }
            if fr.lead_05 && pool.chance(30) {
                short[0] = 0x05;
            }
            if short[0] == 0xE5 {
                short[0] = 0x05; // 0xE5 in the first byte means "deleted"; the character 0xE5 is stored as 0x05
            }
            // make it unique with the serial number in the middle of the base name when there is room
            let tag = format!("{:X}", *serial % 0xFFF);
            if bl >= tag.len() + 1 {
                short[1..1 + tag.len()].copy_from_slice(tag.as_bytes());
            }
            if fr.nt_case_flags {
                nt = (pool.below(4) as u8) << 3;
            }
            let disp = crate::refdec::short_display(&short, nt);
            visible = disp.iter().map(|b| if *b < 0x80 { *b as u16 } else { 0xFFFD }).collect();
        } else {
            let len = match pool.below(10) {
                0 => 13,
                1 => 14,
                2 => 26,
                3 => 1 + pool.below(60) as usize,
                4 => 200 + pool.below(56) as usize,
                _ => 1 + pool.below(20) as usize,
            };
            let mut name: String = (0..len).map(|_| NAME_CHARS[pool.below(NAME_CHARS.len() as u32) as usize]).collect();
            name.push_str(&format!("{}", *serial));
            let mut units: Vec<u16> = name.encode_utf16().collect();
            units.truncate(255);
            // alias in the ~N form, unique through the serial
            let tag = format!("G{:04X}~{}", *serial & 0xFFFF, 1 + pool.below(9));
            short[..tag.len()].copy_from_slice(tag.as_bytes());
            if pool.chance(60) {
                let ext = [b"TXT", b"BIN", b"A  "][pool.below(3) as usize];
                short[8..11].copy_from_slice(ext);
            }
            // an alias that begins with the character 0xE5 is stored with the lead byte 0x05; the long-name slots carry
            // the checksum of the bytes as stored
            if fr.lead_05 && pool.chance(12) {
                short[0] = 0x05;
            }
            visible = units;
        }
        let folded = crate::refdec::fold(&String::from_utf16_lossy(&visible));
        if visible.is_empty() || out.iter().any(|c| c.folded == folded || c.short == short) || (short[0] == b'.' ) {
            continue;
        }
        let mut attr = if is_dir { 0x10u8 } else { 0 };
        if fr.all_attrs {
            attr |= (pool.below(8) as u8) | if pool.chance(50) { 0x20 } else { 0 };
        }
        // creation time and access date are optional fields: writers that do not keep them store 0 ("not recorded",
        // which decodes to month 0, day 0)
        let not_recorded = Ts { y: 1980, mo: 0, d: 0, h: 0, mi: 0, s: 0, ms: 0 };
        let created = if pool.chance(12) { not_recorded } else { rand_ts(pool) };
        let mut modified = rand_ts(pool);
        modified.s &= !1;
        modified.ms = 0;
        let accessed = if pool.chance(12) { not_recorded } else { rand_ts(pool).date_only() };
        let data: Vec<u8> = if is_dir {
            Vec::new()
        } else {
            let len = match pool.below(6) {
                0 => 0,
                1 => 1 + pool.below(20) as usize,
                2 => cs,
                3 => cs + 1,
                4 => 2 * cs + pool.below(cs as u32) as usize,
                _ => pool.below(4 * cs as u32) as usize,
            };
            (0..len).map(|i| (i as u32).wrapping_mul(31).wrapping_add(*serial) as u8).collect()
        };
        let mut slots: Vec<[u8; 32]> = Vec::new();
        // junk before the entry
        if fr.deleted_slots && pool.chance(35) {
            let mut d = [0u8; 32];
            d[..11].copy_from_slice(b"\xE5ELETED TXT");
            d[11] = 0x20;
            d[26] = 3;
            d[28] = 77;
            slots.push(d);
            if pool.chance(50) {
                let mut run = lfn_slots(&"deleted long name entry".encode_utf16().collect::<Vec<_>>(), b"DELETE~1TXT");
                for s in run.iter_mut() {
                    s[0] = 0xE5;
                }
                slots.extend(run);
                let mut d2 = d;
                d2[1] = b'X';
                slots.push(d2);
            }
        }
        if fr.orphan_runs && pool.chance(30) {
            // an orphan long-name run: wrong checksum / truncated (no index 1) / followed by a deleted slot
            let mut run = lfn_slots(&"orphaned long name that nobody owns".encode_utf16().collect::<Vec<_>>(), b"ORPHAN~1   ");
            match pool.below(3) {
                0 => {
                    for s in run.iter_mut() {
                        s[13] = s[13].wrapping_add(1 + pool.below(200) as u8);
                    }
                    // the wrong checksum must not accidentally match the next entry's short name
                    let real = sfn_checksum(&short);
                    for s in run.iter_mut() {
                        if s[13] == real {
                            s[13] = real.wrapping_add(1);
                        }
                    }
                    slots.extend(run);
                }
                1 => {
                    run.pop();
                    let real = sfn_checksum(&short);
                    for s in run.iter_mut() {
                        if s[13] == real {
                            s[13] = real.wrapping_add(1);
                        }
                    }
                    slots.extend(run);
                }
                _ => {
                    slots.extend(run);
                    let mut d = [0u8; 32];
                    d[..11].copy_from_slice(b"\xE5RPHAN~1   ");
                    d[11] = 0x20;
                    slots.push(d);
                }
            }
        }
        if !short_only {
            slots.extend(lfn_slots(&visible, &short));
        }
        let mut s = [0u8; 32];
        s[..11].copy_from_slice(&short);
        s[11] = attr;
        s[12] = nt;
        s[13] = ((created.s % 2) * 100 + created.ms / 10) as u8;
        s[14..16].copy_from_slice(&dos_time(&created).to_le_bytes());
        s[16..18].copy_from_slice(&dos_date(&created).to_le_bytes());
        s[18..20].copy_from_slice(&dos_date(&accessed).to_le_bytes());
        s[22..24].copy_from_slice(&dos_time(&modified).to_le_bytes());
        s[24..26].copy_from_slice(&dos_date(&modified).to_le_bytes());
        s[28..32].copy_from_slice(&(data.len() as u32).to_le_bytes());
        let short_idx = slots.len();
        slots.push(s);
        let sub = if is_dir { Some(gen_children(pool, fr, depth + 1, budget, serial, 12, cs)) } else { None };
        let node = TNode {
            name: visible,
            short: crate::refdec::short_display(&short, 0),
            is_dir,
            attr,
            size: data.len() as u64,
            created,
            modified,
            accessed,
            data: if is_dir { None } else { Some(data.clone()) },
            children: Vec::new(),
            has_long: !short_only,
        };
        out.push(Child { slots, node, short_idx, sub, data, folded, short });
    }
    out
}

struct Writer<'a> {
    st: &'a mut Store,
    g: G2,
    alloc: Alloc,
    eoc_variants: bool,
    nfats: u64,
    fragmented_file: bool,
}

impl<'a> Writer<'a> {
    fn link(&mut self, chain: &[u32], pool: &mut Pool) {
        for (i, c) in chain.iter().enumerate() {
            let v = if i + 1 < chain.len() { chain[i + 1] } else { self.g.eoc_min() + if self.eoc_variants { pool.below(8) } else { 7 } };
            for copy in 0..self.nfats {
                // inactive copies keep their garbage when mirroring is off
                if !self.g.mirrored() && copy != self.g.active_copy() {
                    continue;
                }
                set_fat(self.st, &self.g, copy, *c, v);
            }
        }
    }

    /// lay out a directory's children; returns the TNodes. `clusters`: the directory's clusters (None = fixed root)
    fn write_dir(&mut self, children: Vec<Child>, self_cluster: u32, parent_cluster: u32, is_root: bool, fixed_root: bool, label: Option<&[u8; 11]>, pool: &mut Pool, fr: &Freedoms, root_chain: Option<Vec<u32>>) -> Result<Vec<TNode>, String> {
        let cs = self.g.cluster_size() as usize;
        let mut slots: Vec<[u8; 32]> = Vec::new();
        if !is_root {
            for (nm, cl) in [(b".          ", self_cluster), (b"..         ", parent_cluster)] {
                let mut s = [0u8; 32];
                s[..11].copy_from_slice(nm);
                s[11] = 0x10;
                s[26..28].copy_from_slice(&(cl as u16).to_le_bytes());
                s[20..22].copy_from_slice(&((cl >> 16) as u16).to_le_bytes());
                s[16] = 0x21;
                s[18] = 0x21;
                s[24] = 0x21;
                slots.push(s);
            }
        }
        let label_pos = if label.is_some() { if fr.label_anywhere { pool.below(children.len() as u32 + 1) as usize } else { 0 } } else { usize::MAX };
        let mut nodes = Vec::new();
        let mut pending: Vec<(usize, Child)> = Vec::new(); // (index of short slot in `slots`, child)
        for (i, ch) in children.into_iter().enumerate() {
            if i == label_pos {
                let mut s = [0u8; 32];
                s[..11].copy_from_slice(label.unwrap());
                // other writers store the label with the archive bit and a modification time (attribute 0x28)
                s[11] = if fr.label_anywhere && pool.chance(50) { 0x28 } else { 0x08 };
                if s[11] == 0x28 {
                    s[22..24].copy_from_slice(&0x6000u16.to_le_bytes());
                    s[24..26].copy_from_slice(&0x5021u16.to_le_bytes());
                }
                slots.push(s);
            }
            let base = slots.len();
            slots.extend(ch.slots.iter().copied());
            pending.push((base + ch.short_idx, ch));
        }
        if label_pos != usize::MAX && label_pos >= pending.len() {
            let mut s = [0u8; 32];
            s[..11].copy_from_slice(label.unwrap());
            s[11] = 0x08;
            slots.push(s);
        }
        // allocate data for the children and patch their cluster fields
        for (sidx, ch) in pending.into_iter() {
            let mut node = ch.node.clone();
            let first = if let Some(sub) = ch.sub {
                let need = 1;
                let chain = self.alloc.take(need, pool, fr).ok_or("out of clusters")?;
                let first = chain[0];
                // the subdirectory's own chain is extended inside write_dir when needed
                let kids = self.write_dir_chain(sub, chain, if is_root { 0 } else { self_cluster }, pool, fr)?;
                node.children = kids;
                first
            } else if ch.data.is_empty() {
                0
            } else {
                let n = (ch.data.len() + cs - 1) / cs;
                let chain = self.alloc.take(n, pool, fr).ok_or("out of clusters")?;
                if chain.windows(2).any(|w| w[1] != w[0] + 1) {
                    self.fragmented_file = true;
                }
                self.link(&chain, pool);
                for (k, c) in chain.iter().enumerate() {
                    let part = &ch.data[k * cs..((k + 1) * cs).min(ch.data.len())];
                    let mut buf = vec![0xEEu8; cs]; // slack after the last byte is garbage, not zeros
                    buf[..part.len()].copy_from_slice(part);
                    self.st.write_at(self.g.cluster_off(*c), &buf);
                }
                chain[0]
            };
            slots[sidx][26..28].copy_from_slice(&(first as u16).to_le_bytes());
            if self.g.width == 32 {
                slots[sidx][20..22].copy_from_slice(&((first >> 16) as u16).to_le_bytes());
            } else if fr.ea_handle && pool.chance(40) {
                // FAT12/16: the two bytes are not part of the cluster number (OS/2 kept an extended-attribute handle there)
                let h = 1 + pool.below(0xFFFE) as u16;
                slots[sidx][20..22].copy_from_slice(&h.to_le_bytes());
            }
            nodes.push(node);
        }
        // write the slots
        let total_bytes = slots.len() * 32;
        if fixed_root {
            if slots.len() > self.g.raw.root_ent_cnt as usize {
                return Err("fixed root overflow".into());
            }
            let cap = self.g.root_bytes() as usize;
            let mut buf = vec![0u8; cap];
            for (i, s) in slots.iter().enumerate() {
                buf[i * 32..i * 32 + 32].copy_from_slice(s);
            }
            if fr.junk_after_end {
                for i in slots.len()..cap / 32 {
                    for b in 1..32 {
                        buf[i * 32 + b] = pool.next() as u8;
                    }
                }
            }
            self.st.write_at(self.g.root_off(), &buf);
        } else {
            let mut chain = root_chain.ok_or("chain missing")?;
            let mut need = (total_bytes + cs - 1) / cs;
            if need == 0 {
                need = 1;
            }
            if fr.extra_dir_clusters && pool.chance(40) {
                need += 1;
            }
            while chain.len() < need {
                let more = self.alloc.take(1, pool, fr).ok_or("out of clusters")?;
                chain.push(more[0]);
            }
            self.link(&chain, pool);
            let mut buf = vec![0u8; chain.len() * cs];
            for (i, s) in slots.iter().enumerate() {
                buf[i * 32..i * 32 + 32].copy_from_slice(s);
            }
            if fr.junk_after_end {
                for i in slots.len()..buf.len() / 32 {
                    for b in 1..32 {
                        buf[i * 32 + b] = pool.next() as u8;
                    }
                }
            }
            for (k, c) in chain.iter().enumerate() {
                self.st.write_at(self.g.cluster_off(*c), &buf[k * cs..(k + 1) * cs]);
            }
        }
        Ok(nodes)
    }

    fn write_dir_chain(&mut self, children: Vec<Child>, chain: Vec<u32>, parent_cluster: u32, pool: &mut Pool, fr: &Freedoms) -> Result<Vec<TNode>, String> {
        let first = chain[0];
        self.write_dir(children, first, parent_cluster, false, false, None, pool, fr, Some(chain))
    }
}

/// Populate an empty imggen volume. Returns the ground truth.
pub fn populate(st: &mut Store, entropy: &[u32], fr: &Freedoms, max_objects: usize) -> Result<Truth, String> {
    let g = G2::parse(st)?;
    let mut pool = Pool::new(entropy);
    // free clusters, minus a few BAD ones
    // (clusters the volume already marks as used or BAD are left alone: volumes with little free space stay that way)
    let maxc = g.max_cluster();
    let candidates: Vec<u32> = if maxc > 20_000 {
        // big volumes: three windows (start, middle, very end) instead of a scan of the whole table
        (2..2_002u32).chain(maxc / 2..maxc / 2 + 2_000).chain(maxc - 1_999..=maxc).collect()
    } else {
        (2..=maxc).collect()
    };
    let mut free: Vec<u32> = candidates.into_iter().filter(|c| !(g.width == 32 && *c == g.raw.root_clus) && g.fat(st, *c) == 0).collect();
    if free.len() < 4 {
        return Err("no room to populate".into());
    }
    let near_limit = |n: u32| (n as i64 - 4085).abs() <= 16 || (n as i64 - 65525).abs() <= 16;
    if near_limit(g.max_cluster()) {
        // cluster count on a FAT-width limit: work at the two ends, so that chains use the highest cluster numbers
        let n = free.len();
        if n > 120 {
            let mut f2: Vec<u32> = free[..60].to_vec();
            f2.extend_from_slice(&free[n - 60..]);
            free = f2;
        }
    } else if free.len() > 3000 {
        // keep the working set small on big volumes: a window at the start, one in the middle, one at the very end
        let n = free.len();
        let mut f2: Vec<u32> = free[..800].to_vec();
        f2.extend_from_slice(&free[n / 2..n / 2 + 800]);
        f2.extend_from_slice(&free[n - 800..]);
        free = f2;
    }
    let nfats = g.nfats;
    if fr.bad_clusters {
        for _ in 0..(1 + pool.below(6)) {
            if free.len() < 20 {
                break;
            }
            let i = pool.below(free.len() as u32) as usize;
            let c = free.remove(i);
            for copy in 0..nfats {
                if !g.mirrored() && copy != g.active_copy() {
                    continue;
                }
                set_fat(st, &g, copy, c, g.bad_mark());
            }
        }
    }
    let cs = g.cluster_size() as usize;
    let fixed_root = g.width != 32;
    let mut budget = max_objects;
    let mut serial = 0u32;
    let root_cap = if fixed_root { (g.raw.root_ent_cnt as usize).saturating_sub(2) / 4 } else { 40 };
    let children = gen_children(&mut pool, fr, 0, &mut budget, &mut serial, root_cap.max(1), cs);
    // fixed root capacity check: drop children until the slots fit
    let mut children = children;
    if fixed_root {
        loop {
            let n: usize = children.iter().map(|c| c.slots.len()).sum::<usize>() + 1;
            if n <= g.raw.root_ent_cnt as usize || children.is_empty() {
                break;
            }
            children.pop();
        }
    }
    let label: Option<[u8; 11]> = if pool.chance(60) { Some(*b"TRUTH LABEL") } else { None };
    let mut w = Writer { st, g: g.clone(), alloc: Alloc { free }, eoc_variants: fr.eoc_variants, nfats, fragmented_file: false };
    let root_chain = if fixed_root { None } else { Some(vec![g.raw.root_clus]) };
    let root_cluster = if fixed_root { 0 } else { g.raw.root_clus };
    let nodes = w.write_dir(children, root_cluster, 0, true, fixed_root, label.as_ref(), &mut pool, fr, root_chain)?;
    let frag = w.fragmented_file;
    // FS-info
    if g.width == 32 && g.raw.fs_info != 0 {
        let mut free_cnt = g.count_free(st) as u32;
        if fr.stale_count {
            free_cnt = match pool.below(5) {
                0 => 0,
                1 => free_cnt / 2,
                2 => free_cnt.saturating_sub(1),
                3 => (free_cnt + 1 + pool.below(40)).min(g.clusters as u32),
                _ => pool.below(4),
            };
        }
        st.write_at(g.fsinfo_off() + 488, &free_cnt.to_le_bytes());
    }
    fn count(v: &[TNode]) -> (usize, usize) {
        let mut f = 0;
        let mut d = 0;
        for n in v {
            if n.is_dir {
                d += 1;
                let (a, b) = count(&n.children);
                f += a;
                d += b;
            } else {
                f += 1;
            }
        }
        (f, d)
    }
    let (n_files, n_dirs) = count(&nodes);
    Ok(Truth { root: nodes, label, has_fragmented_file: frag, n_files, n_dirs })
}
