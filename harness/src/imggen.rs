//! imggen: a spec-driven image builder, independent of the library's writer. `mkfs` produces an empty volume
//! for any geometry the specification allows (reserved sectors, 1-3 FATs, mirroring off with any active copy,
//! FAT32 root cluster != 2, non-zero reserved high nibbles, any end-of-chain value). `populate` (further below)
//! writes directories and files using the encoding freedoms the library's own writer never uses, and returns
//! the ground truth.

use crate::dev::Store;
use crate::refdec::Geom;
use crate::vol::{set_fat, CANARY, GARBAGE};
use serde::{Deserialize, Serialize};

#[derive(Clone, Debug, Serialize, Deserialize, PartialEq, Eq, Hash)]
pub struct GenGeom {
    pub rsvd: u16,
    /// Some(k): mirroring disabled, copy k active
    pub mirror_off: Option<u8>,
    /// FAT32 root directory first cluster (>= 2)
    pub root_cluster: u32,
    /// put non-zero values into the reserved top nibble of FAT32 entries
    pub high_nibbles: bool,
    pub fsinfo: u16,
    pub bkboot: u16,
    /// low 3 bits select the end-of-chain value 0x..F8 + k used by the builder
    pub eoc: u8,
    pub media: u8,
    /// fill padding entries past the last cluster with non-zero values
    pub pad_garbage: bool,
    pub label: bool,
}

impl Default for GenGeom {
    fn default() -> Self {
        GenGeom { rsvd: 1, mirror_off: None, root_cluster: 2, high_nibbles: false, fsinfo: 1, bkboot: 6, eoc: 7, media: 0xF8, pad_garbage: false, label: false }
    }
}

pub struct MkfsParams {
    pub fat: u8,
    pub bps: u16,
    pub spc: u8,
    pub nfats: u8,
    pub root_entries: u16,
    pub total_sectors: u32,
    pub pad_sectors: u32,
    pub gg: GenGeom,
    /// untouched bytes read as zero (large sparse volumes: zero writes stay free of cost)
    pub zero_fill: bool,
}

fn put16(s: &mut [u8], o: usize, v: u16) {
    s[o..o + 2].copy_from_slice(&v.to_le_bytes());
}
fn put32(s: &mut [u8], o: usize, v: u32) {
    s[o..o + 4].copy_from_slice(&v.to_le_bytes());
}

/// compute the FAT size (sectors) by fixed-point iteration on the specification's definitions
pub fn fat_size(width: u8, bps: u64, spc: u64, rsvd: u64, nfats: u64, root_secs: u64, total: u64) -> Option<(u64, u64)> {
    let mut fatsz = 1u64;
    loop {
        let meta = rsvd + nfats * fatsz + root_secs;
        if meta >= total {
            return None;
        }
        let clusters = (total - meta) / spc;
        let need_bits = (clusters + 2) * width as u64;
        let need = (need_bits + 8 * bps - 1) / (8 * bps);
        if need <= fatsz {
            return Some((fatsz, clusters));
        }
        fatsz = need;
    }
}

pub fn mkfs(p: &MkfsParams) -> Result<Store, String> {
    let bps = p.bps as u64;
    let spc = p.spc as u64;
    let total = p.total_sectors as u64;
    let rsvd = p.gg.rsvd as u64;
    let nfats = p.nfats as u64;
    let root_secs = if p.fat == 32 { 0 } else { (p.root_entries as u64 * 32 + bps - 1) / bps };
    let (fatsz, clusters) = fat_size(p.fat, bps, spc, rsvd, nfats, root_secs, total).ok_or("volume too small")?;
    let width = if clusters < 4085 {
        12
    } else if clusters < 65525 {
        16
    } else {
        32
    };
    if width != p.fat {
        return Err(format!("geometry yields FAT{} not FAT{} ({} clusters)", width, p.fat, clusters));
    }
    if width != 32 && fatsz > 0xFFFF {
        return Err("FAT too large for FATSz16".into());
    }
    let vol_bytes = total * bps;
    let dev_bytes = vol_bytes + p.pad_sectors as u64 * bps;
    let fill = if p.zero_fill { 0 } else { GARBAGE };
    let mut st = if dev_bytes <= (4 << 20) { Store::dense(dev_bytes as usize, fill) } else { Store::sparse(dev_bytes, fill) };
    // boot sector
    let mut b = vec![0u8; bps as usize];
    b[0] = 0xEB;
    b[1] = 0x3C;
    b[2] = 0x90;
    b[3..11].copy_from_slice(b"IMGGEN10");
    put16(&mut b, 11, p.bps);
    b[13] = p.spc;
    put16(&mut b, 14, p.gg.rsvd);
    b[16] = p.nfats;
    put16(&mut b, 17, if width == 32 { 0 } else { p.root_entries });
    if width != 32 && total < 0x10000 {
        put16(&mut b, 19, total as u16);
    } else {
        put32(&mut b, 32, total as u32);
    }
    b[21] = p.gg.media;
    put16(&mut b, 22, if width == 32 { 0 } else { fatsz as u16 });
    put16(&mut b, 24, 63);
    put16(&mut b, 26, 255);
    put32(&mut b, 28, 0);
    let tail = if width == 32 {
        put32(&mut b, 36, fatsz as u32);
        let ext = match p.gg.mirror_off {
            Some(k) => 0x80 | (k as u16 & 0x0F),
            None => 0,
        };
        put16(&mut b, 40, ext);
        put16(&mut b, 42, 0);
        put32(&mut b, 44, p.gg.root_cluster);
        put16(&mut b, 48, p.gg.fsinfo);
        put16(&mut b, 50, p.gg.bkboot);
        64
    } else {
        36
    };
    b[tail] = if width == 12 { 0 } else { 0x80 };
    b[tail + 1] = 0;
    b[tail + 2] = 0x29;
    put32(&mut b, tail + 3, 0xCAFE_F00D);
    b[tail + 7..tail + 18].copy_from_slice(if p.gg.label { b"GENLABEL   " } else { b"NO NAME    " });
    b[tail + 18..tail + 26].copy_from_slice(match width {
        12 => b"FAT12   ",
        16 => b"FAT16   ",
        _ => b"FAT32   ",
    });
    for (i, x) in b[tail + 26..510].iter_mut().enumerate() {
        *x = 0x90 ^ (i as u8 & 1); // "boot code"
    }
    b[510] = 0x55;
    b[511] = 0xAA;
    // reserved area: canary everywhere, then the defined sectors
    let canary = vec![CANARY; (rsvd * bps) as usize];
    st.write_at(0, &canary);
    st.write_at(0, &b);
    if width == 32 {
        if p.gg.bkboot != 0 && (p.gg.bkboot as u64) < rsvd {
            st.write_at(p.gg.bkboot as u64 * bps, &b);
        }
    }
    // FATs
    let chunk = vec![0u8; 1 << 20];
    for c in 0..nfats {
        let mut o = 0u64;
        let total_b = fatsz * bps;
        while o < total_b {
            let n = (total_b - o).min(chunk.len() as u64) as usize;
            st.write_at((rsvd + c * fatsz) * bps + o, &chunk[..n]);
            o += n as u64;
        }
    }
    let g = Geom::parse(&st).map_err(|e| format!("imggen produced a boot sector refdec rejects: {}", e))?;
    let eoc = g.eoc_min() + (p.gg.eoc as u32 & 7);
    let ones = match width {
        12 => 0xF00,
        16 => 0xFF00,
        _ => 0x0FFF_FF00,
    };
    for c in 0..nfats {
        set_fat(&mut st, &g, c, 0, ones | p.gg.media as u32);
        set_fat(&mut st, &g, c, 1, g.eoc_min() + 7);
    }
    if p.gg.pad_garbage {
        let cap = g.fat_capacity();
        for n in (g.clusters + 2)..cap {
            for c in 0..nfats {
                set_fat(&mut st, &g, c, n as u32, 0x0AAA_AAA5 & (g.eoc_min() - 2));
            }
        }
    }
    if width == 32 && p.gg.high_nibbles {
        let base_fat = g.fat_off(0);
        for n in 2..(g.clusters + 2) {
            let nib = ((n * 7 + 3) % 16) as u8;
            for c in 0..nfats {
                let o = base_fat + c * g.fat_bytes() + 4 * n + 3;
                let mut x = [0u8; 1];
                st.read_at(o, &mut x);
                st.write_at(o, &[(x[0] & 0x0F) | (nib << 4)]);
            }
        }
    }
    // root directory
    if width == 32 {
        if p.gg.root_cluster as u64 > g.clusters + 1 {
            return Err("root cluster out of range".into());
        }
        for c in 0..nfats {
            set_fat(&mut st, &g, c, p.gg.root_cluster, eoc);
        }
        st.write_at(g.cluster_off(p.gg.root_cluster), &vec![0u8; g.cluster_size() as usize]);
        // FS-info
        if p.gg.fsinfo != 0 && (p.gg.fsinfo as u64) < rsvd {
            let mut f = vec![0u8; bps as usize];
            put32(&mut f, 0, 0x4161_5252);
            put32(&mut f, 484, 0x6141_7272);
            put32(&mut f, 488, (g.clusters - 1) as u32);
            put32(&mut f, 492, 0xFFFF_FFFF);
            put32(&mut f, 508, 0xAA55_0000);
            st.write_at(p.gg.fsinfo as u64 * bps, &f);
        }
    } else {
        st.write_at(g.root_off(), &vec![0u8; (root_secs * bps) as usize]);
    }
    if p.gg.label {
        let mut e = [0u8; 32];
        e[..11].copy_from_slice(b"GENLABEL   ");
        e[11] = 0x08;
        let off = if width == 32 { g.cluster_off(p.gg.root_cluster) } else { g.root_off() };
        st.write_at(off, &e);
    }
    // inactive copies hold garbage when mirroring is off
    if let (32, Some(act)) = (width, p.gg.mirror_off) {
        for c in 0..nfats {
            if c != act as u64 && !p.zero_fill {
                let junk: Vec<u8> = (0..(fatsz * bps) as usize).map(|i| (i as u8).wrapping_mul(37) ^ 0x5A).collect();
                st.write_at((rsvd + c * fatsz) * bps, &junk);
            }
        }
    }
    // canary after the declared end
    if p.pad_sectors > 0 {
        st.write_at(vol_bytes, &vec![CANARY; (p.pad_sectors as u64 * bps) as usize]);
    }
    Ok(st)
}
