use fatfs_verif::{props, run, session, vol};

use run::Tier;

fn usage() -> ! {
    eprintln!("usage: fv <ID> quick|thorough | fv <ID> --replay <file> | fv selftest");
    std::process::exit(2);
}

fn main() {
    session::install_quiet_panic_hook();
    let args: Vec<String> = std::env::args().collect();
    if args.len() < 2 {
        usage();
    }
    let seed: u64 = std::env::var("VERIF_SEED").ok().and_then(|s| s.trim().parse::<i64>().ok()).map(|v| v as u64).unwrap_or(1);
    if args[1] == "selftest" {
        match vol::self_test() {
            Ok(()) => {
                println!("selftest ok");
                return;
            }
            Err(e) => {
                eprintln!("selftest failed: {}", e);
                std::process::exit(2);
            }
        }
    }
    if args[1] == "gen-corpus" {
        fatfs_verif::fuzzglue::gen_corpus();
        return;
    }
    if args[1] == "dump-c08" {
        props::c08::dump(&run::load_replay(&args[2]).unwrap());
        return;
    }
    let id = args[1].as_str();
    if args.len() >= 4 && args[2] == "--replay" {
        let v = match run::load_replay(&args[3]) {
            Ok(v) => v,
            Err(e) => {
                eprintln!("{}", e);
                std::process::exit(2);
            }
        };
        let r = props::replay(id, &v);
        match r {
            Ok(None) => {
                println!("replay {}: property held", args[3]);
                std::process::exit(0);
            }
            Ok(Some(m)) => {
                println!("VIOLATION property={} replay={}", id, args[3]);
                println!("  {}", m);
                std::process::exit(1);
            }
            Err(e) => {
                eprintln!("{}", e);
                std::process::exit(2);
            }
        }
    }
    let tier = match args.get(2).map(|s| s.as_str()).or(std::env::var("VERIF_TIER").ok().as_deref()) {
        Some("thorough") => Tier::Thorough,
        _ => Tier::Quick,
    };
    // a panic of the harness itself (not of the library, which is always called under a guard) is a machinery problem:
    // exit 2 with the message, never a silent exit 101
    let id2 = id.to_string();
    let r = std::panic::catch_unwind(move || props::run(&id2, tier, seed));
    let code = match r {
        Ok(Some(c)) => c,
        Ok(None) => {
            eprintln!("unknown property {}", id);
            2
        }
        Err(p) => {
            let msg = p.downcast_ref::<&str>().map(|s| s.to_string()).or_else(|| p.downcast_ref::<String>().cloned()).unwrap_or_default();
            eprintln!("HARNESS PANIC in {} (machinery problem, not a verdict): {} [{}]", id, msg, fatfs_verif::session::last_panic());
            2
        }
    };
    std::process::exit(code);
}
