//! Reference model: a plain in-memory tree with case-insensitive, case-preserving names, file bytes,
//! cursors and the timestamp stamping rules. Written from the API documentation and the property texts.

use crate::refdec::{fold, short_display, Decoded, DirNode};
use crate::session::EK;
use crate::tree::{TNode, Ts};

pub type Nid = usize;

#[derive(Clone, Debug)]
pub enum MKind {
    File(Vec<u8>),
    Dir(Vec<Nid>),
}

#[derive(Clone, Debug)]
pub struct MNode {
    pub name: String,
    /// 8.3 alias as stored on disk; learned from the raw image (the alias is an output of the library)
    pub alias: Option<[u8; 11]>,
    pub parent: Nid,
    pub kind: MKind,
    pub attr: u8,
    pub created: Ts,
    pub modified: Ts,
    pub accessed: Ts,
    /// false once the library may legitimately have restamped the entry (directories written into)
    pub times_known: bool,
    /// the entry got its current name (and so its alias) from the library in this history, not from a foreign writer
    pub named_here: bool,
}

impl MNode {
    pub fn is_dir(&self) -> bool {
        matches!(self.kind, MKind::Dir(_))
    }
}

#[derive(Clone, Debug)]
pub struct Model {
    pub nodes: Vec<Option<MNode>>,
}

/// the documented long-name character set (see C15): ASCII letters and digits, the listed punctuation,
/// space, and U+0080..U+FFFE (U+FFFF is the long-name padding value and cannot be stored)
pub fn char_accepted(c: char) -> bool {
    matches!(c,
        'a'..='z' | 'A'..='Z' | '0'..='9' | '\u{80}'..='\u{FFFE}'
        | '$' | '%' | '\'' | '-' | '_' | '@' | '~' | '`' | '!' | '(' | ')' | '{' | '}' | '.' | ' ' | '+' | ','
        | ';' | '=' | '[' | ']' | '^' | '#' | '&')
}

/// error kinds that apply to a candidate new name (empty = the name is acceptable)
pub fn name_errors(name: &str) -> Vec<EK> {
    let mut v = Vec::new();
    if name.is_empty() || name.len() > 255 {
        v.push(EK::InvalidFileNameLength);
    }
    if name.chars().any(|c| !char_accepted(c)) {
        v.push(EK::UnsupportedFileNameCharacter);
    }
    v
}

pub fn split_components(path: &str) -> Vec<&str> {
    let v: Vec<&str> = path.split('/').filter(|c| !c.is_empty()).collect();
    if v.is_empty() {
        vec![""]
    } else {
        v
    }
}

pub enum Resolved {
    /// parent directory and final component
    At(Nid, String),
    Err(EK),
}

impl Model {
    pub fn new() -> Model {
        let root = MNode {
            named_here: false,
            name: String::new(),
            alias: None,
            parent: 0,
            kind: MKind::Dir(Vec::new()),
            attr: 0x10,
            created: Ts::default(),
            modified: Ts::default(),
            accessed: Ts::default(),
            times_known: false,
        };
        Model { nodes: vec![Some(root)] }
    }
    pub fn node(&self, n: Nid) -> &MNode {
        self.nodes[n].as_ref().expect("live node")
    }
    pub fn node_mut(&mut self, n: Nid) -> &mut MNode {
        self.nodes[n].as_mut().expect("live node")
    }
    pub fn is_live(&self, n: Nid) -> bool {
        self.nodes.get(n).map_or(false, |x| x.is_some())
    }
    pub fn children(&self, d: Nid) -> &[Nid] {
        match &self.node(d).kind {
            MKind::Dir(c) => c,
            _ => &[],
        }
    }
    pub fn alias_display(&self, n: Nid) -> Option<String> {
        self.node(n).alias.map(|a| short_display(&a, 0).iter().map(|b| if *b < 0x80 { *b as char } else { '\u{FFFD}' }).collect())
    }
    /// case-insensitive match of a path component against the long name or the alias
    pub fn lookup(&self, dir: Nid, comp: &str) -> Option<Nid> {
        if comp.is_empty() {
            return None;
        }
        let f = fold(comp);
        for c in self.children(dir) {
            if fold(&self.node(*c).name) == f {
                return Some(*c);
            }
            if let Some(a) = self.alias_display(*c) {
                if fold(&a) == f {
                    return Some(*c);
                }
            }
        }
        None
    }
    pub fn resolve(&self, start: Nid, path: &str) -> Resolved {
        let comps = split_components(path);
        let mut dir = start;
        for comp in &comps[..comps.len() - 1] {
            match self.lookup(dir, comp) {
                None => return Resolved::Err(EK::NotFound),
                Some(n) => {
                    if self.node(n).is_dir() {
                        dir = n;
                    } else {
                        return Resolved::Err(EK::InvalidInput);
                    }
                }
            }
        }
        Resolved::At(dir, comps[comps.len() - 1].to_string())
    }
    pub fn add(&mut self, parent: Nid, name: &str, dir: bool, now: Ts) -> Nid {
        let n = MNode {
            name: name.to_string(),
            alias: None,
            parent,
            kind: if dir { MKind::Dir(Vec::new()) } else { MKind::File(Vec::new()) },
            attr: if dir { 0x10 } else { 0 },
            created: now.floor_10ms(),
            modified: now.floor_2s(),
            accessed: now.date_only(),
            times_known: true,
            named_here: true,
        };
        let id = self.nodes.len();
        self.nodes.push(Some(n));
        if let MKind::Dir(c) = &mut self.node_mut(parent).kind {
            c.push(id);
        }
        id
    }
    /// start from a foreign population (imggen's ground truth)
    pub fn import(&mut self, parent: Nid, nodes: &[TNode]) {
        for t in nodes {
            let n = self.add(parent, &t.name_string(), t.is_dir, Ts::default());
            {
                let m = self.node_mut(n);
                m.attr = t.attr;
                m.created = t.created;
                m.modified = t.modified;
                m.accessed = t.accessed;
                m.named_here = false;
            }
            if t.is_dir {
                self.import(n, &t.children);
            } else if let Some(d) = &t.data {
                *self.data_mut(n) = d.clone();
            }
        }
    }
    pub fn detach(&mut self, n: Nid) {
        let p = self.node(n).parent;
        if let MKind::Dir(c) = &mut self.node_mut(p).kind {
            c.retain(|x| *x != n);
        }
    }
    pub fn remove(&mut self, n: Nid) {
        self.detach(n);
        self.nodes[n] = None;
    }
    pub fn attach(&mut self, n: Nid, parent: Nid, name: &str) {
        self.node_mut(n).parent = parent;
        self.node_mut(n).name = name.to_string();
        self.node_mut(n).alias = None;
        self.node_mut(n).named_here = true;
        if let MKind::Dir(c) = &mut self.node_mut(parent).kind {
            c.push(n);
        }
    }
    pub fn is_ancestor_or_self(&self, anc: Nid, mut n: Nid) -> bool {
        loop {
            if n == anc {
                return true;
            }
            if n == 0 {
                return false;
            }
            n = self.node(n).parent;
        }
    }
    pub fn path_of(&self, mut n: Nid) -> String {
        let mut parts = Vec::new();
        while n != 0 {
            parts.push(self.node(n).name.clone());
            n = self.node(n).parent;
        }
        parts.reverse();
        format!("/{}", parts.join("/"))
    }
    pub fn data(&self, n: Nid) -> &Vec<u8> {
        match &self.node(n).kind {
            MKind::File(d) => d,
            _ => panic!("not a file"),
        }
    }
    pub fn data_mut(&mut self, n: Nid) -> &mut Vec<u8> {
        match &mut self.node_mut(n).kind {
            MKind::File(d) => d,
            _ => panic!("not a file"),
        }
    }
    pub fn live_count(&self) -> usize {
        self.nodes.iter().filter(|n| n.is_some()).count() - 1
    }

    /// model view of a directory as TNodes (dot entries included for non-root directories when `dots`)
    pub fn tnodes(&self, d: Nid, dots: bool) -> Vec<TNode> {
        let mut out = Vec::new();
        if dots && d != 0 {
            for nm in [".", ".."] {
                out.push(TNode {
                    name: nm.encode_utf16().collect(),
                    short: nm.as_bytes().to_vec(),
                    is_dir: true,
                    attr: 0x10,
                    size: 0,
                    created: Ts::default(),
                    modified: Ts::default(),
                    accessed: Ts::default(),
                    data: None,
                    children: Vec::new(),
                    has_long: false,
                });
            }
        }
        for c in self.children(d) {
            let n = self.node(*c);
            let (is_dir, data, children, size) = match &n.kind {
                MKind::File(b) => (false, Some(b.clone()), Vec::new(), b.len() as u64),
                MKind::Dir(_) => (true, None, self.tnodes(*c, dots), 0),
            };
            out.push(TNode {
                name: n.name.encode_utf16().collect(),
                short: n.alias.map(|a| short_display(&a, 0)).unwrap_or_default(),
                is_dir,
                attr: n.attr,
                size,
                created: n.created,
                modified: n.modified,
                accessed: n.accessed,
                data,
                children,
                has_long: true,
            });
        }
        out
    }

    /// A lookup may reach an entry through its alias, which a plain tree of long names does not have. That stays
    /// invisible to users of long names only as long as an alias the library makes up is either the name itself in
    /// upper case (the name was a legal 8.3 name already; a trailing dot is not stored) or carries a numeric tail,
    /// which no lossy conversion of another name can produce without a tail of its own. An alias that is neither
    /// makes two names that differ for the tree (here: by a character the conversion drops) collide.
    pub fn alias_outside_the_tree(&self) -> Option<String> {
        for (i, n) in self.nodes.iter().enumerate() {
            let Some(n) = n else { continue };
            if i == 0 || !n.named_here || n.alias.is_none() {
                continue;
            }
            let a = self.alias_display(i).unwrap();
            let up: String = n.name.trim_end_matches('.').chars().map(|c| c.to_ascii_uppercase()).collect();
            if a == up {
                continue;
            }
            let base = a.split('.').next().unwrap_or("");
            let digits = base.chars().rev().take_while(|c| c.is_ascii_digit()).count();
            let numbered = digits > 0 && base.len() > digits && base.as_bytes()[base.len() - digits - 1] == b'~';
            if !numbered {
                return Some(format!("{} got the alias {:?}: not its own name in upper case and not a numbered form, so a different name ({:?}) now reaches it", self.path_of(i), a, a));
            }
        }
        None
    }

    /// learn the aliases the library generated, from the independent decode of the raw image
    pub fn sync_aliases(&mut self, dec: &Decoded) {
        self.sync_dir(0, &dec.root);
    }
    fn sync_dir(&mut self, d: Nid, rd: &DirNode) {
        let kids: Vec<Nid> = self.children(d).to_vec();
        for k in kids {
            let name = self.node(k).name.clone();
            let units: Vec<u16> = name.encode_utf16().collect();
            if let Some(e) = rd.entries.iter().find(|e| !e.is_label() && !e.is_dot() && e.visible_units() == units) {
                self.node_mut(k).alias = Some(e.short);
                if self.node(k).is_dir() {
                    if let Some(c) = &e.child {
                        self.sync_dir(k, c);
                    }
                }
            }
        }
    }

    /// the refdec directory node that corresponds to model directory `d` (by exact names)
    pub fn find_refdec_dir<'a>(&self, dec: &'a Decoded, d: Nid) -> Option<&'a DirNode> {
        let mut chain = Vec::new();
        let mut n = d;
        while n != 0 {
            chain.push(n);
            n = self.node(n).parent;
        }
        chain.reverse();
        let mut rd = &dec.root;
        for n in chain {
            let units: Vec<u16> = self.node(n).name.encode_utf16().collect();
            let e = rd.entries.iter().find(|e| !e.is_label() && e.is_dir() && !e.is_dot() && e.visible_units() == units)?;
            rd = e.child.as_deref()?;
        }
        Some(rd)
    }
}
