//! Seeded runners (proptest TestRunner per worker thread), evidence accumulation, replay files,
//! known-findings protocol.

use proptest::strategy::{BoxedStrategy, Strategy};
use proptest::test_runner::{Config, RngAlgorithm, TestCaseError, TestError, TestRng, TestRunner};
use serde::{Deserialize, Serialize};
use serde_json::{json, Value};
use std::collections::{BTreeMap, HashSet};
use std::hash::{Hash, Hasher};
use std::sync::Mutex;
use std::time::Instant;

/// home of the verification tree: /verif, or $VERIF_HOME for background runs from a snapshot (vp run)
pub fn verif_dir() -> String {
    std::env::var("VERIF_HOME").unwrap_or_else(|_| "/verif".to_string())
}

/// where evidence and replay files go: /verif, or $VERIF_OUT (used when checks are run against mutated trees so
/// that committed evidence is not overwritten)
pub fn out_dir() -> String {
    std::env::var("VERIF_OUT").unwrap_or_else(|_| verif_dir())
}

#[derive(Clone, Copy, Debug, PartialEq, Eq)]
pub enum Tier {
    Quick,
    Thorough,
}

impl Tier {
    pub fn name(self) -> &'static str {
        match self {
            Tier::Quick => "quick",
            Tier::Thorough => "thorough",
        }
    }
    pub fn pick<T>(self, q: T, t: T) -> T {
        match self {
            Tier::Quick => q,
            Tier::Thorough => t,
        }
    }
}

pub fn hash64<T: Hash>(t: &T) -> u64 {
    let mut h = std::collections::hash_map::DefaultHasher::new();
    t.hash(&mut h);
    h.finish()
}
pub fn hash_str(s: &str) -> u64 {
    // FNV-1a, stable across runs and toolchains
    let mut h: u64 = 0xcbf29ce484222325;
    for b in s.as_bytes() {
        h ^= *b as u64;
        h = h.wrapping_mul(0x100000001b3);
    }
    h
}

pub fn splitmix(mut x: u64) -> u64 {
    x = x.wrapping_add(0x9E3779B97F4A7C15);
    let mut z = x;
    z = (z ^ (z >> 30)).wrapping_mul(0xBF58476D1CE4E5B9);
    z = (z ^ (z >> 27)).wrapping_mul(0x94D049BB133111EB);
    z ^ (z >> 31)
}

/// deterministic stream keyed by (seed, index); used only by enumerators that need "a sample of" a huge space
pub struct Mix(pub u64);
impl Mix {
    pub fn new(seed: u64, stream: u64) -> Mix {
        Mix(splitmix(seed ^ splitmix(stream)))
    }
    pub fn next(&mut self) -> u64 {
        self.0 = splitmix(self.0);
        self.0
    }
    pub fn below(&mut self, n: u64) -> u64 {
        if n == 0 {
            0
        } else {
            ((self.next() as u128 * n as u128) >> 64) as u64
        }
    }
}

/// what evaluating one generated case produced
#[derive(Clone, Debug, Default)]
pub struct CaseOut {
    pub nontrivial: bool,
    pub hash: u64,
    pub classes: BTreeMap<String, u64>,
    pub excluded_known: u64,
    pub violation: Option<String>,
    /// the case to store in the replay file when it differs from the generated input (e.g. the input plus the fault
    /// position the check enumerated on top of it)
    pub replay_case: Option<Value>,
}

#[derive(Clone, Debug)]
pub struct Failure {
    pub message: String,
    /// JSON of the minimal failing case (the replay file body)
    pub case: Value,
    pub kind: String,
}

#[derive(Default)]
pub struct Block {
    pub name: String,
    pub evaluations: u64,
    pub nontrivial: HashSet<u64>,
    pub classes: BTreeMap<String, u64>,
    pub samples: Vec<Value>,
    pub excluded_known: u64,
    pub exhaustive: bool,
    pub failure: Option<Failure>,
}

impl Block {
    pub fn new(name: &str) -> Block {
        Block { name: name.to_string(), ..Default::default() }
    }
    pub fn record(&mut self, out: &CaseOut, sample: impl FnOnce() -> Value) {
        self.evaluations += 1;
        for (k, v) in &out.classes {
            *self.classes.entry(k.clone()).or_insert(0) += v;
        }
        self.excluded_known += out.excluded_known;
        if out.nontrivial {
            let new = self.nontrivial.insert(out.hash);
            if new && self.samples.len() < 3 {
                self.samples.push(sample());
            }
        }
    }
    pub fn merge(&mut self, o: Block) {
        self.evaluations += o.evaluations;
        self.nontrivial.extend(o.nontrivial);
        for (k, v) in o.classes {
            *self.classes.entry(k).or_insert(0) += v;
        }
        for s in o.samples {
            if self.samples.len() < 4 {
                self.samples.push(s);
            }
        }
        self.excluded_known += o.excluded_known;
        if self.failure.is_none() {
            self.failure = o.failure;
        }
    }
}

pub fn n_threads() -> usize {
    let n = std::thread::available_parallelism().map(|n| n.get()).unwrap_or(4);
    std::env::var("VERIF_THREADS").ok().and_then(|s| s.parse().ok()).unwrap_or(n).clamp(1, 16)
}

fn proptest_config(cases: u32, shrink_iters: u32) -> Config {
    let mut c = Config::default();
    c.cases = cases;
    c.failure_persistence = None;
    c.max_shrink_iters = shrink_iters;
    c.max_shrink_time = 0;
    c.verbose = 0;
    c.max_global_rejects = 1_000_000;
    c.source_file = None;
    c.test_name = None;
    c.rng_algorithm = RngAlgorithm::ChaCha;
    c
}

fn rng_for(seed: u64, stream: u64) -> TestRng {
    let mut bytes = [0u8; 32];
    let mut m = Mix::new(seed, stream);
    for ch in bytes.chunks_mut(8) {
        ch.copy_from_slice(&m.next().to_le_bytes());
    }
    TestRng::from_seed(RngAlgorithm::ChaCha, &bytes)
}

/// Run `cases` generated cases of `strategy` across worker threads. `eval` must be a pure function of the case.
/// On a violation the case is shrunk by proptest and returned as the block's failure.
pub fn run_random<C, S, F>(name: &str, seed: u64, cases: u32, kind: &str, make_strategy: S, eval: F) -> Block
where
    C: std::fmt::Debug + Clone + Serialize + 'static,
    S: Fn() -> BoxedStrategy<C> + Sync,
    F: Fn(&C) -> CaseOut + Sync,
{
    let nt = n_threads().min(cases.max(1) as usize);
    let per = (cases as usize + nt - 1) / nt;
    let result = Mutex::new(Vec::<(usize, Block)>::new());
    let stream_base = hash_str(name);
    // set by the first worker that finds a violation: the others stop generating (they would each shrink a failure of
    // their own for minutes); which worker wins does not change the verdict, only which minimal case is reported
    let found = std::sync::atomic::AtomicBool::new(false);
    std::thread::scope(|sc| {
        for t in 0..nt {
            let make_strategy = &make_strategy;
            let eval = &eval;
            let result = &result;
            let found = &found;
            let kind = kind.to_string();
            let name = name.to_string();
            sc.spawn(move || {
                crate::session::install_quiet_panic_hook();
                let strategy = make_strategy();
                let n = per.min((cases as usize).saturating_sub(t * per));
                let mut block = Block::new(&name);
                if n == 0 {
                    result.lock().unwrap().push((t, block));
                    return;
                }
                let mut runner = TestRunner::new_with_rng(proptest_config(n as u32, 3000), rng_for(seed, stream_base.wrapping_add(t as u64)));
                let frozen = std::cell::Cell::new(false);
                let blk = std::cell::RefCell::new(&mut block);
                let r = runner.run(&strategy, |case| {
                    if !frozen.get() && found.load(std::sync::atomic::Ordering::Relaxed) {
                        return Ok(());
                    }
                    let out = eval(&case);
                    if !frozen.get() {
                        blk.borrow_mut().record(&out, || serde_json::to_value(&case).unwrap_or(Value::Null));
                    }
                    match out.violation {
                        Some(m) => {
                            frozen.set(true);
                            found.store(true, std::sync::atomic::Ordering::Relaxed);
                            Err(TestCaseError::fail(m))
                        }
                        None => Ok(()),
                    }
                });
                drop(blk);
                if let Err(e) = r {
                    match e {
                        TestError::Fail(_, case) => {
                            // message of the minimal case: re-evaluate
                            let out = eval(&case);
                            let msg = out.violation.unwrap_or_else(|| "violation did not reproduce on the shrunk case".to_string());
                            let stored = out.replay_case.unwrap_or_else(|| serde_json::to_value(&case).unwrap_or(Value::Null));
                            block.failure = Some(Failure { message: msg, case: stored, kind });
                        }
                        TestError::Abort(r) => {
                            block.failure = Some(Failure { message: format!("generator aborted: {}", r), case: Value::Null, kind: "abort".into() });
                        }
                    }
                }
                result.lock().unwrap().push((t, block));
            });
        }
    });
    let mut parts = result.into_inner().unwrap();
    parts.sort_by_key(|p| p.0);
    let mut total = Block::new(name);
    for (_, b) in parts {
        total.merge(b);
    }
    total
}

/// Run an explicit list of work items across threads (bounded-exhaustive enumerations).
/// `eval(index)` evaluates item `index`; items are split into contiguous ranges per worker.
pub fn run_indexed<F>(name: &str, n_items: u64, eval: F) -> Block
where
    F: Fn(u64, &mut Block) -> Option<Failure> + Sync,
{
    let nt = n_threads().min(n_items.max(1) as usize);
    let per = (n_items + nt as u64 - 1) / nt as u64;
    let result = Mutex::new(Vec::<(usize, Block)>::new());
    std::thread::scope(|sc| {
        for t in 0..nt {
            let eval = &eval;
            let result = &result;
            let name = name.to_string();
            sc.spawn(move || {
                crate::session::install_quiet_panic_hook();
                let mut block = Block::new(&name);
                let lo = t as u64 * per;
                let hi = (lo + per).min(n_items);
                let mut i = lo;
                while i < hi {
                    if let Some(f) = eval(i, &mut block) {
                        block.failure = Some(f);
                        break;
                    }
                    i += 1;
                }
                result.lock().unwrap().push((t, block));
            });
        }
    });
    let mut parts = result.into_inner().unwrap();
    parts.sort_by_key(|p| p.0);
    let mut total = Block::new(name);
    for (_, b) in parts {
        total.merge(b);
    }
    total
}

/// generic delta debugging over a vector: returns a 1-minimal sub-vector for which `fails` still holds
pub fn ddmin<T: Clone>(items: &[T], fails: &dyn Fn(&[T]) -> bool) -> Vec<T> {
    let mut cur: Vec<T> = items.to_vec();
    let mut n = 2usize;
    while cur.len() >= 2 {
        let chunk = (cur.len() + n - 1) / n;
        let mut reduced = false;
        let mut start = 0;
        while start < cur.len() {
            let end = (start + chunk).min(cur.len());
            let mut cand = cur[..start].to_vec();
            cand.extend_from_slice(&cur[end..]);
            if !cand.is_empty() && fails(&cand) {
                cur = cand;
                n = (n - 1).max(2);
                reduced = true;
                break;
            }
            start = end;
        }
        if !reduced {
            if n >= cur.len() {
                break;
            }
            n = (n * 2).min(cur.len());
        }
    }
    if cur.len() == 1 {
        return cur;
    }
    cur
}

// -------------------------------------------------------------------------------------------------
// known findings

#[derive(Clone, Debug, Serialize, Deserialize)]
pub struct KnownFinding {
    pub property: String,
    pub key: String,
    pub what: String,
    /// "known" or "fixed"
    pub status: String,
    #[serde(default)]
    pub commit: String,
    /// replay-format file (relative to /verif) that still exhibits the finding when the exclusion is off
    #[serde(default)]
    pub probe: String,
    /// substring of the violation message that identifies this finding
    #[serde(default)]
    pub signature: String,
}

pub fn load_known() -> Vec<KnownFinding> {
    let p = format!("{}/known_findings.json", verif_dir());
    match std::fs::read_to_string(&p) {
        Ok(s) => serde_json::from_str(&s).unwrap_or_default(),
        Err(_) => Vec::new(),
    }
}

pub fn known_active(id: &str, key: &str) -> bool {
    load_known().iter().any(|k| k.property == id && k.key == key && k.status == "known")
}

// -------------------------------------------------------------------------------------------------
// evidence + verdict

pub struct Report {
    pub id: String,
    pub tier: Tier,
    pub seed: u64,
    pub level: String,
    pub rule: String,
    pub assumptions: Vec<String>,
    pub blocks: Vec<Block>,
    pub extra: BTreeMap<String, Value>,
    pub start: Instant,
    pub known_lines: Vec<String>,
}

impl Report {
    pub fn new(id: &str, tier: Tier, seed: u64, level: &str, rule: &str) -> Report {
        Report {
            id: id.to_string(),
            tier,
            seed,
            level: level.to_string(),
            rule: rule.to_string(),
            assumptions: Vec::new(),
            blocks: Vec::new(),
            extra: BTreeMap::new(),
            start: Instant::now(),
            known_lines: Vec::new(),
        }
    }
    pub fn assume(&mut self, s: &str) {
        self.assumptions.push(s.to_string());
    }
    pub fn add(&mut self, b: Block) {
        self.blocks.push(b);
    }
    pub fn failed(&self) -> bool {
        self.blocks.iter().any(|b| b.failure.is_some())
    }

    /// write evidence, print verdict lines, return the process exit code
    pub fn finish(self) -> i32 {
        let mut evaluations = 0u64;
        let mut nontrivial: HashSet<u64> = HashSet::new();
        let mut classes: BTreeMap<String, u64> = BTreeMap::new();
        let mut samples: Vec<Value> = Vec::new();
        let mut excluded = 0u64;
        let mut blocks_json = Vec::new();
        let mut exhaustive_all = !self.blocks.is_empty();
        let mut any_exhaustive = false;
        for b in &self.blocks {
            evaluations += b.evaluations;
            nontrivial.extend(b.nontrivial.iter().copied());
            for (k, v) in &b.classes {
                *classes.entry(format!("{}:{}", b.name, k)).or_insert(0) += v;
            }
            for s in &b.samples {
                if samples.len() < 6 {
                    samples.push(json!({"block": b.name, "case": s}));
                }
            }
            excluded += b.excluded_known;
            exhaustive_all &= b.exhaustive;
            any_exhaustive |= b.exhaustive;
            blocks_json.push(json!({"name": b.name, "evaluations": b.evaluations, "distinct_nontrivial": b.nontrivial.len(), "exhaustive": b.exhaustive}));
        }
        let violations: Vec<&Failure> = self.blocks.iter().filter_map(|b| b.failure.as_ref()).collect();
        let mut coverage = serde_json::Map::new();
        coverage.insert("evaluations".into(), json!(evaluations));
        coverage.insert("distinct_nontrivial".into(), json!(nontrivial.len()));
        coverage.insert("rule".into(), json!(self.rule));
        coverage.insert("samples".into(), Value::Array(samples));
        coverage.insert("classes".into(), json!(classes));
        coverage.insert("blocks".into(), Value::Array(blocks_json));
        coverage.insert("excluded_known".into(), json!(excluded));
        coverage.insert("exhaustive".into(), json!(exhaustive_all));
        coverage.insert("some_blocks_exhaustive".into(), json!(any_exhaustive));
        for (k, v) in &self.extra {
            coverage.insert(k.clone(), v.clone());
        }
        let wall = self.start.elapsed().as_secs_f64();
        let ev = json!({
            "property_id": self.id,
            "tier": self.tier.name(),
            "seed": self.seed,
            "level": self.level,
            "coverage": Value::Object(coverage),
            "assumptions": self.assumptions,
            "wall_s": wall,
            "violations": violations.len(),
        });
        let dir = format!("{}/evidence", out_dir());
        let _ = std::fs::create_dir_all(&dir);
        let path = format!("{}/{}.json", dir, self.id);
        if let Err(e) = std::fs::write(&path, serde_json::to_string_pretty(&ev).unwrap()) {
            eprintln!("cannot write evidence {}: {}", path, e);
            return 2;
        }
        for l in &self.known_lines {
            println!("{}", l);
        }
        let mut code = 0;
        for f in violations {
            let body = json!({"property": self.id, "kind": f.kind, "message": f.message, "case": f.case, "seed": self.seed, "tier": self.tier.name()});
            let text = serde_json::to_string_pretty(&body).unwrap();
            let h = hash_str(&text);
            let rdir = format!("{}/replays", out_dir());
            let _ = std::fs::create_dir_all(&rdir);
            let rpath = format!("{}/{}-{:016x}.json", rdir, self.id, h);
            let _ = std::fs::write(&rpath, text);
            println!("VIOLATION property={} replay={}", self.id, rpath);
            println!("  {}", f.message);
            code = 1;
        }
        println!(
            "{} {} seed={} evaluations={} distinct_nontrivial={} excluded_known={} wall={:.1}s -> {}",
            self.id,
            self.tier.name(),
            self.seed,
            evaluations,
            nontrivial.len(),
            excluded,
            wall,
            if code == 0 { "held" } else { "VIOLATED" }
        );
        code
    }
}

pub fn load_replay(path: &str) -> Result<Value, String> {
    let s = std::fs::read_to_string(path).map_err(|e| format!("cannot read {}: {}", path, e))?;
    serde_json::from_str(&s).map_err(|e| format!("cannot parse {}: {}", path, e))
}

/// committed regression cases of a property: /verif/regress/<ID>/*.json
pub fn regress_files(id: &str) -> Vec<String> {
    let dir = format!("{}/regress/{}", verif_dir(), id);
    let mut v: Vec<String> = match std::fs::read_dir(&dir) {
        Ok(rd) => rd.filter_map(|e| e.ok()).map(|e| e.path().to_string_lossy().to_string()).filter(|p| p.ends_with(".json")).collect(),
        Err(_) => Vec::new(),
    };
    v.sort();
    v
}

pub fn boxed<C: std::fmt::Debug + 'static>(s: impl Strategy<Value = C> + 'static) -> BoxedStrategy<C> {
    s.boxed()
}

// -------------------------------------------------------------------------------------------------
// coverage-guided campaigns (libFuzzer through cargo-fuzz), thorough tier only

/// Build and run a libFuzzer target from the committed seed corpus for `runs` executions in total, split over
/// several processes. The semantic oracle lives inside the target (fuzzglue); a violation is reported through the
/// replay file the target wrote. Crashes without a VIOLATION line (OOM, tool failure) make the block inconclusive.
pub fn fuzz_block(target: &str, runs: u64, seed: u64, max_len: u32) -> Block {
    let mut b = Block::new(&format!("libfuzzer_{}", target));
    let fuzz_dir = format!("{}/fuzz", verif_dir());
    let rustflags = "--cfg rafalh_rust_fatfs_verif -A unexpected_cfgs";
    let build = std::process::Command::new("cargo")
        .args(["+nightly", "fuzz", "build", "-s", "none", "--fuzz-dir", &fuzz_dir, target])
        .env("RUSTFLAGS", rustflags)
        .env("CARGO_NET_OFFLINE", "true")
        .current_dir(verif_dir())
        .output();
    match build {
        Ok(o) if o.status.success() => {}
        Ok(o) => {
            eprintln!("fuzz build of {} failed:\n{}", target, String::from_utf8_lossy(&o.stderr).lines().rev().take(15).collect::<Vec<_>>().join("\n"));
            b.classes.insert("fuzz_build_failed".into(), 1);
            return b;
        }
        Err(e) => {
            eprintln!("cannot run cargo fuzz: {}", e);
            b.classes.insert("fuzz_build_failed".into(), 1);
            return b;
        }
    }
    let procs = n_threads().min(8).max(1) as u64;
    let per = (runs + procs - 1) / procs;
    let scratch = std::env::temp_dir().join(format!("fv-fuzz-{}-{}", target, std::process::id()));
    let _ = std::fs::remove_dir_all(&scratch);
    let mut children = Vec::new();
    for p in 0..procs {
        let corpus = scratch.join(format!("corpus{}", p));
        let _ = std::fs::create_dir_all(&corpus);
        let seed_dir = format!("{}/corpus/{}", fuzz_dir, target);
        if let Ok(rd) = std::fs::read_dir(&seed_dir) {
            for e in rd.flatten() {
                let _ = std::fs::copy(e.path(), corpus.join(e.file_name()));
            }
        }
        let stats = scratch.join(format!("stats{}.json", p));
        let artifacts = scratch.join(format!("artifacts{}/", p));
        let _ = std::fs::create_dir_all(&artifacts);
        let child = std::process::Command::new("cargo")
            .args(["+nightly", "fuzz", "run", "-s", "none", "--fuzz-dir", &fuzz_dir, target, corpus.to_str().unwrap(), "--"])
            .arg(format!("-runs={}", per))
            .arg(format!("-seed={}", (seed.wrapping_mul(131).wrapping_add(p + 1)) % 4_000_000_000 + 1))
            .arg(format!("-max_len={}", max_len))
            .arg("-len_control=0")
            .arg("-rss_limit_mb=4096")
            .arg(format!("-artifact_prefix={}", artifacts.to_str().unwrap()))
            .env("RUSTFLAGS", rustflags)
            .env("CARGO_NET_OFFLINE", "true")
            .env("VERIF_FUZZ_STATS", &stats)
            .current_dir(verif_dir())
            .stdout(std::process::Stdio::null())
            .stderr(std::fs::File::create(scratch.join(format!("stderr{}.log", p))).map(std::process::Stdio::from).unwrap_or_else(|_| std::process::Stdio::null()))
            .spawn();
        if let Ok(c) = child {
            children.push((c, stats, scratch.join(format!("stderr{}.log", p))));
        }
    }
    for (mut c, stats, errfile) in children {
        // stderr goes to a file: a pipe would fill up and block the children that are not being drained yet
        let status = match c.wait() {
            Ok(s) => s,
            Err(_) => continue,
        };
        let err = std::fs::read_to_string(&errfile).unwrap_or_default();
        let mut done = 0u64;
        for l in err.lines() {
            if let Some(rest) = l.strip_prefix("Done ") {
                done = rest.split(' ').next().and_then(|x| x.parse().ok()).unwrap_or(0);
            }
        }
        if let Ok(s) = std::fs::read_to_string(&stats) {
            if let Ok(v) = serde_json::from_str::<Value>(&s) {
                let execs = v["execs"].as_u64().unwrap_or(0);
                if done == 0 {
                    done = execs;
                }
                // distinct non-trivial cases are counted inside the target (hash set); add pseudo-hashes per process
                let nt = v["distinct_nontrivial"].as_u64().unwrap_or(0);
                let base = hash_str(&stats.to_string_lossy());
                for i in 0..nt {
                    b.nontrivial.insert(base.wrapping_add(i));
                }
                if let Some(m) = v["classes"].as_object() {
                    for (k, x) in m {
                        *b.classes.entry(k.clone()).or_insert(0) += x.as_u64().unwrap_or(0);
                    }
                }
            }
        }
        b.evaluations += done;
        if !status.success() {
            if let Some(line) = err.lines().find(|l| l.starts_with("VIOLATION property=")) {
                let path = line.split("replay=").nth(1).unwrap_or("").trim().to_string();
                if let Ok(v) = load_replay(&path) {
                    if b.failure.is_none() {
                        b.failure = Some(Failure { message: v["message"].as_str().unwrap_or("violation found by libFuzzer").to_string(), case: v["case"].clone(), kind: v["kind"].as_str().unwrap_or("fuzz").to_string() });
                    }
                    // the generic report writes its own replay file; remove the target's copy
                    let _ = std::fs::remove_file(&path);
                }
            } else {
                *b.classes.entry("fuzz_process_ended_abnormally_without_violation".into()).or_insert(0) += 1;
                let tail: Vec<&str> = err.lines().rev().take(4).collect();
                eprintln!("libFuzzer {} ended abnormally (inconclusive, not a violation): {:?}", target, tail);
            }
        }
    }
    if b.samples.is_empty() {
        b.samples.push(json!({"target": target, "runs_requested": runs, "seed_corpus": format!("{}/corpus/{}", fuzz_dir, target)}));
    }
    let _ = std::fs::remove_dir_all(&scratch);
    b
}
