//! MemDev: instrumented in-memory block device for the harness.
//!
//! * dense (`Vec<u8>`) or page-sparse storage, so 2 TiB volumes cost only the pages touched
//! * logs every call (kind, offset, length) and, optionally, the data of every write (for crash images)
//! * fails the k-th call once with a tagged error (fault injection)
//! * enforces a deterministic call budget (non-termination oracle); overrun panics with a marker payload
//! * tracks flush epochs
//!
//! The device is a cheap handle (`Rc<RefCell<..>>`): the harness keeps one clone, the library owns another.

use std::cell::RefCell;
use std::collections::HashMap;
use std::rc::Rc;

pub const PAGE: usize = 4096;

#[derive(Clone)]
pub enum Store {
    Dense(Vec<u8>),
    Sparse { pages: HashMap<u64, Box<[u8; PAGE]>>, len: u64, fill: u8 },
}

impl Store {
    pub fn dense(len: usize, fill: u8) -> Store {
        Store::Dense(vec![fill; len])
    }
    pub fn sparse(len: u64, fill: u8) -> Store {
        Store::Sparse { pages: HashMap::new(), len, fill }
    }
    pub fn len(&self) -> u64 {
        match self {
            Store::Dense(v) => v.len() as u64,
            Store::Sparse { len, .. } => *len,
        }
    }
    pub fn read_at(&self, off: u64, buf: &mut [u8]) {
        match self {
            Store::Dense(v) => {
                let l = v.len() as u64;
                for (i, b) in buf.iter_mut().enumerate() {
                    let o = off + i as u64;
                    *b = if o < l { v[o as usize] } else { 0 };
                }
            }
            Store::Sparse { pages, len, fill } => {
                let mut i = 0usize;
                while i < buf.len() {
                    let o = off + i as u64;
                    let pg = o / PAGE as u64;
                    let po = (o % PAGE as u64) as usize;
                    let n = (PAGE - po).min(buf.len() - i);
                    match pages.get(&pg) {
                        Some(p) => buf[i..i + n].copy_from_slice(&p[po..po + n]),
                        None => {
                            for b in &mut buf[i..i + n] {
                                *b = *fill;
                            }
                        }
                    }
                    i += n;
                }
                // bytes past the end read as zero
                if off + buf.len() as u64 > *len {
                    let start = if off >= *len { 0 } else { (*len - off) as usize };
                    for b in &mut buf[start..] {
                        *b = 0;
                    }
                }
            }
        }
    }
    pub fn write_at(&mut self, off: u64, data: &[u8]) {
        match self {
            Store::Dense(v) => {
                let o = off as usize;
                v[o..o + data.len()].copy_from_slice(data);
            }
            Store::Sparse { pages, fill, .. } => {
                let mut i = 0usize;
                while i < data.len() {
                    let o = off + i as u64;
                    let pg = o / PAGE as u64;
                    let po = (o % PAGE as u64) as usize;
                    let n = (PAGE - po).min(data.len() - i);
                    let f = *fill;
                    // writing the fill value over an untouched page changes nothing: keep it unmaterialised
                    if !pages.contains_key(&pg) && data[i..i + n].iter().all(|b| *b == f) {
                        i += n;
                        continue;
                    }
                    let p = pages.entry(pg).or_insert_with(|| Box::new([f; PAGE]));
                    p[po..po + n].copy_from_slice(&data[i..i + n]);
                    i += n;
                }
            }
        }
    }
    pub fn dense_bytes(&self) -> Option<&[u8]> {
        match self {
            Store::Dense(v) => Some(v),
            _ => None,
        }
    }
    pub fn pages_touched(&self) -> usize {
        match self {
            Store::Dense(v) => v.len() / PAGE,
            Store::Sparse { pages, .. } => pages.len(),
        }
    }
}

impl crate::refdec::Img for Store {
    fn len(&self) -> u64 {
        Store::len(self)
    }
    fn read_at(&self, off: u64, buf: &mut [u8]) {
        Store::read_at(self, off, buf)
    }
    fn zero_sparse_pages(&self, off: u64, len: u64) -> Option<(u64, Vec<u64>)> {
        match self {
            Store::Sparse { pages, fill: 0, .. } => {
                let lo = off / PAGE as u64;
                let hi = (off + len + PAGE as u64 - 1) / PAGE as u64;
                let mut v: Vec<u64> = pages.keys().filter(|p| **p >= lo && **p < hi).map(|p| *p * PAGE as u64).collect();
                v.sort();
                Some((PAGE as u64, v))
            }
            _ => None,
        }
    }
}

#[derive(Clone, Copy, Debug, PartialEq, Eq)]
pub enum Kind {
    Read,
    Write,
    Seek,
    Flush,
}

#[derive(Clone, Copy, Debug)]
pub struct Call {
    pub kind: Kind,
    pub off: u64,
    pub len: u64,
    pub in_drop: bool,
}

#[derive(Clone, Debug, PartialEq, Eq)]
pub enum DevErr {
    /// injected fault carrying its tag
    Injected(u64),
    /// injected "interrupted, try again" condition: the one error the storage traits document as retryable
    Interrupted,
    UnexpectedEof,
    WriteZero,
}

impl fatfs::IoError for DevErr {
    fn is_interrupted(&self) -> bool {
        matches!(self, DevErr::Interrupted)
    }
    fn new_unexpected_eof_error() -> Self {
        DevErr::UnexpectedEof
    }
    fn new_write_zero_error() -> Self {
        DevErr::WriteZero
    }
}

pub const BUDGET_PANIC: &str = "VERIF_DEVICE_CALL_BUDGET_EXCEEDED";
pub const BUDGET_TAG: u64 = 0xB0D6_E7ED;

pub struct DevInner {
    pub store: Store,
    pub pos: u64,
    pub calls: u64,
    pub budget: u64,
    pub budget_hit: bool,
    /// fail the call with this 1-based index (counted over all call kinds)
    pub fail_at: Option<u64>,
    pub fail_tag: u64,
    pub fired: Option<Call>,
    /// restrict fault injection to a kind (None = any)
    pub fail_kind: Option<Kind>,
    /// the injected error is DevErr::Interrupted instead of DevErr::Injected
    pub fail_interrupted: bool,
    /// the fault repeats on this many device calls after the first one (a storage that reports "interrupted" several
    /// times in a row before the call goes through)
    pub fail_burst: u64,
    pub log_calls: bool,
    pub log: Vec<Call>,
    /// ordered list of (offset, data) of every write, for crash images
    pub log_data: bool,
    pub wlog: Vec<(u64, Vec<u8>)>,
    /// parallel to wlog: this transfer took less than the caller offered because the device cut it short (short_io)
    pub wshort: Vec<bool>,
    /// number of writes in wlog at each flush call
    pub flush_marks: Vec<usize>,
    pub n_reads: u64,
    pub n_writes: u64,
    pub n_flushes: u64,
    /// highest byte offset (exclusive) touched by a read / write
    pub hi_read: u64,
    pub hi_write: u64,
    /// an access tried to go past the device end
    pub past_end: bool,
    /// accept writes but do not store them (mount-only experiments on a shared base image)
    pub discard_writes: bool,
    /// non-zero: the device transfers fewer bytes than asked for in about half of its read / write calls (always at
    /// least one), as the storage traits allow; the value seeds the deterministic sequence of transfer sizes
    pub short_io: u64,
}

#[derive(Clone)]
pub struct MemDev(pub Rc<RefCell<DevInner>>);

fn in_drop() -> bool {
    #[cfg(rafalh_rust_fatfs_verif)]
    {
        fatfs::verif_drop_depth() > 0
    }
    #[cfg(not(rafalh_rust_fatfs_verif))]
    {
        false
    }
}

impl MemDev {
    pub fn new(store: Store) -> MemDev {
        MemDev(Rc::new(RefCell::new(DevInner {
            store,
            pos: 0,
            calls: 0,
            budget: u64::MAX,
            budget_hit: false,
            fail_at: None,
            fail_tag: 0,
            fired: None,
            fail_kind: None,
            fail_interrupted: false,
            fail_burst: 0,
            log_calls: false,
            log: Vec::new(),
            log_data: false,
            wlog: Vec::new(),
            wshort: Vec::new(),
            flush_marks: Vec::new(),
            n_reads: 0,
            n_writes: 0,
            n_flushes: 0,
            hi_read: 0,
            hi_write: 0,
            past_end: false,
            discard_writes: false,
            short_io: 0,
        })))
    }
    pub fn dense(bytes: Vec<u8>) -> MemDev {
        MemDev::new(Store::Dense(bytes))
    }
    pub fn handle(&self) -> MemDev {
        MemDev(self.0.clone())
    }
    pub fn snapshot(&self) -> Store {
        self.0.borrow().store.clone()
    }
    pub fn bytes(&self) -> Vec<u8> {
        match &self.0.borrow().store {
            Store::Dense(v) => v.clone(),
            s => {
                let mut v = vec![0u8; s.len() as usize];
                s.read_at(0, &mut v);
                v
            }
        }
    }
    pub fn with<R>(&self, f: impl FnOnce(&mut DevInner) -> R) -> R {
        f(&mut self.0.borrow_mut())
    }
    pub fn with_store<R>(&self, f: impl FnOnce(&Store) -> R) -> R {
        f(&self.0.borrow().store)
    }
    pub fn calls(&self) -> u64 {
        self.0.borrow().calls
    }
    pub fn reset_pos(&self) {
        self.0.borrow_mut().pos = 0;
    }
    /// take the storage out (used when a session is abandoned by mem::forget, so nothing big leaks)
    pub fn take_store(&self) -> Store {
        std::mem::replace(&mut self.0.borrow_mut().store, Store::Dense(Vec::new()))
    }
    pub fn clear_logs(&self) {
        let mut d = self.0.borrow_mut();
        d.log.clear();
        d.wlog.clear();
        d.wshort.clear();
        d.flush_marks.clear();
    }
}

impl DevInner {
    /// transfer size of this call under the short-transfer mode
    fn shorten(&mut self, n: usize) -> usize {
        if self.short_io == 0 || n <= 1 {
            return n;
        }
        self.short_io = self.short_io.wrapping_mul(6364136223846793005).wrapping_add(1442695040888963407) | 1;
        let r = self.short_io >> 33;
        match r & 3 {
            0 | 1 => n,
            2 => 1 + (r >> 2) as usize % (n - 1),
            _ => ((r >> 2) as usize % 3 + 1).min(n - 1),
        }
    }
    /// common prologue of every device call: count, budget, fault injection
    fn enter(&mut self, kind: Kind, off: u64, len: u64) -> Result<(), DevErr> {
        self.calls += 1;
        let c = Call { kind, off, len, in_drop: in_drop() };
        if self.calls > self.budget {
            // Non-termination oracle. Unwinding out of a device call is unsafe for the process (the library holds its
            // RefCell borrowed, and its destructors would panic a second time), so the overrun is first reported as
            // an error on every further call; only a loop that ignores even that is broken by a panic.
            self.budget_hit = true;
            if self.calls > self.budget.saturating_add(200_000) {
                std::panic::panic_any(BUDGET_PANIC);
            }
            return Err(DevErr::Injected(BUDGET_TAG));
        }
        if self.log_calls {
            self.log.push(c);
        }
        if let Some(k) = self.fail_at {
            if self.fired.is_some() && self.fail_burst > 0 && self.calls > k && self.calls <= k + self.fail_burst {
                return Err(if self.fail_interrupted { DevErr::Interrupted } else { DevErr::Injected(self.fail_tag) });
            }
            if self.calls == k && self.fired.is_none() && self.fail_kind.map_or(true, |fk| fk == kind) {
                self.fired = Some(c);
                if self.fail_interrupted {
                    return Err(DevErr::Interrupted);
                }
                return Err(DevErr::Injected(self.fail_tag));
            }
        }
        Ok(())
    }
}

impl fatfs::IoBase for MemDev {
    type Error = DevErr;
}

impl fatfs::Read for MemDev {
    fn read(&mut self, buf: &mut [u8]) -> Result<usize, DevErr> {
        let mut d = self.0.borrow_mut();
        let pos = d.pos;
        d.enter(Kind::Read, pos, buf.len() as u64)?;
        d.n_reads += 1;
        let len = d.store.len();
        if pos >= len {
            if !buf.is_empty() {
                d.past_end = true;
            }
            return Ok(0);
        }
        let n = (buf.len() as u64).min(len - pos) as usize;
        if n < buf.len() {
            d.past_end = true;
        }
        let n = d.shorten(n);
        d.store.read_at(pos, &mut buf[..n]);
        d.pos += n as u64;
        if d.pos > d.hi_read {
            d.hi_read = d.pos;
        }
        Ok(n)
    }
}

impl fatfs::Write for MemDev {
    fn write(&mut self, buf: &[u8]) -> Result<usize, DevErr> {
        let mut d = self.0.borrow_mut();
        let pos = d.pos;
        d.enter(Kind::Write, pos, buf.len() as u64)?;
        d.n_writes += 1;
        let len = d.store.len();
        if pos >= len {
            if !buf.is_empty() {
                d.past_end = true;
            }
            return Ok(0);
        }
        let n = (buf.len() as u64).min(len - pos) as usize;
        if n < buf.len() {
            d.past_end = true;
        }
        let offered = n;
        let n = d.shorten(n);
        if !d.discard_writes {
            d.store.write_at(pos, &buf[..n]);
        }
        if d.log_data {
            d.wlog.push((pos, buf[..n].to_vec()));
            d.wshort.push(n < offered);
        }
        d.pos += n as u64;
        if d.pos > d.hi_write {
            d.hi_write = d.pos;
        }
        Ok(n)
    }
    fn flush(&mut self) -> Result<(), DevErr> {
        let mut d = self.0.borrow_mut();
        let pos = d.pos;
        d.enter(Kind::Flush, pos, 0)?;
        d.n_flushes += 1;
        let m = d.wlog.len();
        d.flush_marks.push(m);
        Ok(())
    }
}

impl fatfs::Seek for MemDev {
    fn seek(&mut self, pos: fatfs::SeekFrom) -> Result<u64, DevErr> {
        let mut d = self.0.borrow_mut();
        let cur = d.pos;
        let len = d.store.len() as i128;
        let np: i128 = match pos {
            fatfs::SeekFrom::Start(x) => x as i128,
            fatfs::SeekFrom::Current(x) => cur as i128 + x as i128,
            fatfs::SeekFrom::End(x) => len + x as i128,
        };
        // a seek is logged with the position it starts from (`off`) and the position it asks for (`len`)
        d.enter(Kind::Seek, cur, np.clamp(0, u64::MAX as i128) as u64)?;
        if np < 0 {
            // like std::io::Cursor: seeking before 0 is an error; the library never does it on valid input
            d.past_end = true;
            return Err(DevErr::UnexpectedEof);
        }
        d.pos = np as u64;
        Ok(d.pos)
    }
}
