//! Canonical tree representation used to compare the three views of a volume:
//! the library's own listing, refdec's decode of the raw bytes, and the reference model.

use crate::refdec::{Decoded, DirNode};

#[derive(Clone, Copy, Debug, PartialEq, Eq, Hash, Default, serde::Serialize, serde::Deserialize)]
pub struct Ts {
    pub y: u16,
    pub mo: u16,
    pub d: u16,
    pub h: u16,
    pub mi: u16,
    pub s: u16,
    pub ms: u16,
}

fn is_leap(y: u64) -> bool {
    (y % 4 == 0 && y % 100 != 0) || y % 400 == 0
}
fn days_in_month(y: u64, m: u64) -> u64 {
    match m {
        1 | 3 | 5 | 7 | 8 | 10 | 12 => 31,
        4 | 6 | 9 | 11 => 30,
        _ => {
            if is_leap(y) {
                29
            } else {
                28
            }
        }
    }
}

impl Ts {
    /// 2107-12-31 23:59:59.990 in ms since 1980-01-01
    pub const MAX_MS: u64 = 4_039_286_399_990;

    /// milliseconds since 1980-01-01 00:00:00 -> calendar fields
    pub fn from_ms(ms: u64) -> Ts {
        let mut days = ms / 86_400_000;
        let rem = ms % 86_400_000;
        let mut y = 1980u64;
        loop {
            let n = if is_leap(y) { 366 } else { 365 };
            if days >= n {
                days -= n;
                y += 1;
            } else {
                break;
            }
        }
        let mut m = 1u64;
        loop {
            let n = days_in_month(y, m);
            if days >= n {
                days -= n;
                m += 1;
            } else {
                break;
            }
        }
        Ts {
            y: y as u16,
            mo: m as u16,
            d: days as u16 + 1,
            h: (rem / 3_600_000) as u16,
            mi: (rem / 60_000 % 60) as u16,
            s: (rem / 1000 % 60) as u16,
            ms: (rem % 1000) as u16,
        }
    }
    /// decode the on-disk words (own transcription of the spec's bit layout)
    pub fn from_words(date: u16, time: u16, cs: u8) -> Ts {
        Ts {
            y: 1980 + (date >> 9),
            mo: (date >> 5) & 0x0F,
            d: date & 0x1F,
            h: time >> 11,
            mi: (time >> 5) & 0x3F,
            s: (time & 0x1F) * 2 + (cs as u16) / 100,
            ms: ((cs as u16) % 100) * 10,
        }
    }
    pub fn date_only(self) -> Ts {
        Ts { h: 0, mi: 0, s: 0, ms: 0, ..self }
    }
    /// floor to 10 ms (creation time resolution)
    pub fn floor_10ms(self) -> Ts {
        Ts { ms: self.ms / 10 * 10, ..self }
    }
    /// floor to 2 s (modification time resolution)
    pub fn floor_2s(self) -> Ts {
        Ts { s: self.s / 2 * 2, ms: 0, ..self }
    }
}

#[derive(Clone, Debug)]
pub struct TNode {
    pub name: Vec<u16>,
    pub short: Vec<u8>,
    pub is_dir: bool,
    pub attr: u8,
    pub size: u64,
    pub created: Ts,
    pub modified: Ts,
    pub accessed: Ts,
    pub data: Option<Vec<u8>>,
    pub children: Vec<TNode>,
    pub has_long: bool,
}

impl TNode {
    pub fn name_string(&self) -> String {
        String::from_utf16_lossy(&self.name)
    }
}

#[derive(Clone, Copy, Debug)]
pub struct CmpMask {
    pub short: bool,
    pub attr: bool,
    pub size: bool,
    pub times: bool,
    pub data: bool,
    pub dots: bool,
    /// compare the timestamps of directories too (a directory that had entries written into it is restamped)
    pub dir_times: bool,
}

impl CmpMask {
    pub const ALL: CmpMask = CmpMask { short: true, attr: true, size: true, times: true, data: true, dots: true, dir_times: true };
    pub const NAMES_DATA: CmpMask = CmpMask { short: false, attr: false, size: true, times: false, data: true, dots: false, dir_times: false };
}

fn sort_key(n: &TNode) -> (Vec<u16>, Vec<u8>) {
    (n.name.clone(), n.short.clone())
}

fn is_dot(n: &TNode) -> bool {
    n.short == b"." || n.short == b".."
}

/// compare two listings as multisets; returns the first difference
pub fn compare(a_name: &str, a: &[TNode], b_name: &str, b: &[TNode], mask: CmpMask, path: &str) -> Result<(), String> {
    let mut av: Vec<&TNode> = a.iter().filter(|n| mask.dots || !is_dot(n)).collect();
    let mut bv: Vec<&TNode> = b.iter().filter(|n| mask.dots || !is_dot(n)).collect();
    av.sort_by_key(|n| sort_key(n));
    bv.sort_by_key(|n| sort_key(n));
    let names = |v: &Vec<&TNode>| v.iter().map(|n| n.name_string()).collect::<Vec<_>>();
    if av.len() != bv.len() || av.iter().zip(bv.iter()).any(|(x, y)| x.name != y.name) {
        return Err(format!("{}: {} lists {:?} but {} lists {:?}", path, a_name, names(&av), b_name, names(&bv)));
    }
    for (x, y) in av.iter().zip(bv.iter()) {
        let p = if path == "/" { format!("/{}", x.name_string()) } else { format!("{}/{}", path, x.name_string()) };
        if x.is_dir != y.is_dir {
            return Err(format!("{}: kind differs ({} dir={}, {} dir={})", p, a_name, x.is_dir, b_name, y.is_dir));
        }
        if mask.short && x.short != y.short {
            return Err(format!("{}: short name differs ({} {:?}, {} {:?})", p, a_name, String::from_utf8_lossy(&x.short), b_name, String::from_utf8_lossy(&y.short)));
        }
        if mask.attr && x.attr != y.attr {
            return Err(format!("{}: attributes differ ({} {:#x}, {} {:#x})", p, a_name, x.attr, b_name, y.attr));
        }
        if mask.size && !x.is_dir && x.size != y.size {
            return Err(format!("{}: size differs ({} {}, {} {})", p, a_name, x.size, b_name, y.size));
        }
        if mask.times && !is_dot(x) && (mask.dir_times || !x.is_dir) {
            if x.created != y.created {
                return Err(format!("{}: created differs ({} {:?}, {} {:?})", p, a_name, x.created, b_name, y.created));
            }
            if x.modified != y.modified {
                return Err(format!("{}: modified differs ({} {:?}, {} {:?})", p, a_name, x.modified, b_name, y.modified));
            }
            if x.accessed != y.accessed {
                return Err(format!("{}: accessed differs ({} {:?}, {} {:?})", p, a_name, x.accessed, b_name, y.accessed));
            }
        }
        if mask.data && !x.is_dir {
            if let (Some(dx), Some(dy)) = (&x.data, &y.data) {
                if dx != dy {
                    let pos = dx.iter().zip(dy.iter()).position(|(p, q)| p != q).unwrap_or(dx.len().min(dy.len()));
                    return Err(format!("{}: content differs at byte {} ({} len {}, {} len {})", p, pos, a_name, dx.len(), b_name, dy.len()));
                }
            }
        }
        if x.is_dir && !is_dot(x) {
            compare(a_name, &x.children, b_name, &y.children, mask, &p)?;
        }
    }
    Ok(())
}

pub fn refdec_nodes(d: &DirNode) -> Vec<TNode> {
    let mut out = Vec::new();
    for e in &d.entries {
        if e.is_label() && !e.is_dir() {
            continue;
        }
        let children = match &e.child {
            Some(c) => refdec_nodes(c),
            None => Vec::new(),
        };
        out.push(TNode {
            name: e.visible_units(),
            short: e.short_display(),
            is_dir: e.is_dir(),
            attr: e.attr,
            size: e.size as u64,
            created: Ts::from_words(e.cdate, e.ctime, e.ctime_cs),
            modified: Ts::from_words(e.mdate, e.mtime, 0),
            accessed: Ts::from_words(e.adate, 0, 0),
            data: e.data.clone(),
            children,
            has_long: e.long.is_some(),
        });
    }
    out
}

pub fn refdec_tree(d: &Decoded) -> Vec<TNode> {
    refdec_nodes(&d.root)
}

pub fn count_nodes(v: &[TNode]) -> usize {
    v.iter().map(|n| 1 + count_nodes(&n.children)).sum()
}
