//! Volume configurations and base images. Bases are made by the library's own `format_volume` (what it can
//! produce) and post-processed through raw edits (pre-marked BAD clusters to shrink free space, initial status
//! byte, FS-info count known/unknown). `imggen` provides everything the library's formatter cannot produce.

use crate::dev::{MemDev, Store};
use crate::imggen::{self, GenGeom};
use crate::refdec::{self, Geom};
use serde::{Deserialize, Serialize};
use std::cell::RefCell;
use std::collections::HashMap;

#[derive(Clone, Debug, Serialize, Deserialize, PartialEq, Eq, Hash)]
pub struct VolCfg {
    pub fat: u8,
    pub bps: u16,
    pub spc: u8,
    pub fats: u8,
    pub root_entries: u16,
    pub total_sectors: u32,
    /// keep only this many clusters free at the start of the data area (None = leave all free)
    pub free_lo: Option<u16>,
    /// additionally keep this many clusters free at the very end of the data area
    pub free_hi: u16,
    /// FAT32: store "unknown" in the FS-info free count
    pub fsinfo_unknown: bool,
    /// canary sectors after the declared end of the volume
    pub pad_sectors: u32,
    /// initial status byte (bit 0 dirty, bit 1 I/O error)
    pub status0: u8,
    pub access_date: bool,
    /// Some: the empty volume is built by imggen::mkfs with this geometry instead of the library's formatter
    #[serde(default)]
    pub gen: Option<GenGeom>,
    /// large sparse volumes (C20): FS-info hint placement and pre-filled table windows
    #[serde(default)]
    pub large: Option<LargeCfg>,
    /// non-zero: the device makes short transfers (seed of the size sequence); see dev::DevInner::short_io
    #[serde(default)]
    pub short_io: u8,
    /// Some: before the history starts the volume is populated by imggen (foreign layout: fragmented and backwards
    /// chains, deleted slots, short-name-only entries with case flags, labels, attributes ...); the reference model
    /// starts from the builder's ground truth
    #[serde(default)]
    pub populate: Option<Populate>,
    /// FAT32: the FS-info free count is this value if that is lower than the table's count (a stale hint, which the
    /// specification allows)
    #[serde(default)]
    pub stale_free: Option<u32>,
    /// library-formatted volumes: the formatter is not told the sector count, it measures the storage (which then has
    /// no canary sectors behind the volume: pad_sectors must be 0)
    #[serde(default)]
    pub measure: bool,
}

#[derive(Clone, Debug, Serialize, Deserialize, PartialEq, Eq, Hash)]
pub struct Populate {
    pub entropy: Vec<u32>,
    /// bits of imggen::Freedoms::for_histories
    pub freedoms: u16,
    pub objects: u8,
}

#[derive(Clone, Debug, Serialize, Deserialize, PartialEq, Eq, Hash)]
pub struct LargeCfg {
    /// FS-info next-free hint = last cluster + hint_rel (None: unknown)
    pub hint_rel: Option<i32>,
    /// this many trailing clusters are pre-marked BAD ...
    pub tail_window: u32,
    /// ... except those at these distances from the last cluster (0 = the last cluster)
    pub tail_free: Vec<u32>,
    /// clusters 3..3+head_used are pre-marked BAD, so an allocation that wraps lands behind them
    pub head_used: u32,
    /// the clusters whose byte offset equals, modulo 2^32, the offset of one of the last 64 clusters are pre-marked
    /// BAD: a write whose offset arithmetic wraps at 32 bits then lands in a cluster that is neither free nor the
    /// writer's (C11), instead of in free space where only the content checks would notice
    #[serde(default)]
    pub alias_bad: bool,
    /// imggen-built volumes: the root directory starts in the k-th cluster from the end (0 = cluster 2)
    #[serde(default)]
    pub root_at_end: u8,
}

pub const CANARY: u8 = 0xC7;
pub const GARBAGE: u8 = 0xD1;

pub struct Preset {
    pub fat: u8,
    pub bps: u16,
    pub spc: u8,
    pub fats: u8,
    pub root_entries: u16,
    pub total_sectors: u32,
}

pub const PRESETS: &[Preset] = &[
    // FAT12
    Preset { fat: 12, bps: 512, spc: 1, fats: 2, root_entries: 16, total_sectors: 100 },
    Preset { fat: 12, bps: 512, spc: 1, fats: 1, root_entries: 32, total_sectors: 400 },
    Preset { fat: 12, bps: 512, spc: 4, fats: 2, root_entries: 112, total_sectors: 2880 },
    Preset { fat: 12, bps: 1024, spc: 1, fats: 2, root_entries: 32, total_sectors: 300 },
    Preset { fat: 12, bps: 4096, spc: 1, fats: 2, root_entries: 128, total_sectors: 200 },
    Preset { fat: 12, bps: 512, spc: 2, fats: 2, root_entries: 40, total_sectors: 700 },
    Preset { fat: 12, bps: 512, spc: 128, fats: 2, root_entries: 512, total_sectors: 128 * 300 },
    Preset { fat: 12, bps: 2048, spc: 8, fats: 1, root_entries: 64, total_sectors: 8 * 500 },
    // FAT16
    Preset { fat: 16, bps: 512, spc: 1, fats: 2, root_entries: 512, total_sectors: 5000 },
    Preset { fat: 16, bps: 512, spc: 2, fats: 1, root_entries: 100, total_sectors: 10000 },
    Preset { fat: 16, bps: 2048, spc: 1, fats: 2, root_entries: 64, total_sectors: 4400 },
    Preset { fat: 16, bps: 512, spc: 8, fats: 2, root_entries: 32, total_sectors: 8 * 4300 },
    // FAT32
    Preset { fat: 32, bps: 512, spc: 1, fats: 2, root_entries: 0, total_sectors: 67000 },
    Preset { fat: 32, bps: 512, spc: 8, fats: 1, root_entries: 0, total_sectors: 8 * 66000 },
    Preset { fat: 32, bps: 4096, spc: 1, fats: 2, root_entries: 0, total_sectors: 66000 },
    // FAT16 with 65536 sectors or more: the sector count lives in the 32-bit field, the 16-bit one is zero
    Preset { fat: 16, bps: 512, spc: 16, fats: 2, root_entries: 512, total_sectors: 70000 },
];

/// (base preset, number of FATs, geometry)
pub const GEN_PRESETS: &[(usize, u8, fn() -> GenGeom)] = &[
    (0, 3, || GenGeom { rsvd: 4, ..Default::default() }),
    (1, 1, || GenGeom { rsvd: 2, label: true, eoc: 0, ..Default::default() }),
    (3, 2, || GenGeom { rsvd: 3, pad_garbage: true, eoc: 3, ..Default::default() }),
    (8, 3, || GenGeom { rsvd: 8, pad_garbage: true, ..Default::default() }),
    (9, 2, || GenGeom { rsvd: 1, eoc: 0, media: 0xF0, ..Default::default() }),
    (12, 2, || GenGeom { rsvd: 32, mirror_off: Some(0), root_cluster: 5, high_nibbles: true, ..Default::default() }),
    (12, 3, || GenGeom { rsvd: 9, mirror_off: Some(1), fsinfo: 3, bkboot: 0, ..Default::default() }),
    (12, 3, || GenGeom { rsvd: 32, high_nibbles: true, eoc: 0, pad_garbage: true, ..Default::default() }),
    (13, 2, || GenGeom { rsvd: 16, mirror_off: Some(1), root_cluster: 100, label: true, ..Default::default() }),
    (14, 1, || GenGeom { rsvd: 8, fsinfo: 1, bkboot: 6, high_nibbles: true, ..Default::default() }),
    // mirroring on with a stray value in the active-copy nibble; table entry 1 with the shutdown / error bits cleared
    (12, 3, || GenGeom { rsvd: 32, stray_active: 1, high_nibbles: true, ..Default::default() }),
    (13, 2, || GenGeom { rsvd: 12, stray_active: 2, fat1: 1, ..Default::default() }),
    (8, 2, || GenGeom { rsvd: 2, fat1: 1, ..Default::default() }),
    (12, 2, || GenGeom { rsvd: 32, fat1: 3, ..Default::default() }),
    (9, 1, || GenGeom { rsvd: 4, fat1: 2, eoc: 1, ..Default::default() }),
    // boot sectors without the 0x29 extended boot signature (older formatters): the status byte is still there
    (1, 2, || GenGeom { rsvd: 1, ext_sig: 0x28, ..Default::default() }),
    (8, 2, || GenGeom { rsvd: 4, ext_sig: 0x28, ..Default::default() }),
    (12, 2, || GenGeom { rsvd: 32, ext_sig: 0x01, ..Default::default() }),
    // FAT32 root directory in the very last / second-to-last cluster
    (12, 2, || GenGeom { rsvd: 32, root_from_end: 1, ..Default::default() }),
    (13, 1, || GenGeom { rsvd: 16, root_from_end: 2, high_nibbles: true, ..Default::default() }),
    // FAT16 whose sector count needs the 32-bit field
    (15, 2, || GenGeom { rsvd: 4, ..Default::default() }),
    // reserved bits of the FAT32 extended flags set (mirroring on; mirroring off with copy 1 active)
    (12, 2, || GenGeom { rsvd: 32, ext_reserved: 0x0008, ..Default::default() }),
    (12, 3, || GenGeom { rsvd: 32, ext_reserved: 0x0815, stray_active: 2, ..Default::default() }),
    (13, 2, || GenGeom { rsvd: 16, ext_reserved: 0x07FF, mirror_off: Some(1), ..Default::default() }),
];

/// (FAT width, cluster count, sectors per cluster)
pub const BOUNDARY_CLUSTERS: &[(u8, u32, u8)] = &[(12, 4084, 1), (12, 4083, 2), (16, 4085, 1), (16, 4086, 4), (16, 65524, 1), (16, 65523, 2), (32, 65525, 1), (32, 65526, 1)];

impl VolCfg {
    pub fn from_preset(i: usize) -> VolCfg {
        let p = &PRESETS[i % PRESETS.len()];
        VolCfg {
            fat: p.fat,
            bps: p.bps,
            spc: p.spc,
            fats: p.fats,
            root_entries: p.root_entries,
            total_sectors: p.total_sectors,
            free_lo: None,
            free_hi: 0,
            fsinfo_unknown: false,
            pad_sectors: 8,
            status0: 0,
            access_date: false,
            gen: None,
            large: None,
            short_io: 0,
            populate: None,
            stale_free: None,
            measure: false,
        }
    }
    /// generated-geometry variants (what the library's formatter cannot produce)
    pub fn from_gen_preset(i: usize) -> VolCfg {
        let n = GEN_PRESETS.len();
        let (pi, nf, gg) = &GEN_PRESETS[i % n];
        let mut v = VolCfg::from_preset(*pi);
        v.fats = *nf;
        v.gen = Some(gg());
        if v.fat == 32 {
            // room for a third FAT and a large reserved area without dropping below 65525 clusters
            v.total_sectors += 3000 * v.spc as u32;
        }
        v
    }
    /// volumes whose cluster count sits exactly on (or next to) a FAT-width limit, built by imggen::mkfs: the largest
    /// FAT12 (4084 clusters, cluster numbers up to 0xFF5), the smallest and largest FAT16, the smallest FAT32
    pub fn boundary(i: usize) -> VolCfg {
        let (fat, clusters, spc) = BOUNDARY_CLUSTERS[i % BOUNDARY_CLUSTERS.len()];
        let (rsvd, root_entries, nfats) = if fat == 32 { (32u64, 0u16, 2u64) } else { (1u64, 32u16, 2u64) };
        let bps = 512u64;
        let root_secs = (root_entries as u64 * 32 + bps - 1) / bps;
        let mut total = rsvd + root_secs + clusters as u64 * spc as u64;
        loop {
            match imggen::fat_size(fat, bps, spc as u64, rsvd, nfats, root_secs, total) {
                Some((_, c)) if c >= clusters as u64 => break,
                _ => total += 1,
            }
        }
        VolCfg {
            fat,
            bps: bps as u16,
            spc,
            fats: nfats as u8,
            root_entries,
            total_sectors: total as u32,
            free_lo: None,
            free_hi: 0,
            fsinfo_unknown: false,
            pad_sectors: 8,
            status0: 0,
            access_date: false,
            gen: Some(GenGeom { rsvd: rsvd as u16, ..Default::default() }),
            large: None,
            short_io: 0,
            populate: None,
            stale_free: None,
            measure: false,
        }
    }
    pub fn cluster_size(&self) -> u32 {
        self.bps as u32 * self.spc as u32
    }
    fn base_key(&self) -> VolCfg {
        // status byte and access-date option do not affect the cached base
        VolCfg { status0: 0, access_date: false, short_io: 0, populate: None, ..self.clone() }
    }
}

thread_local! {
    static BASES: RefCell<HashMap<VolCfg, Store>> = RefCell::new(HashMap::new());
}

pub fn fat_type_of(f: u8) -> fatfs::FatType {
    match f {
        12 => fatfs::FatType::Fat12,
        16 => fatfs::FatType::Fat16,
        _ => fatfs::FatType::Fat32,
    }
}

/// write a FAT entry into every copy (raw edit, harness side)
pub fn set_fat_all(store: &mut Store, g: &Geom, n: u32, val: u32) {
    for copy in 0..g.nfats {
        set_fat(store, g, copy, n, val);
    }
}

pub fn set_fat(store: &mut Store, g: &Geom, copy: u64, n: u32, val: u32) {
    let base = g.fat_off(copy);
    match g.width {
        12 => {
            let o = base + n as u64 + n as u64 / 2;
            let mut b = [0u8; 2];
            store.read_at(o, &mut b);
            let w = u16::from_le_bytes(b);
            let nw = if n & 1 == 0 { (w & 0xF000) | (val as u16 & 0x0FFF) } else { (w & 0x000F) | ((val as u16 & 0x0FFF) << 4) };
            store.write_at(o, &nw.to_le_bytes());
        }
        16 => store.write_at(base + 2 * n as u64, &(val as u16).to_le_bytes()),
        _ => {
            let o = base + 4 * n as u64;
            let mut b = [0u8; 4];
            store.read_at(o, &mut b);
            let old = u32::from_le_bytes(b);
            let nv = (old & 0xF000_0000) | (val & 0x0FFF_FFFF);
            store.write_at(o, &nv.to_le_bytes());
        }
    }
}

fn build_base(cfg: &VolCfg) -> Result<Store, String> {
    let vol_bytes = cfg.total_sectors as u64 * cfg.bps as u64;
    let dev_bytes = vol_bytes + cfg.pad_sectors as u64 * cfg.bps as u64;
    let mut store = if let Some(gg) = &cfg.gen {
        imggen::mkfs(&imggen::MkfsParams { fat: cfg.fat, bps: cfg.bps, spc: cfg.spc, nfats: cfg.fats, root_entries: cfg.root_entries, total_sectors: cfg.total_sectors, pad_sectors: cfg.pad_sectors, gg: gg.clone(), zero_fill: cfg.large.is_some() })
            .map_err(|e| format!("imggen::mkfs failed for {:?}: {}", cfg, e))?
    } else {
        let fill = if cfg.large.is_some() { 0 } else { GARBAGE };
        let store = if dev_bytes <= (4 << 20) { Store::dense(dev_bytes as usize, fill) } else { Store::sparse(dev_bytes, fill) };
        let mut dev = MemDev::new(store);
        let mut opts = fatfs::FormatVolumeOptions::new()
            .bytes_per_sector(cfg.bps)
            .bytes_per_cluster(cfg.cluster_size())
            .fat_type(fat_type_of(cfg.fat))
            .fats(cfg.fats);
        if !(cfg.measure && cfg.pad_sectors == 0) {
            opts = opts.total_sectors(cfg.total_sectors);
        }
        if cfg.fat != 32 {
            opts = opts.max_root_dir_entries(cfg.root_entries);
        }
        fatfs::format_volume(&mut dev, opts).map_err(|e| format!("format_volume failed for {:?}: {:?}", cfg, e))?;
        dev.take_store()
    };
    // canary after the declared end
    let canary = vec![CANARY; (cfg.pad_sectors as u64 * cfg.bps as u64) as usize];
    if !canary.is_empty() {
        store.write_at(vol_bytes, &canary);
    }
    let g = Geom::parse(&store).map_err(|e| format!("refdec rejects the formatted base {:?}: {}", cfg, e))?;
    if g.width != cfg.fat {
        return Err(format!("base {:?} has width {}", cfg, g.width));
    }
    if let Some(lo) = cfg.free_lo {
        let maxc = g.max_cluster();
        let first_bad = if g.width == 32 { 3 + lo as u32 } else { 2 + lo as u32 };
        let last_bad = maxc.saturating_sub(cfg.free_hi as u32);
        let bad = g.bad_mark();
        let mut c = first_bad;
        while c <= last_bad {
            if !(g.width == 32 && c == g.raw.root_clus) {
                set_fat_all(&mut store, &g, c, bad);
            }
            c += 1;
        }
    }
    if let Some(l) = &cfg.large {
        let maxc = g.max_cluster();
        let bad = g.bad_mark();
        for k in 0..l.tail_window.min(maxc - 3) {
            if !l.tail_free.contains(&k) && !(g.width == 32 && maxc - k == g.raw.root_clus) {
                set_fat_all(&mut store, &g, maxc - k, bad);
            }
        }
        if l.alias_bad {
            let wrap = (1u64 << 32) / g.cluster_size();
            for k in 0..64u32.min(maxc - 3) {
                let t = (maxc - k) as u64;
                let alias = ((t - 2) % wrap + 2) as u32;
                if alias as u64 != t && alias > 2 && !(g.width == 32 && alias == g.raw.root_clus) {
                    set_fat_all(&mut store, &g, alias, bad);
                }
            }
        }
        for c in 3..(3 + l.head_used).min(maxc) {
            if !(g.width == 32 && c == g.raw.root_clus) {
                set_fat_all(&mut store, &g, c, bad);
            }
        }
        if g.width == 32 {
            let hint: u32 = match l.hint_rel {
                None => 0xFFFF_FFFF,
                Some(r) => (maxc as i64 + r as i64) as u32,
            };
            store.write_at(g.fsinfo_off() + 492, &hint.to_le_bytes());
        }
    }
    if g.width == 32 {
        let o = g.fsinfo_off();
        let free = g.count_free(&store) as u32;
        let v = if cfg.fsinfo_unknown {
            0xFFFF_FFFFu32
        } else if let Some(d) = cfg.stale_free {
            free.min(d)
        } else {
            free
        };
        store.write_at(o + 488, &v.to_le_bytes());
    }
    Ok(store)
}

/// a fresh device holding the configured volume
pub fn make_device(cfg: &VolCfg) -> Result<MemDev, String> {
    let key = cfg.base_key();
    let cached = BASES.with(|b| b.borrow().get(&key).cloned());
    let mut store = match cached {
        Some(s) => s,
        None => {
            let s = build_base(&key)?;
            BASES.with(|b| {
                let mut m = b.borrow_mut();
                if m.len() > 400 {
                    m.clear();
                }
                m.insert(key, s.clone());
            });
            s
        }
    };
    if cfg.status0 != 0 {
        let raw = refdec::RawBpb::read(&store);
        store.write_at(raw.status_off(), &[cfg.status0 & 3]);
    }
    let dev = MemDev::new(store);
    if cfg.short_io != 0 {
        dev.with(|d| d.short_io = 0x9E37_79B9_7F4A_7C15u64.wrapping_mul(cfg.short_io as u64) | 1);
    }
    Ok(dev)
}

pub fn self_test() -> Result<(), String> {
    for i in 0..PRESETS.len() {
        let cfg = VolCfg::from_preset(i);
        let dev = make_device(&cfg)?;
        let st = dev.snapshot();
        let d = refdec::decode(&st, refdec::DecodeOpts::default())?;
        if !d.findings.is_empty() {
            return Err(format!("preset {}: fresh volume has findings {:?}", i, d.findings));
        }
        let _ = st.len();
    }
    for i in 0..GEN_PRESETS.len() + BOUNDARY_CLUSTERS.len() {
        for tiny in [false, true] {
            let mut cfg = if i < GEN_PRESETS.len() { VolCfg::from_gen_preset(i) } else { VolCfg::boundary(i - GEN_PRESETS.len()) };
            if i >= GEN_PRESETS.len() {
                let want = BOUNDARY_CLUSTERS[i - GEN_PRESETS.len()].1 as u64;
                let g = Geom::parse(&make_device(&cfg)?.snapshot())?;
                if g.clusters != want {
                    return Err(format!("boundary volume {} has {} clusters, wanted {}", i - GEN_PRESETS.len(), g.clusters, want));
                }
            }
            if tiny {
                cfg.free_lo = Some(6);
                cfg.free_hi = 2;
            }
            let dev = make_device(&cfg)?;
            let st = dev.snapshot();
            let d = refdec::decode(&st, refdec::DecodeOpts::default())?;
            if !d.findings.is_empty() {
                return Err(format!("gen preset {}: fresh volume has findings {:?}", i, d.findings));
            }
            // the library must mount it and agree on the geometry
            let clock = crate::session::Clock::new(0);
            let s = crate::session::Session::mount(&dev, &clock, &crate::session::MountOpts::default()).map_err(|e| format!("gen preset {}: library refuses to mount: {:?}", i, e))?;
            let stats = s.fs().stats().map_err(|e| format!("gen preset {}: stats: {:?}", i, e))?;
            if stats.total_clusters() as u64 != d.geom.clusters || stats.free_clusters() as u64 != d.free {
                return Err(format!("gen preset {}: library sees {}/{} clusters, refdec {}/{}", i, stats.free_clusters(), stats.total_clusters(), d.free, d.geom.clusters));
            }
            drop(s);
        }
    }
    Ok(())
}


/// the device of `cfg` with its foreign population applied (if any) and the builder's ground truth
pub fn make_populated(cfg: &VolCfg) -> Result<(MemDev, Option<imggen::Truth>), String> {
    let dev = make_device(cfg)?;
    let Some(p) = &cfg.populate else { return Ok((dev, None)) };
    let mut st = dev.take_store();
    match imggen::populate(&mut st, &p.entropy, &imggen::Freedoms::for_histories(p.freedoms), 2 + (p.objects % 14) as usize) {
        Ok(t) => {
            dev.with(|d| d.store = st);
            Ok((dev, Some(t)))
        }
        // the builder gave up half way (no room ...): start from the unpopulated volume
        Err(_) => Ok((make_device(cfg)?, None)),
    }
}

/// paths (files and directories) of the population, for generators that want to act on what is there
pub fn populated_paths(cfg: &VolCfg) -> Vec<String> {
    fn walk(v: &[crate::tree::TNode], prefix: &str, out: &mut Vec<String>) {
        for n in v {
            let p = if prefix.is_empty() { n.name_string() } else { format!("{}/{}", prefix, n.name_string()) };
            out.push(p.clone());
            walk(&n.children, &p, out);
        }
    }
    let mut out = Vec::new();
    if let Ok((dev, Some(t))) = make_populated(cfg) {
        walk(&t.root, "", &mut out);
        let _ = dev.take_store();
    }
    out
}
