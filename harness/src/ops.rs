//! Operation histories: the Op alphabet, and the interpreter that runs each op on the library and on the
//! reference model in lock-step and evaluates the oracles selected by the property under check.

use crate::dev::{Kind, MemDev, Store};
use crate::model::{name_errors, Model, Nid, Resolved};
use crate::refdec::{self, Decoded, DirNode, Fk, Geom};
use crate::session::{self, ek, guard, Caught, Clock, FErr, MountOpts, Session, EK, NSLOTS};
use crate::tree::{self, CmpMask, Ts};
use crate::vol::{self, VolCfg};
use serde::{Deserialize, Serialize};
use std::collections::BTreeMap;

#[derive(Clone, Debug, Serialize, Deserialize, PartialEq)]
pub enum Op {
    CreateFile { via: u8, path: String, keep: u8 },
    CreateDir { via: u8, path: String, keep: u8 },
    OpenFile { via: u8, path: String, keep: u8 },
    OpenDir { via: u8, path: String, keep: u8 },
    List { via: u8 },
    Remove { via: u8, path: String },
    Rename { via: u8, src: String, dvia: u8, dst: String },
    Read { h: u8, len: u32 },
    Write { h: u8, len: u32, seed: u8 },
    Seek { h: u8, whence: u8, off: i64 },
    Truncate { h: u8 },
    Flush { h: u8 },
    SetTimes { h: u8, which: u8, ms: u64 },
    CloseFile { h: u8 },
    CloseDir { d: u8 },
    Stats,
    Status,
    Labels,
    Extents { h: u8 },
    Remount { how: u8 },
    Tick { ms: u32 },
    /// a write during which the (k+1)-th device call fails once; if the library reports the error the caller seeks
    /// back to where the write began and writes the same bytes again - after that the file has to be what one
    /// successful write would have made it
    WriteRetry {
        h: u8,
        len: u32,
        seed: u8,
        k: u16,
        #[serde(default)]
        interrupted: bool,
    },
    /// the handle in the slot is replaced by a clone of itself (File::clone) and the original is dropped: the work goes
    /// on through a handle the application made itself
    CloneSwap {
        h: u8,
    },
    /// a flush during which the (k+1)-th device call fails once; if the library reports the error the caller flushes
    /// again - a flush that then returns success has to have done everything the first one was asked for
    FlushRetry {
        h: u8,
        k: u16,
        #[serde(default)]
        interrupted: bool,
    },
    /// transient storage fault: the (k+1)-th device call from now fails once with an I/O error; the model-based and
    /// raw-image judgements are suspended for the next `hold` operations (the faulted call may have been cut short at
    /// any point) and resume after them
    FaultNext {
        k: u16,
        hold: u8,
        /// the error is the retryable "interrupted" condition (the library's transfer loops must retry it; whatever does
        /// not retry must report it)
        #[serde(default)]
        interrupted: bool,
        /// the fault repeats on this many further device calls in a row
        #[serde(default)]
        burst: u8,
    },
}

#[derive(Clone, Copy, Debug, PartialEq, Eq, Hash, PartialOrd, Ord, Serialize, Deserialize)]
pub enum Aspect {
    Panic,
    Budget,
    Outcome,
    Tree,
    File,
    Fsck,
    Remount,
    Stats,
    FatCopies,
    Regions,
    Dirty,
    NoWrite,
    Times,
    Large,
    Harness,
}

#[derive(Clone, Debug)]
pub struct Violation {
    pub aspect: Aspect,
    pub step: usize,
    pub msg: String,
}

#[derive(Clone, Debug, Default)]
pub struct Known {
    /// D6: renaming a directory into its own subtree
    pub dst_inside_src: bool,
    /// orphan long-name slots / leaked cluster when an entry creation runs out of space mid-way
    pub partial_create_nospace: bool,
}

#[derive(Clone, Debug)]
pub struct RunCfg {
    pub flush_each: bool,
    pub aspects: Vec<Aspect>,
    pub cmp_lib_every: bool,
    pub stats_each: bool,
    pub fatcopies: bool,
    pub regions: bool,
    /// C20: every cluster an operation allocates is the first free one at or after the next-free hint, wrapping from
    /// the last cluster to cluster 2 (needs `regions`: the decode before the operation)
    pub placement: bool,
    pub dirty: bool,
    pub times: bool,
    pub known: Known,
    /// fsck finding kinds that count as violations
    pub fsck_kinds: Vec<Fk>,
    pub budget_per_op: u64,
    /// C04 checkpoints at every Remount op and at the end
    pub checkpoint: bool,
    /// mount with FsOptions::strict(false)
    pub lenient_mount: bool,
    /// a second handle may be opened on a file whose existing handles are clean (flushed); those then stay idle - no
    /// call goes through them any more, they are only dropped (nothing forbids opening a file twice; an idle clean
    /// handle has nothing to write back)
    pub idle_second_handle: bool,
}

pub const ALL_FSCK: &[Fk] = &[
    Fk::FatRange,
    Fk::Cycle,
    Fk::CrossLink,
    Fk::Lost,
    Fk::SizeChain,
    Fk::DotEntries,
    Fk::AfterEnd,
    Fk::LfnRun,
    Fk::Orphan,
    Fk::DupShort,
    Fk::DupLong,
    Fk::DirSize,
    Fk::BadShortName,
    Fk::Reserved,
    Fk::Geometry,
    Fk::Depth,
];

impl RunCfg {
    pub fn new(aspects: &[Aspect]) -> RunCfg {
        RunCfg {
            flush_each: true,
            aspects: aspects.to_vec(),
            cmp_lib_every: false,
            stats_each: false,
            fatcopies: false,
            regions: false,
            placement: false,
            dirty: false,
            times: false,
            known: Known::default(),
            fsck_kinds: ALL_FSCK.to_vec(),
            budget_per_op: 2_000_000,
            checkpoint: false,
            lenient_mount: false,
            idle_second_handle: false,
        }
    }
    pub fn wants(&self, a: Aspect) -> bool {
        self.aspects.contains(&a)
    }
}

#[derive(Clone, Debug, Default)]
pub struct Trace {
    /// class counters for the evidence histogram
    pub classes: BTreeMap<&'static str, u64>,
    pub ops_run: u64,
    pub ops_skipped: u64,
    pub excluded_known: u64,
    pub desync: bool,
    pub aborted: Option<String>,
}

impl Trace {
    pub fn hit(&mut self, k: &'static str) {
        *self.classes.entry(k).or_insert(0) += 1;
    }
    pub fn has(&self, k: &str) -> bool {
        self.classes.get(k).copied().unwrap_or(0) > 0
    }
    pub fn n(&self, k: &str) -> u64 {
        self.classes.get(k).copied().unwrap_or(0)
    }
}

#[derive(Clone, Copy, Debug, PartialEq, Eq)]
enum Hint {
    /// Some(n): searches start at cluster n; None: at cluster 2
    Known(Option<u32>),
    Unknown,
}

#[derive(Clone, Debug)]
struct MFile {
    node: Nid,
    pos: u64,
    dirty: bool,
    /// creation time set explicitly through this handle (part of the entry its flush hands to the storage)
    set_created: Option<Ts>,
    /// another handle was opened on the file after this one had been flushed: only dropped from now on
    idle: bool,
}

pub struct Run<'a> {
    pub cfg: &'a RunCfg,
    pub vol: VolCfg,
    pub dev: MemDev,
    pub clock: Clock,
    pub sess: Option<Session>,
    pub model: Model,
    files: Vec<Option<MFile>>,
    dirs: Vec<Option<Nid>>,
    pub geom: Geom,
    pub trace: Trace,
    pub step: usize,
    /// snapshot of the image at mount time (C10 inactive copies, C12 change detection)
    pub mount_image: Option<Store>,
    pub status_at_mount: u8,
    last_dec: Option<Decoded>,
    pub pattern_salt: u8,
    /// stats() succeeded at least once since the last mount
    stats_queried: bool,
    /// FS-info (free count, next free) as found at mount time
    fsinfo_at_mount: (u32, u32),
    /// model of the library's in-memory next-free hint
    alloc_hint: Hint,
    /// C13: the current session is read-only; any device write is judged
    pub ro_mode: bool,
    ro_fsinfo_unusable: bool,
    /// C14: flush points under observation
    pub crash: bool,
    pub base_image: Option<Store>,
    /// sector 0 as it was before the first mount (regions: only the status byte of it may ever change)
    boot_at_start: Vec<u8>,
    pub flush_events: Vec<FlushEvent>,
    /// operations left during which judgement is suspended after Op::FaultNext
    pub fault_hold: u32,
    /// a library call of the current operation returned an error (any kind)
    pub lib_err: bool,
    /// op_write is running as the caller's retry of a write that failed with an injected fault
    pub retrying_write: bool,
    /// C13: set the I/O-error status bit before the read-only session mounts
    pub ro_set_io_error_bit: bool,
    /// C13: an odd but tolerable value patched into the FAT32 boot sector before the read-only session (1: FS-info
    /// sector field 0, 2: backup boot sector field 0, 3: FS-info trail signature zeroed); a refused mount ends the case
    pub ro_odd_bpb: u8,
}

/// a point at which flushing or dropping a handle returned: the file must survive any later power cut
#[derive(Clone, Debug)]
pub struct FlushEvent {
    pub node: Nid,
    pub path: String,
    pub data: Vec<u8>,
    /// number of device writes issued when the flush returned
    pub at: usize,
    /// a device flush was issued after the last of those writes
    pub barrier: bool,
    /// number of device writes issued when the guarantee was suspended (None = still valid)
    pub until: Option<usize>,
    pub step: usize,
    /// creation time set explicitly through the flushed handle, if any
    pub created: Option<Ts>,
}

pub fn pattern(seed: u8, off: u64) -> u8 {
    ((off as u32).wrapping_mul(2654435761) >> 24) as u8 ^ seed.wrapping_mul(151) ^ (off >> 9) as u8
}

type VResult<T> = Result<T, Violation>;

impl<'a> Run<'a> {
    pub fn new(cfg: &'a RunCfg, vol: &VolCfg) -> Result<Run<'a>, String> {
        let (dev, truth) = vol::make_populated(vol)?;
        let geom = dev.with_store(|s| Geom::parse(s))?;
        let clock = Clock::new(1_000_000_000_000 + 777);
        let mut r = Run {
            cfg,
            vol: vol.clone(),
            dev,
            clock,
            sess: None,
            model: Model::new(),
            files: (0..NSLOTS).map(|_| None).collect(),
            dirs: (0..NSLOTS).map(|_| None).collect(),
            geom,
            trace: Trace::default(),
            step: 0,
            mount_image: None,
            fault_hold: 0,
            lib_err: false,
            retrying_write: false,
            ro_set_io_error_bit: false,
            ro_odd_bpb: 0,
            status_at_mount: vol.status0 & 3,
            last_dec: None,
            pattern_salt: 0,
            stats_queried: false,
            fsinfo_at_mount: (0, 0),
            alloc_hint: Hint::Unknown,
            ro_mode: false,
            ro_fsinfo_unusable: false,
            crash: false,
            base_image: None,
            boot_at_start: Vec::new(),
            flush_events: Vec::new(),
        };
        if let Some(t) = &truth {
            r.model.import(0, &t.root);
            r.trace.hit("foreign_population");
        }
        if r.cfg.regions {
            r.boot_at_start = r.dev.with_store(|s| refdec::rdv(s, 0, 512));
        }
        r.mount().map_err(|v| v.msg)?;
        r.last_dec = r.dev.with_store(|s| refdec::decode(s, refdec::DecodeOpts::default())).ok();
        if truth.is_some() {
            if let Some(dec) = &r.last_dec {
                r.model.sync_aliases(dec);
            }
        }
        Ok(r)
    }

    /// C14: start recording every device write with its data, on top of a snapshot of the current image
    pub fn enable_crash_observation(&mut self) {
        self.crash = true;
        self.base_image = Some(self.dev.snapshot());
        self.dev.with(|d| {
            d.log_data = true;
            d.wlog.clear();
            d.wshort.clear();
            d.flush_marks.clear();
        });
    }

    pub fn viol(&self, aspect: Aspect, msg: String) -> Violation {
        Violation { aspect, step: self.step, msg }
    }

    fn mount(&mut self) -> VResult<()> {
        let mo = MountOpts { access_date: self.vol.access_date, strict: !self.cfg.lenient_mount };
        if self.cfg.fatcopies || self.cfg.dirty {
            self.mount_image = Some(self.dev.snapshot());
        }
        self.status_at_mount = self.dev.with_store(|s| refdec::rd8(s, self.geom.status_off()));
        self.stats_queried = false;
        if self.geom.width == 32 {
            let (_, _, c, n, _) = self.dev.with_store(|s| refdec::fsinfo(s, &self.geom));
            self.fsinfo_at_mount = (c, n);
            // the stored hint is used when it names a cluster of the volume (0, 1, the "unknown" value and anything
            // past the last cluster are not hints)
            self.alloc_hint = Hint::Known(if n >= 2 && n <= self.geom.max_cluster() { Some(n) } else { None });
        } else {
            self.alloc_hint = Hint::Known(None);
        }
        let dev = self.dev.handle();
        let clock = self.clock.clone();
        match guard(|| Session::mount(&dev, &clock, &mo)) {
            Caught::Ok(Ok(s)) => {
                self.sess = Some(s);
                Ok(())
            }
            Caught::Ok(Err(e)) => Err(self.viol(Aspect::Harness, format!("mount of a valid volume failed: {:?}", e))),
            Caught::Panic(p) => Err(self.viol(Aspect::Panic, format!("mount panicked: {}", p))),
        }
    }

    fn free_now(&self) -> u64 {
        self.dev.with_store(|s| self.geom.count_free(s))
    }

    fn cs(&self) -> u64 {
        self.geom.cluster_size()
    }

    fn node_has_handle(&self, n: Nid) -> bool {
        self.files.iter().flatten().any(|f| f.node == n) || self.dirs.iter().flatten().any(|d| *d == n)
    }
    /// true if every existing handle on the file is clean and could be made idle (see RunCfg::idle_second_handle)
    fn retire_clean_handles(&mut self, n: Nid) -> bool {
        if !self.cfg.idle_second_handle || self.vol.access_date {
            return false;
        }
        if self.files.iter().flatten().any(|f| f.node == n && f.dirty) {
            return false;
        }
        for f in self.files.iter_mut().flatten() {
            if f.node == n {
                f.idle = true;
            }
        }
        self.trace.hit("second_handle_on_a_file_whose_first_is_idle");
        true
    }
    fn any_dirty(&self) -> bool {
        self.files.iter().flatten().any(|f| f.dirty)
    }
    fn via_node(&self, v: u8) -> Nid {
        if v > 0 {
            if let Some(Some(n)) = self.dirs.get(v as usize - 1) {
                return *n;
            }
        }
        0
    }

    /// run a library call under catch_unwind; a panic poisons the session and ends the case
    fn call<T>(&mut self, what: &str, f: impl FnOnce(&mut Session) -> T) -> VResult<T> {
        let mut sess = self.sess.take().expect("session");
        let budget = self.dev.calls() + self.cfg.budget_per_op;
        self.dev.with(|d| d.budget = budget);
        let r = guard(|| f(&mut sess));
        match r {
            Caught::Ok(v) => {
                if self.dev.with(|d| d.budget_hit) {
                    sess.poisoned = true;
                    drop(sess);
                    self.trace.aborted = Some(format!("{}: budget", what));
                    return Err(self.viol(Aspect::Budget, format!("{} exceeded the device-call budget (non-termination)", what)));
                }
                self.sess = Some(sess);
                Ok(v)
            }
            Caught::Panic(p) => {
                sess.poisoned = true;
                drop(sess);
                let budget_hit = self.dev.with(|d| d.budget_hit);
                self.trace.aborted = Some(format!("{}: {}", what, p));
                if budget_hit {
                    Err(self.viol(Aspect::Budget, format!("{} exceeded the device-call budget (non-termination)", what)))
                } else {
                    Err(self.viol(Aspect::Panic, format!("{} panicked: {}", what, p)))
                }
            }
        }
    }

    fn close_file_slot(&mut self, k: usize) -> VResult<()> {
        if self.files[k].is_some() {
            self.call("drop file handle", |s| {
                s.files[k] = None;
            })?;
            let n = self.files[k].as_ref().map(|f| (f.node, f.set_created, f.idle));
            self.files[k] = None;
            // (the drop of an idle handle hands nothing to the storage: it is no flush point for what another handle has
            // written since - and it may not undo what that handle flushed)
            if let (true, Some((n, c, false))) = (self.crash, n) {
                self.record_flush_event(n, c);
            }
        }
        Ok(())
    }
    fn close_dir_slot(&mut self, k: usize) -> VResult<()> {
        if self.dirs[k].is_some() {
            self.call("drop dir handle", |s| {
                s.dirs[k] = None;
            })?;
            self.dirs[k] = None;
        }
        Ok(())
    }

    /// compare the library's outcome with the model's outcome set. Returns whether the library succeeded.
    fn judge<T>(&mut self, what: &str, res: &Result<T, FErr>, ok_allowed: bool, errs: &[EK]) -> VResult<bool> {
        match res {
            Ok(_) => {
                if !ok_allowed && self.cfg.wants(Aspect::Outcome) {
                    return Err(self.viol(Aspect::Outcome, format!("{} succeeded; the model allows only {:?}", what, errs)));
                }
                if !ok_allowed {
                    self.trace.desync = true;
                }
                Ok(true)
            }
            Err(e) => {
                self.lib_err = true;
                let k = ek(e);
                self.trace.hit("op_failed");
                if !errs.contains(&k) {
                    if k == EK::NotEnoughSpace && self.cfg.wants(Aspect::Stats) {
                        let free = self.free_now();
                        return Err(self.viol(Aspect::Stats, format!("{} failed with NotEnoughSpace although the model finds room for it ({} free clusters)", what, free)));
                    }
                    if self.cfg.wants(Aspect::Outcome) {
                        let allowed = if ok_allowed { format!("success or {:?}", errs) } else { format!("{:?}", errs) };
                        return Err(self.viol(Aspect::Outcome, format!("{} failed with {:?}; the model allows {}", what, k, allowed)));
                    }
                    if !ok_allowed || !errs.is_empty() {
                        // harmless: both fail, different kind
                    }
                }
                Ok(false)
            }
        }
    }

    // ---------------------------------------------------------------------------------------------
    // space prediction from the independent decode

    /// clusters needed to add an entry of `nslots` slots to refdec directory `rd`; None = impossible (fixed root full).
    /// `extra_free`: slot indices (absolute offsets) to be regarded as deleted (rename inside one directory).
    fn clusters_for_entry(&self, rd: &DirNode, nslots: usize, fixed: bool, extra_free: &[u64]) -> Option<u64> {
        let state: Vec<u8> = rd
            .slot_state
            .iter()
            .enumerate()
            .map(|(i, s)| if extra_free.contains(&rd.slot_abs[i]) { 1 } else { *s })
            .collect();
        let mut run = 0usize;
        let mut i = 0usize;
        let total = state.len();
        while i < total {
            match state[i] {
                0 => {
                    // end marker: everything from the start of the trailing deleted run is usable
                    let start = i - run;
                    let avail = total - start;
                    return self.grow_need(avail, nslots, fixed);
                }
                1 => {
                    run += 1;
                    if run == nslots {
                        return Some(0);
                    }
                }
                _ => run = 0,
            }
            i += 1;
        }
        // no end marker: the directory is full up to its last slot
        self.grow_need(run, nslots, fixed)
    }
    fn grow_need(&self, avail: usize, nslots: usize, fixed: bool) -> Option<u64> {
        if avail >= nslots {
            Some(0)
        } else if fixed {
            None
        } else {
            let missing = (nslots - avail) as u64 * 32;
            Some((missing + self.cs() - 1) / self.cs())
        }
    }
    fn slots_for_name(name: &str) -> usize {
        let units = name.encode_utf16().count();
        (units + 12) / 13 + 1
    }

    /// outcome set for creating an entry `name` in model directory `parent` (+`own` clusters for the object itself)
    fn space_outcome(&mut self, parent: Nid, name: &str, own: u64, extra_free: &[u64]) -> (bool, Vec<EK>) {
        let free = self.free_now();
        let fixed = parent == 0 && self.geom.width != 32;
        let need = {
            let dec = match &self.last_dec {
                Some(d) => d,
                None => return (true, vec![EK::NotEnoughSpace]),
            };
            match self.model.find_refdec_dir(dec, parent) {
                Some(rd) => self.clusters_for_entry(rd, Self::slots_for_name(name), fixed, extra_free),
                None => return (true, vec![EK::NotEnoughSpace]),
            }
        };
        match need {
            None => {
                self.trace.hit("root_full");
                (false, vec![EK::NotEnoughSpace])
            }
            Some(n) => {
                if n + own > free {
                    self.trace.hit("no_space");
                    (false, vec![EK::NotEnoughSpace])
                } else {
                    if n > 0 {
                        self.trace.hit("dir_growth");
                    }
                    (true, vec![])
                }
            }
        }
    }

    /// true when the partial-failure shape of the known finding applies: the call will fail with out-of-space
    /// after having written something (long-name slots and/or the new directory's cluster)
    fn partial_nospace_shape(&mut self, parent: Nid, name: &str, own: u64) -> bool {
        let free = self.free_now();
        let fixed = parent == 0 && self.geom.width != 32;
        let need = {
            let dec = match &self.last_dec {
                Some(d) => d,
                None => return false,
            };
            match self.model.find_refdec_dir(dec, parent) {
                Some(rd) => self.clusters_for_entry(rd, Self::slots_for_name(name), fixed, &[]),
                None => return false,
            }
        };
        match need {
            None => true,
            Some(n) => n + own > free && (n > 0 || own > 0) && !(own > 0 && free == 0 && n == 0),
        }
    }

    // ---------------------------------------------------------------------------------------------

    pub fn exec(&mut self, step: usize, op: &Op) -> VResult<()> {
        self.step = step;
        if self.sess.is_none() {
            return Ok(());
        }
        if let Op::FaultNext { k, hold, interrupted, burst } = op {
            let burst = *burst as u64;
            let k = *k as u64;
            let intr = *interrupted;
            self.dev.with(|d| {
                d.fail_at = Some(d.calls + 1 + k);
                d.fail_tag = 0xFA17;
                d.fired = None;
                d.fail_kind = None;
                d.fail_interrupted = intr;
                d.fail_burst = burst;
            });
            self.fault_hold = *hold as u32;
            self.trace.hit("fault_armed");
            self.trace.ops_run += 1;
            return Ok(());
        }
        if self.fault_hold > 0 {
            // under a (possibly still pending) transient fault: run the call, judge nothing but panics and hangs
            let fired_before = self.dev.with(|d| d.fired.is_some());
            let writes_before = self.dev.with(|d| d.n_writes);
            self.lib_err = false;
            let ran = self.exec_inner(op);
            self.fault_hold -= 1;
            let (fired, fired_in_drop) = self.dev.with(|d| (d.fired.is_some(), d.fired.map_or(false, |c| c.in_drop)));
            if fired {
                self.trace.hit("fault_fired");
            }
            // The fault fired during this operation, outside a destructor, and the library reported it. What the call
            // had changed by then it had to mark first - unless the failing device call was the marking itself: the
            // status byte written (a write at its offset), the seek to it, the query of the current position before it
            // (a seek to where the cursor already is) or the seek back after it (from the byte behind the status byte).
            if fired && !fired_before && !fired_in_drop && self.lib_err && self.cfg.wants(Aspect::Dirty) && self.cfg.dirty {
                let st = self.geom.status_off();
                let c = self.dev.with(|d| d.fired).unwrap();
                let marking = match c.kind {
                    crate::dev::Kind::Write => c.off == st,
                    crate::dev::Kind::Seek => c.len == st || c.len == c.off || c.off == st + 1,
                    _ => false,
                };
                if marking {
                    self.trace.hit("fault_on_the_marking_itself");
                } else {
                    self.trace.hit("fault_reported_call_judged");
                    self.check_dirty(op)?;
                }
            }
            // The fault fired during this operation, outside a destructor, and yet every library call of the operation
            // reported success: the call claims to have done its work, so it is judged like any other call.
            if fired && !fired_before && !fired_in_drop && !self.lib_err && matches!(ran, Ok(true)) && matches!(op, Op::Truncate { .. } | Op::Write { .. } | Op::Seek { .. } | Op::CreateFile { .. } | Op::CreateDir { .. } | Op::Remove { .. } | Op::Rename { .. }) {
                self.trace.hit("fault_swallowed_call_reported_success");
                let wrote = self.dev.with(|d| d.n_writes) != writes_before;
                if self.cfg.wants(Aspect::Dirty) && self.cfg.dirty {
                    self.check_dirty(op)?;
                }
                if self.cfg.wants(Aspect::FatCopies) && self.cfg.fatcopies {
                    self.check_fat_copies(op)?;
                }
                let _ = wrote;
                // nothing was reported, so nothing excuses the calls that follow either: judgement resumes at once
                self.fault_hold = 0;
            }
            if self.fault_hold == 0 {
                self.dev.with(|d| {
                    d.fail_at = None;
                    d.fired = None;
                });
                self.last_dec = None;
            }
            return match ran {
                Err(v) if v.aspect == Aspect::Panic || v.aspect == Aspect::Budget => Err(v),
                _ => {
                    self.trace.ops_run += 1;
                    Ok(())
                }
            };
        }
        let writes_before = self.dev.with(|d| d.n_writes);
        let pre_dec = if self.cfg.regions { self.last_dec.take() } else { None };
        if self.cfg.regions {
            self.dev.with(|d| {
                d.log_calls = true;
                d.log.clear();
            });
        }
        if self.crash {
            self.suspend_touched(op);
        }
        self.lib_err = false;
        let ran = self.exec_inner(op)?;
        if self.ro_mode {
            self.check_readonly(&format!("{:?}", op))?;
        }
        if ran {
            self.trace.ops_run += 1;
        } else {
            self.trace.ops_skipped += 1;
        }
        let wrote = self.dev.with(|d| d.n_writes) != writes_before;
        self.after_step(op, wrote, pre_dec)?;
        Ok(())
    }

    fn exec_inner(&mut self, op: &Op) -> VResult<bool> {
        // nothing goes through an idle handle any more; it can only be dropped
        if let Op::Read { h, .. } | Op::Write { h, .. } | Op::WriteRetry { h, .. } | Op::Seek { h, .. } | Op::Truncate { h } | Op::Flush { h } | Op::FlushRetry { h, .. } | Op::CloneSwap { h } | Op::SetTimes { h, .. } | Op::Extents { h } = op {
            if self.files[*h as usize % NSLOTS].as_ref().map_or(false, |f| f.idle) {
                return Ok(false);
            }
        }
        match op {
            Op::CreateFile { via, path, keep } => self.op_create(*via, path, *keep, false),
            Op::CreateDir { via, path, keep } => self.op_create(*via, path, *keep, true),
            Op::OpenFile { via, path, keep } => self.op_open(*via, path, *keep, false),
            Op::OpenDir { via, path, keep } => self.op_open(*via, path, *keep, true),
            Op::List { via } => self.op_list(*via),
            Op::Remove { via, path } => self.op_remove(*via, path),
            Op::Rename { via, src, dvia, dst } => self.op_rename(*via, src, *dvia, dst),
            Op::Read { h, len } => self.op_read(*h, *len),
            Op::Write { h, len, seed } => self.op_write(*h, *len, *seed, None),
            Op::WriteRetry { h, len, seed, k, interrupted } => self.op_write_retry(*h, *len, *seed, *k, *interrupted),
            Op::Seek { h, whence, off } => self.op_seek(*h, *whence, *off),
            Op::Truncate { h } => self.op_truncate(*h),
            Op::Flush { h } => self.op_flush(*h),
            Op::CloneSwap { h } => self.op_clone_swap(*h),
            Op::FlushRetry { h, k, interrupted } => self.op_flush_retry(*h, *k, *interrupted),
            Op::SetTimes { h, which, ms } => self.op_set_times(*h, *which, *ms),
            Op::CloseFile { h } => {
                let k = *h as usize % NSLOTS;
                let had = self.files[k].is_some();
                self.close_file_slot(k)?;
                Ok(had)
            }
            Op::CloseDir { d } => {
                let k = *d as usize % NSLOTS;
                let had = self.dirs[k].is_some();
                self.close_dir_slot(k)?;
                Ok(had)
            }
            Op::Stats => self.op_stats(),
            Op::Status => self.op_status(),
            Op::Labels => self.op_labels(),
            Op::Extents { h } => self.op_extents(*h),
            Op::Remount { how } => self.op_remount(*how),
            Op::Tick { ms } => {
                self.clock.advance(*ms as u64);
                Ok(true)
            }
            Op::FaultNext { .. } => Ok(true),
        }
    }

    fn op_create(&mut self, via: u8, path: &str, keep: u8, dir: bool) -> VResult<bool> {
        let start = self.via_node(via);
        let what = format!("{}({:?}) via {}", if dir { "create_dir" } else { "create_file" }, path, self.model.path_of(start));
        // model
        let mut ok_allowed = false;
        let mut errs: Vec<EK> = Vec::new();
        let mut target: Option<(Nid, String)> = None;
        let mut existing: Option<Nid> = None;
        match self.model.resolve(start, path) {
            Resolved::Err(e) => errs.push(e),
            // a name that is not acceptable is refused whatever the directory holds (an over-long name may still equal an
            // existing one: a foreign entry of 255 units but more than 255 bytes, or under case folding)
            Resolved::At(_, name) if !name_errors(&name).is_empty() => {
                errs = name_errors(&name);
                self.trace.hit("invalid_name");
            }
            Resolved::At(parent, name) => match self.model.lookup(parent, &name) {
                Some(n) => {
                    if self.model.node(n).is_dir() != dir {
                        errs.push(EK::InvalidInput);
                    } else {
                        if self.node_has_handle(n) && !dir && !self.retire_clean_handles(n) {
                            return Ok(false); // precondition: no second ACTIVE handle on one file
                        }
                        ok_allowed = true;
                        existing = Some(n);
                        self.trace.hit("create_existing");
                    }
                }
                None => {
                    let ne = name_errors(&name);
                    if !ne.is_empty() {
                        errs = ne;
                        self.trace.hit("invalid_name");
                    } else {
                        if self.cfg.known.partial_create_nospace && self.partial_nospace_shape(parent, &name, if dir { 1 } else { 0 }) {
                            self.trace.excluded_known += 1;
                            return Ok(false);
                        }
                        let (ok, e) = self.space_outcome(parent, &name, if dir { 1 } else { 0 }, &[]);
                        ok_allowed = ok;
                        errs = e;
                        target = Some((parent, name));
                    }
                }
            },
        }
        let p = path.to_string();
        let k = if keep > 0 { Some((keep as usize - 1) % NSLOTS) } else { None };
        let res: Result<(), FErr> = self.call(&what, |s| {
            let d = s.via(via);
            if dir {
                let r = d.create_dir(&p);
                match r {
                    Ok(h) => {
                        if let Some(k) = k {
                            s.dirs[k] = Some(h);
                        }
                        Ok(())
                    }
                    Err(e) => Err(e),
                }
            } else {
                match d.create_file(&p) {
                    Ok(h) => {
                        if let Some(k) = k {
                            s.files[k] = Some(h);
                        }
                        Ok(())
                    }
                    Err(e) => Err(e),
                }
            }
        })?;
        let ok = self.judge(&what, &res, ok_allowed, &errs)?;
        if ok {
            let node = if let Some(n) = existing {
                n
            } else if let Some((parent, name)) = target {
                let now = self.clock.now_ts();
                let n = self.model.add(parent, &name, dir, now);
                if dir && self.vol.access_date {
                    // reading a directory (listing it, walking a path through it) stamps its access date
                    self.model.node_mut(n).times_known = false;
                }
                if parent != 0 {
                    self.model.node_mut(parent).times_known = false;
                }
                self.trace.hit(if dir { "mkdir" } else { "mkfile" });
                self.trace.hit("mutation");
                n
            } else {
                // the library created something the model considers impossible
                self.trace.desync = true;
                return Ok(true);
            };
            if let Some(k) = k {
                if dir {
                    self.dirs[k] = Some(node);
                } else {
                    self.files[k] = Some(MFile { node, pos: 0, dirty: false, set_created: None, idle: false });
                }
            }
        } else if matches!(&res, Err(e) if ek(e) == EK::NotEnoughSpace) {
            // refused for lack of room: the library may have written slots into the parent directory and marked them
            // deleted again, which stamps the directory like any write into it
            if let Some((parent, _)) = target {
                if parent != 0 {
                    self.model.node_mut(parent).times_known = false;
                }
            }
        }
        Ok(true)
    }

    fn op_open(&mut self, via: u8, path: &str, keep: u8, dir: bool) -> VResult<bool> {
        let start = self.via_node(via);
        let what = format!("{}({:?}) via {}", if dir { "open_dir" } else { "open_file" }, path, self.model.path_of(start));
        let mut ok_allowed = false;
        let mut errs = Vec::new();
        let mut found = None;
        match self.model.resolve(start, path) {
            Resolved::Err(e) => errs.push(e),
            Resolved::At(parent, name) => match self.model.lookup(parent, &name) {
                None => errs.push(EK::NotFound),
                Some(n) => {
                    if self.model.node(n).is_dir() != dir {
                        errs.push(EK::InvalidInput);
                    } else {
                        if !dir && self.node_has_handle(n) && !self.retire_clean_handles(n) {
                            return Ok(false);
                        }
                        ok_allowed = true;
                        found = Some(n);
                        let nm = &self.model.node(n).name;
                        if nm != &name {
                            self.trace.hit("lookup_other_case_or_alias");
                        }
                    }
                }
            },
        }
        let p = path.to_string();
        let k = if keep > 0 { Some((keep as usize - 1) % NSLOTS) } else { None };
        // when the handle is not kept, read the whole file through it and compare (fresh-handle read-back)
        let res: Result<Option<Vec<u8>>, FErr> = self.call(&what, |s| {
            let d = s.via(via);
            if dir {
                let h = d.open_dir(&p)?;
                if let Some(k) = k {
                    s.dirs[k] = Some(h);
                }
                Ok(None)
            } else {
                let mut h = d.open_file(&p)?;
                if let Some(k) = k {
                    s.files[k] = Some(h);
                    Ok(None)
                } else {
                    let data = session::read_all(&mut h, 1000, 1 << 26)?;
                    Ok(Some(data))
                }
            }
        })?;
        let ok = self.judge(&what, &res, ok_allowed, &errs)?;
        if ok {
            let Some(n) = found else {
                self.trace.desync = true;
                return Ok(true);
            };
            if let Ok(Some(data)) = &res {
                if self.vol.access_date && !data.is_empty() {
                    let now = self.clock.now_ts();
                    self.model.node_mut(n).accessed = now.date_only();
                }
                if self.cfg.wants(Aspect::File) && data != self.model.data(n) {
                    return Err(self.viol(Aspect::File, format!("{}: a fresh handle reads {} bytes that differ from the model's {} bytes", what, data.len(), self.model.data(n).len())));
                }
                self.trace.hit("fresh_handle_readback");
            }
            if let Some(k) = k {
                if dir {
                    self.dirs[k] = Some(n);
                } else {
                    self.files[k] = Some(MFile { node: n, pos: 0, dirty: false, set_created: None, idle: false });
                }
            }
        }
        Ok(true)
    }

    fn op_list(&mut self, via: u8) -> VResult<bool> {
        let start = self.via_node(via);
        let what = format!("list {}", self.model.path_of(start));
        let open_paths: Vec<String> = self.files.iter().flatten().map(|f| self.model.path_of(f.node)).collect();
        let base = self.model.path_of(start);
        let res = self.call(&what, |s| {
            let d = s.via(via);
            session::lib_tree(&d, true, &|p| open_paths.iter().any(|o| o == p), &base, 0)
        })?;
        match res {
            Err(e) => {
                if self.cfg.wants(Aspect::Tree) {
                    return Err(self.viol(Aspect::Tree, e));
                }
            }
            Ok(nodes) => {
                self.note_listing_read(start);
                if self.cfg.wants(Aspect::Tree) {
                    let m = self.model_nodes_for_compare(start);
                    let mask = CmpMask { short: false, attr: true, size: false, times: false, data: true, dots: true, dir_times: true };
                    if let Err(e) = tree::compare("the library", &nodes, "the model", &m, mask, &base) {
                        return Err(self.viol(Aspect::Tree, e));
                    }
                }
            }
        }
        self.trace.hit("list");
        Ok(true)
    }

    /// a recursive listing that reads file contents: with the access-date option on, every non-empty file without
    /// a live handle below `d` was read through a temporary handle and got today's access date
    fn note_listing_read(&mut self, d: Nid) {
        if !self.vol.access_date {
            return;
        }
        let today = self.clock.now_ts().date_only();
        let mut stack = vec![d];
        while let Some(x) = stack.pop() {
            for c in self.model.children(x).to_vec() {
                if self.model.node(c).is_dir() {
                    stack.push(c);
                } else if !self.model.data(c).is_empty() && !self.files.iter().flatten().any(|f| f.node == c) {
                    self.model.node_mut(c).accessed = today;
                }
            }
        }
    }

    /// model nodes, with data of files that have dirty handles removed (their on-disk state is deferred)
    fn model_nodes_for_compare(&self, d: Nid) -> Vec<tree::TNode> {
        let mut v = self.model.tnodes(d, true);
        let open: Vec<String> = self.files.iter().flatten().map(|f| self.model.path_of(f.node)).collect();
        fn strip(v: &mut Vec<tree::TNode>, path: &str, open: &[String]) {
            for n in v.iter_mut() {
                let p = if path == "/" { format!("/{}", n.name_string()) } else { format!("{}/{}", path, n.name_string()) };
                if open.iter().any(|o| *o == p) {
                    n.data = None;
                }
                strip(&mut n.children, &p, open);
            }
        }
        let base = self.model.path_of(d);
        strip(&mut v, &base, &open);
        v
    }

    fn op_remove(&mut self, via: u8, path: &str) -> VResult<bool> {
        let start = self.via_node(via);
        let what = format!("remove({:?}) via {}", path, self.model.path_of(start));
        let mut ok_allowed = false;
        let mut errs = Vec::new();
        let mut victim = None;
        match self.model.resolve(start, path) {
            Resolved::Err(e) => errs.push(e),
            Resolved::At(parent, name) => match self.model.lookup(parent, &name) {
                None => errs.push(EK::NotFound),
                Some(n) => {
                    if self.node_has_handle(n) {
                        return Ok(false); // precondition of Dir::remove
                    }
                    if self.model.node(n).is_dir() && !self.model.children(n).is_empty() {
                        errs.push(EK::DirectoryIsNotEmpty);
                    } else {
                        ok_allowed = true;
                        victim = Some(n);
                    }
                }
            },
        }
        let p = path.to_string();
        let res = self.call(&what, |s| s.via(via).remove(&p))?;
        let ok = self.judge(&what, &res, ok_allowed, &errs)?;
        if ok {
            match victim {
                Some(n) => {
                    let parent = self.model.node(n).parent;
                    if parent != 0 {
                        self.model.node_mut(parent).times_known = false;
                    }
                    self.model.remove(n);
                    self.trace.hit("remove");
                    self.trace.hit("mutation");
                }
                None => self.trace.desync = true,
            }
        }
        Ok(true)
    }

    fn op_rename(&mut self, via: u8, src: &str, dvia: u8, dst: &str) -> VResult<bool> {
        let sstart = self.via_node(via);
        let dstart = self.via_node(dvia);
        let what = format!("rename({:?} via {} -> {:?} via {})", src, self.model.path_of(sstart), dst, self.model.path_of(dstart));
        let mut errs: Vec<EK> = Vec::new();
        let mut ok_allowed = true;
        let mut plan: Option<(Nid, Nid, String)> = None; // node, new parent, new name
        let mut noop = false;
        let sres = self.model.resolve(sstart, src);
        let dres = self.model.resolve(dstart, dst);
        let mut snode = None;
        match &sres {
            Resolved::Err(e) => errs.push(*e),
            Resolved::At(p, name) => match self.model.lookup(*p, name) {
                None => errs.push(EK::NotFound),
                Some(n) => snode = Some(n),
            },
        }
        match &dres {
            Resolved::Err(e) => errs.push(*e),
            Resolved::At(_, dname) if !name_errors(dname).is_empty() => {
                errs.extend(name_errors(dname));
                self.trace.hit("invalid_name");
            }
            Resolved::At(dp, dname) => {
                match self.model.lookup(*dp, dname) {
                    Some(existing) => {
                        if Some(existing) == snode {
                            noop = true;
                        } else {
                            errs.push(EK::AlreadyExists);
                        }
                    }
                    None => {
                        let ne = name_errors(dname);
                        if !ne.is_empty() {
                            errs.extend(ne);
                            self.trace.hit("invalid_name");
                        } else if let Some(n) = snode {
                            plan = Some((n, *dp, dname.clone()));
                        }
                    }
                }
            }
        }
        if let Some(n) = snode {
            if self.node_has_handle(n) {
                return Ok(false); // precondition of Dir::rename
            }
        }
        // a directory moved into its own subtree is an error in its own right: when another error applies as well
        // (name in use, invalid name) either kind is a correct answer
        if let (Some(n), Resolved::At(dp, _)) = (snode, &dres) {
            if !errs.is_empty() && self.model.node(n).is_dir() && self.model.is_ancestor_or_self(n, *dp) && !errs.contains(&EK::InvalidInput) {
                errs.push(EK::InvalidInput);
            }
        }
        if !errs.is_empty() {
            ok_allowed = false;
        }
        if let (true, Some((n, dp, dname))) = (errs.is_empty() && !noop, plan.clone()) {
            if self.model.node(n).is_dir() && self.model.is_ancestor_or_self(n, dp) {
                if self.cfg.known.dst_inside_src {
                    self.trace.excluded_known += 1;
                    return Ok(false);
                }
                // a directory cannot be moved into its own subtree: no in-memory tree allows it
                self.trace.hit("rename_into_own_subtree");
                ok_allowed = false;
                errs.push(EK::InvalidInput);
                plan = None;
            } else {
                // space: the entry needs room in the destination directory; slots of the source entry may or
                // may not count as free depending on the order the library works in: accept either in between
                let src_slots: Vec<u64> = self.entry_slots(n);
                let same_dir = self.model.node(n).parent == dp;
                if self.cfg.known.partial_create_nospace && self.partial_nospace_shape(dp, &dname, 0) {
                    self.trace.excluded_known += 1;
                    return Ok(false);
                }
                let (ok_a, e_a) = self.space_outcome(dp, &dname, 0, &[]);
                let (ok_b, e_b) = if same_dir { self.space_outcome(dp, &dname, 0, &src_slots) } else { (ok_a, e_a.clone()) };
                ok_allowed = ok_a || ok_b;
                for e in e_a.into_iter().chain(e_b.into_iter()) {
                    if !errs.contains(&e) {
                        errs.push(e);
                    }
                }
            }
        }
        let (s, d) = (src.to_string(), dst.to_string());
        let res = self.call(&what, |sess| {
            let sd = sess.via(via);
            let dd = sess.via(dvia);
            sd.rename(&s, &dd, &d)
        })?;
        let ok = self.judge(&what, &res, ok_allowed, &errs)?;
        if ok {
            if noop {
                self.trace.hit("rename_noop");
            } else if let Some((n, dp, dname)) = plan {
                let old_parent = self.model.node(n).parent;
                if old_parent != dp {
                    self.trace.hit("cross_dir_rename");
                }
                if self.model.node(n).is_dir() {
                    self.trace.hit("dir_rename");
                }
                self.model.detach(n);
                self.model.attach(n, dp, &dname);
                for p in [old_parent, dp] {
                    if p != 0 {
                        self.model.node_mut(p).times_known = false;
                    }
                }
                self.trace.hit("rename");
                self.trace.hit("mutation");
            } else {
                self.trace.desync = true;
            }
        } else if matches!(&res, Err(e) if ek(e) == EK::NotEnoughSpace) {
            // see op_create: the destination directory may have been written into before the refusal
            if let Resolved::At(dp, _) = &dres {
                if *dp != 0 {
                    self.model.node_mut(*dp).times_known = false;
                }
            }
        }
        Ok(true)
    }

    /// absolute offsets of the directory slots of model node n (from the last decode)
    fn entry_slots(&self, n: Nid) -> Vec<u64> {
        let Some(dec) = &self.last_dec else { return Vec::new() };
        let parent = self.model.node(n).parent;
        let Some(rd) = self.model.find_refdec_dir(dec, parent) else { return Vec::new() };
        let units: Vec<u16> = self.model.node(n).name.encode_utf16().collect();
        rd.entries.iter().find(|e| !e.is_label() && e.visible_units() == units).map(|e| e.slot_abs.clone()).unwrap_or_default()
    }

    fn op_read(&mut self, h: u8, len: u32) -> VResult<bool> {
        let k = h as usize % NSLOTS;
        let Some(mf) = self.files[k].clone() else { return Ok(false) };
        let what = format!("read({}) at {} of {}", len, mf.pos, self.model.path_of(mf.node));
        let res = self.call(&what, |s| {
            let f = s.files[k].as_mut().unwrap();
            let mut buf = vec![0u8; len as usize];
            let n = session::file_read(f, &mut buf)?;
            buf.truncate(n);
            Ok::<Vec<u8>, FErr>(buf)
        })?;
        match res {
            Err(e) => {
                if self.cfg.wants(Aspect::File) {
                    return Err(self.viol(Aspect::File, format!("{} failed with {:?}", what, ek(&e))));
                }
            }
            Ok(buf) => {
                let data = self.model.data(mf.node);
                let remaining = data.len() as u64 - mf.pos.min(data.len() as u64);
                let n = buf.len() as u64;
                if self.cfg.wants(Aspect::File) {
                    if n > remaining.min(len as u64) {
                        return Err(self.viol(Aspect::File, format!("{} returned {} bytes, more than remain ({})", what, n, remaining)));
                    }
                    if n == 0 && remaining > 0 && len > 0 {
                        return Err(self.viol(Aspect::File, format!("{} returned 0 bytes although {} remain", what, remaining)));
                    }
                    let exp = &data[mf.pos as usize..(mf.pos + n) as usize];
                    if exp != &buf[..] {
                        let p = exp.iter().zip(buf.iter()).position(|(a, b)| a != b).unwrap();
                        return Err(self.viol(Aspect::File, format!("{} returned wrong data at file offset {}", what, mf.pos + p as u64)));
                    }
                }
                let cs = self.cs();
                if n > 0 && mf.pos % cs != 0 && (mf.pos % cs) + len as u64 > cs {
                    self.trace.hit("cross_cluster_read");
                }
                if n > 0 && self.vol.access_date {
                    let now = self.clock.now_ts();
                    let nd = self.model.node_mut(mf.node);
                    if nd.accessed != now.date_only() {
                        nd.accessed = now.date_only();
                        self.files[k].as_mut().unwrap().dirty = true;
                    }
                }
                let n = n.min(remaining);
                self.files[k].as_mut().unwrap().pos = mf.pos + n;
                self.trace.hit("read");
            }
        }
        if self.cfg.flush_each && self.files[k].as_ref().map_or(false, |f| f.dirty) {
            self.flush_slot(k)?;
        }
        Ok(true)
    }

    fn flush_slot(&mut self, k: usize) -> VResult<()> {
        let res = self.call("flush", |s| session::file_flush(s.files[k].as_mut().unwrap()))?;
        let flushed = res.is_ok();
        if let Err(e) = res {
            self.lib_err = true;
            if self.cfg.wants(Aspect::File) {
                return Err(self.viol(Aspect::File, format!("flush failed with {:?}", ek(&e))));
            }
        }
        if let Some(f) = self.files[k].as_mut() {
            f.dirty = false;
        }
        // a flush point exists only where flush() returned successfully
        if self.crash && flushed {
            if let Some((n, c)) = self.files[k].as_ref().map(|f| (f.node, f.set_created)) {
                self.record_flush_event(n, c);
            }
        }
        Ok(())
    }

    fn record_flush_event(&mut self, n: Nid, created: Option<Ts>) {
        let (at, barrier) = self.dev.with(|d| (d.wlog.len(), d.flush_marks.last().copied() == Some(d.wlog.len())));
        for e in self.flush_events.iter_mut() {
            if e.node == n && e.until.is_none() {
                e.until = Some(at);
            }
        }
        let ev = FlushEvent { node: n, path: self.model.path_of(n), data: self.model.data(n).clone(), at, barrier, until: None, step: self.step, created };
        self.flush_events.push(ev);
        self.trace.hit("flush_point");
    }

    /// suspend the C14 guarantee of every observed file the op may modify: the file itself through a handle, or
    /// the file / one of its ancestors through remove or rename
    fn suspend_touched(&mut self, op: &Op) {
        let at = self.dev.with(|d| d.wlog.len());
        let mut touched: Vec<Nid> = Vec::new();
        // (an idle handle modifies nothing, its drop included)
        let handle_node = |h: u8| self.files[h as usize % NSLOTS].as_ref().filter(|f| !f.idle).map(|f| f.node);
        match op {
            Op::Write { h, .. } | Op::WriteRetry { h, .. } | Op::Truncate { h } | Op::SetTimes { h, .. } | Op::Read { h, .. } | Op::CloseFile { h } => {
                if let Some(n) = handle_node(*h) {
                    touched.push(n);
                }
            }
            Op::Remove { via, path } => {
                if let Resolved::At(p, name) = self.model.resolve(self.via_node(*via), path) {
                    if let Some(n) = self.model.lookup(p, &name) {
                        touched.push(n);
                    }
                }
            }
            Op::Rename { via, src, .. } => {
                if let Resolved::At(p, name) = self.model.resolve(self.via_node(*via), src) {
                    if let Some(n) = self.model.lookup(p, &name) {
                        touched.push(n);
                    }
                }
            }
            Op::CreateFile { keep, .. } | Op::OpenFile { keep, .. } => {
                // a replaced slot drops its old handle
                if *keep > 0 {
                    if let Some(f) = self.files[(*keep as usize - 1) % NSLOTS].as_ref() {
                        touched.push(f.node);
                    }
                }
            }
            Op::Remount { .. } => {
                for f in self.files.iter().flatten() {
                    touched.push(f.node);
                }
            }
            _ => {}
        }
        if touched.is_empty() {
            return;
        }
        let model = &self.model;
        for e in self.flush_events.iter_mut() {
            if e.until.is_none() && model.is_live(e.node) && touched.iter().any(|t| model.is_ancestor_or_self(*t, e.node)) {
                e.until = Some(at);
            }
        }
    }

    /// C13: judge the device writes issued since the read-only session began
    pub fn check_readonly(&mut self, what: &str) -> VResult<()> {
        let writes: Vec<crate::dev::Call> = self.dev.with(|d| d.log.iter().filter(|c| c.kind == Kind::Write && c.len > 0).copied().collect());
        if writes.is_empty() {
            return Ok(());
        }
        let g = &self.geom;
        let fi = g.fsinfo_off();
        let allowed = g.width == 32 && self.stats_queried && self.ro_fsinfo_unusable;
        for w in &writes {
            let inside = w.off >= fi && w.off + w.len <= fi + g.bps;
            if !(allowed && inside) {
                return Err(self.viol(Aspect::NoWrite, format!("read-only session wrote {} bytes at offset {} during {} (FAT{}, stats called: {}, FS-info count usable at mount: {})", w.len, w.off, what, g.width, self.stats_queried, !self.ro_fsinfo_unusable)));
            }
        }
        self.trace.hit("fsinfo_count_stored");
        Ok(())
    }

    /// C13: end the populating session, optionally mark the volume dirty / the FS-info count unknown by raw edits,
    /// and start the read-only session whose writes are judged
    pub fn begin_readonly(&mut self, dirty: bool, fsinfo_unknown: bool) -> VResult<()> {
        self.begin_readonly_with(dirty, fsinfo_unknown, None, None)
    }

    /// `hint` / `count`: raw values to store in the FS-info next-free / free-count fields first (a foreign volume
    /// may carry anything there)
    pub fn begin_readonly_with(&mut self, dirty: bool, fsinfo_unknown: bool, hint: Option<u32>, count: Option<u32>) -> VResult<()> {
        self.close_all()?;
        if let Some(sess) = self.sess.take() {
            let _ = guard(move || sess.unmount());
        }
        let g = self.geom.clone();
        let io_err = self.ro_set_io_error_bit;
        self.dev.with(|d| {
            if dirty {
                let mut b = [0u8; 1];
                d.store.read_at(g.status_off(), &mut b);
                d.store.write_at(g.status_off(), &[b[0] | 1]);
            }
            if fsinfo_unknown && g.width == 32 {
                d.store.write_at(g.fsinfo_off() + 488, &0xFFFF_FFFFu32.to_le_bytes());
            }
            if io_err {
                let mut b = [0u8; 1];
                d.store.read_at(g.status_off(), &mut b);
                d.store.write_at(g.status_off(), &[b[0] | 2]);
            }
            if g.width == 32 {
                if let Some(h) = hint {
                    d.store.write_at(g.fsinfo_off() + 492, &h.to_le_bytes());
                }
                if let Some(c) = count {
                    d.store.write_at(g.fsinfo_off() + 488, &c.to_le_bytes());
                }
            }
        });
        let odd = self.ro_odd_bpb;
        if odd != 0 && g.width == 32 {
            let bps = g.bps;
            self.dev.with(|d| {
                let mut bk = [0u8; 2];
                d.store.read_at(50, &mut bk);
                let bk = u16::from_le_bytes(bk) as u64;
                let copies: Vec<u64> = if bk != 0 && bk != 0xFFFF { vec![0, bk * bps] } else { vec![0] };
                match odd {
                    1 => {
                        for c in &copies {
                            d.store.write_at(c + 48, &[0, 0]);
                        }
                    }
                    2 => d.store.write_at(50, &[0, 0]),
                    _ => d.store.write_at(g.fsinfo_off() + 508, &[0, 0, 0, 0]),
                }
            });
        }
        let (cnt, st) = self.dev.with_store(|s| (refdec::rd32(s, g.fsinfo_off() + 488), refdec::rd8(s, g.status_off())));
        self.ro_fsinfo_unusable = g.width == 32 && (cnt == 0xFFFF_FFFF || cnt as u64 > g.clusters || st & 1 != 0);
        self.vol.access_date = false;
        self.dev.with(|d| {
            d.log.clear();
            d.log_calls = true;
        });
        self.ro_mode = true;
        // a read-only session usually happens on a later day than the one the volume was written on (a stamped access
        // date would differ from the stored one)
        self.clock.advance(86_400_000 * 2 + 3_600_000);
        if odd != 0 && g.width == 32 {
            // the library may refuse such a volume (nothing to judge then); if it accepts it the property holds for it
            match self.mount() {
                Ok(()) => self.trace.hit("odd_volume_accepted"),
                Err(v) if v.aspect == Aspect::Harness => {
                    self.trace.hit("odd_volume_refused");
                    self.sess = None;
                    return self.check_readonly("the refused mount");
                }
                Err(v) => return Err(v),
            }
        } else {
            self.mount()?;
        }
        self.check_readonly("mount")?;
        Ok(())
    }

    /// power cut: the session is forgotten with all its handles open and unflushed; the device keeps its bytes
    pub fn abandon_keep_image(&mut self) {
        for f in self.files.iter_mut() {
            *f = None;
        }
        for d in self.dirs.iter_mut() {
            *d = None;
        }
        if let Some(s) = self.sess.take() {
            let snap = self.dev.snapshot();
            s.abandon();
            self.dev.with(|d| d.store = snap);
        }
    }

    /// C13: end of the read-only session by unmount() or by drop
    pub fn end_readonly(&mut self, by_drop: bool) -> VResult<()> {
        self.close_all()?;
        self.check_readonly("dropping the handles")?;
        if let Some(sess) = self.sess.take() {
            let r = guard(move || {
                if by_drop {
                    drop(sess);
                    Ok(())
                } else {
                    sess.unmount()
                }
            });
            if let Caught::Panic(p) = r {
                return Err(self.viol(Aspect::Panic, format!("unmount panicked: {}", p)));
            }
        }
        self.check_readonly(if by_drop { "drop of the FileSystem" } else { "unmount" })?;
        // if the count was stored it has to be the true one
        if self.trace.has("fsinfo_count_stored") {
            let free = self.free_now();
            let cnt = self.dev.with_store(|s| refdec::rd32(s, self.geom.fsinfo_off() + 488));
            if cnt as u64 != free {
                return Err(self.viol(Aspect::NoWrite, format!("the FS-info sector was rewritten with free count {}, the table has {} free entries", cnt, free)));
            }
        }
        Ok(())
    }

    fn op_write_retry(&mut self, h: u8, len: u32, seed: u8, fault_k: u16, interrupted: bool) -> VResult<bool> {
        let k = h as usize % NSLOTS;
        let Some(mf) = self.files[k].clone() else { return Ok(false) };
        // On a storage that splits transfers a fault can cut a 2- or 4-byte table entry in half; the link a retry then
        // follows is garbage through nobody's fault but the storage's. The retry contract is checked on storage that
        // completes each transfer it accepts.
        if len == 0 || self.vol.short_io != 0 {
            return self.op_write(h, len, seed, None);
        }
        let what = format!("write({}) at {} of {} with a transient fault at device call {}", len, mf.pos, self.model.path_of(mf.node), fault_k);
        let salted = seed ^ self.pattern_salt;
        let buf: Vec<u8> = (0..len as u64).map(|i| pattern(salted, mf.pos + i)).collect();
        self.dev.with(|d| {
            d.fail_at = Some(d.calls + 1 + fault_k as u64);
            d.fail_tag = 0xFA17;
            d.fired = None;
            d.fail_kind = None;
            d.fail_interrupted = interrupted;
            d.fail_burst = 0;
        });
        let free_before = self.free_now();
        let first = self.call(&what, |s| session::file_write(s.files[k].as_mut().unwrap(), &buf))?;
        let fired = self.dev.with(|d| {
            let f = d.fired.is_some();
            d.fail_at = None;
            d.fired = None;
            d.fail_interrupted = false;
            f
        });
        match first {
            Err(ref e) if fired && ek(e) == EK::Io => {
                // reported: go back to where the write began and do it again
                self.trace.hit("write_failed_with_injected_fault_then_retried");
                let back = self.call("seek back after a failed write", |s| session::file_seek(s.files[k].as_mut().unwrap(), fatfs::SeekFrom::Start(mf.pos)))?;
                match back {
                    Ok(p) if p == mf.pos => {}
                    other => {
                        if self.cfg.wants(Aspect::File) {
                            return Err(self.viol(Aspect::File, format!("after a write that failed with an I/O error, seek(Start({})) returned {:?}", mf.pos, other.map_err(|e| ek(&e)))));
                        }
                        self.trace.desync = true;
                        return Ok(true);
                    }
                }
                // the failed attempt may already have extended the chain (or used up the last free cluster without
                // linking it): whether the retry needs / finds a cluster is not predictable from the model
                self.retrying_write = true;
                let r = self.op_write(h, len, seed, None);
                self.retrying_write = false;
                r
            }
            other => {
                if fired {
                    self.trace.hit("write_survived_injected_fault");
                }
                self.op_write(h, len, seed, Some((other, free_before)))
            }
        }
    }

    /// `pre`: the result of a write call already made (op_write_retry); None = make the call
    fn op_write(&mut self, h: u8, len: u32, seed: u8, pre: Option<(Result<usize, FErr>, u64)>) -> VResult<bool> {
        let k = h as usize % NSLOTS;
        let Some(mf) = self.files[k].clone() else { return Ok(false) };
        let what = format!("write({}) at {} of {}", len, mf.pos, self.model.path_of(mf.node));
        let cs = self.cs();
        let size = self.model.data(mf.node).len() as u64;
        let chain_len = (size + cs - 1) / cs;
        let needs_cluster = len > 0 && mf.pos % cs == 0 && mf.pos / cs >= chain_len;
        let free = match &pre {
            Some((_, f)) => *f,
            None => self.free_now(),
        };
        let seed = seed ^ self.pattern_salt;
        let buf: Vec<u8> = (0..len as u64).map(|i| pattern(seed, mf.pos + i)).collect();
        let res = match pre {
            Some((r, _)) => r,
            None => self.call(&what, |s| session::file_write(s.files[k].as_mut().unwrap(), &buf))?,
        };
        if res.is_err() {
            self.lib_err = true;
        }
        match res {
            Err(e) => {
                let kd = ek(&e);
                self.trace.hit("op_failed");
                let expected = needs_cluster && free == 0 && kd == EK::NotEnoughSpace || self.retrying_write && kd == EK::NotEnoughSpace;
                if self.retrying_write && kd == EK::NotEnoughSpace {
                    // the bytes of the failed attempt may or may not be there and the retry cannot complete: the file is
                    // no longer comparable with the model, the case ends here
                    self.trace.hit("retry_out_of_space_case_ended");
                    for f in self.files.iter_mut() {
                        *f = None;
                    }
                    for d in self.dirs.iter_mut() {
                        *d = None;
                    }
                    if let Some(sess) = self.sess.take() {
                        // (the write log and the image stay: C14 evaluates them after the history)
                        let logs = self.dev.with(|d| (std::mem::take(&mut d.wlog), std::mem::take(&mut d.flush_marks), std::mem::take(&mut d.wshort)));
                        let snap = self.dev.snapshot();
                        sess.abandon();
                        self.dev.with(|d| {
                            d.store = snap;
                            d.wlog = logs.0;
                            d.flush_marks = logs.1;
                            d.wshort = logs.2;
                        });
                    }
                    return Ok(true);
                }
                if expected {
                    self.trace.hit("write_no_space");
                }
                if !expected && (self.cfg.wants(Aspect::File) || (kd == EK::NotEnoughSpace && self.cfg.wants(Aspect::Stats))) {
                    let a = if self.cfg.wants(Aspect::File) { Aspect::File } else { Aspect::Stats };
                    return Err(self.viol(a, format!("{} failed with {:?} (needs a new cluster: {}, free clusters: {})", what, kd, needs_cluster, free)));
                }
            }
            Ok(n) => {
                let n = n as u64;
                if self.cfg.wants(Aspect::File) {
                    if len == 0 && n != 0 {
                        return Err(self.viol(Aspect::File, format!("{} returned {}", what, n)));
                    }
                    if len > 0 && (n == 0 || n > len as u64) {
                        return Err(self.viol(Aspect::File, format!("{} returned {} (must be in 1..={})", what, n, len)));
                    }
                    if needs_cluster && free == 0 && !self.retrying_write {
                        return Err(self.viol(Aspect::File, format!("{} succeeded although no cluster was free", what)));
                    }
                }
                let n = n.min(len as u64);
                if n > 0 {
                    let now = self.clock.now_ts();
                    let d = self.model.data_mut(mf.node);
                    let end = (mf.pos + n) as usize;
                    if d.len() < end {
                        d.resize(end, 0);
                    }
                    d[mf.pos as usize..end].copy_from_slice(&buf[..n as usize]);
                    self.model.node_mut(mf.node).modified = now.floor_2s();
                    let f = self.files[k].as_mut().unwrap();
                    f.pos = mf.pos + n;
                    f.dirty = true;
                    self.trace.hit("write");
                    self.trace.hit("mutation");
                    if mf.pos % cs != 0 && (mf.pos % cs) + len as u64 > cs {
                        self.trace.hit("cross_cluster_write");
                    }
                    if mf.pos < size {
                        self.trace.hit("overwrite");
                    }
                    if needs_cluster {
                        self.trace.hit("alloc_write");
                    }
                }
            }
        }
        if self.cfg.flush_each && self.files[k].as_ref().map_or(false, |f| f.dirty) {
            self.flush_slot(k)?;
        }
        Ok(true)
    }

    fn op_seek(&mut self, h: u8, whence: u8, off: i64) -> VResult<bool> {
        let k = h as usize % NSLOTS;
        let Some(mf) = self.files[k].clone() else { return Ok(false) };
        let size = self.model.data(mf.node).len() as u64;
        let sf = session::seek_from(whence, off);
        let what = format!("seek({:?}) at {} of {} (size {})", sf, mf.pos, self.model.path_of(mf.node), size);
        let target: i128 = match sf {
            fatfs::SeekFrom::Start(x) => x as i128,
            fatfs::SeekFrom::Current(x) => mf.pos as i128 + x as i128,
            fatfs::SeekFrom::End(x) => size as i128 + x as i128,
        };
        let res = self.call(&what, |s| session::file_seek(s.files[k].as_mut().unwrap(), sf))?;
        if res.is_err() {
            self.lib_err = true;
        }
        if target < 0 {
            self.trace.hit("seek_negative");
            match res {
                Err(e) if ek(&e) == EK::InvalidInput => {}
                other => {
                    if self.cfg.wants(Aspect::File) {
                        return Err(self.viol(Aspect::File, format!("{} to a negative position returned {:?}, expected InvalidInput", what, other.map_err(|e| ek(&e)))));
                    }
                    if let Ok(p) = other {
                        self.files[k].as_mut().unwrap().pos = p.min(size);
                    }
                }
            }
        } else {
            let exp = (target as u128).min(size as u128) as u64;
            if target as u128 > size as u128 {
                self.trace.hit("seek_beyond_end");
            }
            match res {
                Ok(p) if p == exp => {
                    self.files[k].as_mut().unwrap().pos = p;
                }
                other => {
                    if self.cfg.wants(Aspect::File) {
                        return Err(self.viol(Aspect::File, format!("{} returned {:?}, expected Ok({})", what, other.map_err(|e| ek(&e)), exp)));
                    }
                    if let Ok(p) = other {
                        self.files[k].as_mut().unwrap().pos = p.min(size);
                    }
                }
            }
            self.trace.hit("seek");
        }
        Ok(true)
    }

    fn op_truncate(&mut self, h: u8) -> VResult<bool> {
        let k = h as usize % NSLOTS;
        let Some(mf) = self.files[k].clone() else { return Ok(false) };
        let what = format!("truncate at {} of {}", mf.pos, self.model.path_of(mf.node));
        let res = self.call(&what, |s| s.files[k].as_mut().unwrap().truncate())?;
        if res.is_err() {
            self.lib_err = true;
        }
        match res {
            Err(e) => {
                if self.cfg.wants(Aspect::File) {
                    return Err(self.viol(Aspect::File, format!("{} failed with {:?}", what, ek(&e))));
                }
            }
            Ok(()) => {
                let d = self.model.data_mut(mf.node);
                if (mf.pos as usize) < d.len() {
                    d.truncate(mf.pos as usize);
                    self.trace.hit("truncate_shrinks");
                    if mf.pos % self.cs() != 0 {
                        self.trace.hit("truncate_mid_cluster");
                    }
                    self.trace.hit("mutation");
                }
                self.files[k].as_mut().unwrap().dirty = true;
                self.trace.hit("truncate");
            }
        }
        if self.cfg.flush_each {
            self.flush_slot(k)?;
        }
        Ok(true)
    }

    fn op_flush(&mut self, h: u8) -> VResult<bool> {
        let k = h as usize % NSLOTS;
        if self.files[k].is_none() {
            return Ok(false);
        }
        self.flush_slot(k)?;
        self.trace.hit("flush");
        Ok(true)
    }

    fn op_clone_swap(&mut self, h: u8) -> VResult<bool> {
        let k = h as usize % NSLOTS;
        if self.files[k].is_none() {
            return Ok(false);
        }
        // the clone carries the position and the pending entry changes of the original; dropping the original writes
        // its entry back and flushes the device like the drop of any handle (a flush point of its own)
        self.call("clone the file handle and drop the original", |s| {
            let orig = s.files[k].take().unwrap();
            let c = orig.clone();
            drop(orig);
            s.files[k] = Some(c);
        })?;
        if self.crash {
            if let Some((n, c)) = self.files[k].as_ref().map(|f| (f.node, f.set_created)) {
                self.record_flush_event(n, c);
            }
        }
        self.trace.hit("clone_swap");
        Ok(true)
    }

    fn op_flush_retry(&mut self, h: u8, fault_k: u16, interrupted: bool) -> VResult<bool> {
        let k = h as usize % NSLOTS;
        if self.files[k].is_none() {
            return Ok(false);
        }
        self.dev.with(|d| {
            d.fail_at = Some(d.calls + 1 + fault_k as u64);
            d.fail_tag = 0xFA17;
            d.fired = None;
            d.fail_kind = None;
            d.fail_interrupted = interrupted;
            d.fail_burst = 0;
        });
        let first = self.call("flush with a transient fault", |s| session::file_flush(s.files[k].as_mut().unwrap()))?;
        let fired = self.dev.with(|d| {
            let f = d.fired.is_some();
            d.fail_at = None;
            d.fired = None;
            d.fail_interrupted = false;
            f
        });
        match first {
            Err(ref e) if fired && ek(e) == EK::Io => {
                // reported: the caller flushes again, now on a storage that works
                self.trace.hit("flush_failed_with_injected_fault_then_retried");
                self.flush_slot(k)?;
            }
            Err(e) => {
                self.lib_err = true;
                if self.cfg.wants(Aspect::File) {
                    return Err(self.viol(Aspect::File, format!("flush failed with {:?} (injected fault fired: {})", ek(&e), fired)));
                }
            }
            Ok(()) => {
                // the fault was not reached, was retried inside the library (interrupted) - or was swallowed: either way
                // the flush claims success and is judged as one
                if fired {
                    self.trace.hit("flush_survived_injected_fault");
                }
                if let Some(f) = self.files[k].as_mut() {
                    f.dirty = false;
                }
                if self.crash {
                    if let Some((n, c)) = self.files[k].as_ref().map(|f| (f.node, f.set_created)) {
                        self.record_flush_event(n, c);
                    }
                }
            }
        }
        self.trace.hit("flush");
        Ok(true)
    }

    fn op_set_times(&mut self, h: u8, which: u8, ms: u64) -> VResult<bool> {
        let k = h as usize % NSLOTS;
        let Some(mf) = self.files[k].clone() else { return Ok(false) };
        let t = Ts::from_ms(ms.min(Ts::MAX_MS));
        let which = which % 3;
        self.call("set_times", |s| {
            let f = s.files[k].as_mut().unwrap();
            let date = fatfs::Date::new(t.y, t.mo, t.d);
            let dt = fatfs::DateTime::new(date, fatfs::Time::new(t.h, t.mi, t.s, t.ms));
            match which {
                0 => f.set_created(dt),
                1 => f.set_modified(dt),
                _ => f.set_accessed(date),
            }
        })?;
        let nd = self.model.node_mut(mf.node);
        match which {
            0 => nd.created = t.floor_10ms(),
            1 => nd.modified = t.floor_2s(),
            _ => nd.accessed = t.date_only(),
        }
        if which == 0 {
            self.files[k].as_mut().unwrap().set_created = Some(t.floor_10ms());
        }
        self.files[k].as_mut().unwrap().dirty = true;
        self.trace.hit("set_times");
        if self.cfg.flush_each {
            self.flush_slot(k)?;
        }
        Ok(true)
    }

    fn op_stats(&mut self) -> VResult<bool> {
        let res = self.call("stats", |s| s.fs().stats())?;
        let free = self.free_now();
        match res {
            Err(e) => {
                if self.cfg.wants(Aspect::Stats) {
                    return Err(self.viol(Aspect::Stats, format!("stats failed with {:?}", ek(&e))));
                }
            }
            Ok(st) => {
                self.stats_queried = true;
                if self.cfg.wants(Aspect::Stats) {
                    if st.free_clusters() as u64 != free {
                        return Err(self.viol(Aspect::Stats, format!("stats reports {} free clusters, the table has {} free entries", st.free_clusters(), free)));
                    }
                    if st.total_clusters() as u64 != self.geom.clusters || st.cluster_size() as u64 != self.cs() {
                        return Err(self.viol(Aspect::Stats, format!("stats reports total {} / cluster size {}, the volume has {} / {}", st.total_clusters(), st.cluster_size(), self.geom.clusters, self.cs())));
                    }
                }
                if free == 0 {
                    self.trace.hit("stats_at_zero_free");
                }
                self.trace.hit("stats");
            }
        }
        Ok(true)
    }

    fn op_status(&mut self) -> VResult<bool> {
        let _ = self.call("read_status_flags", |s| s.fs().read_status_flags().map(|f| (f.dirty(), f.io_error())))?;
        self.trace.hit("status");
        Ok(true)
    }

    fn op_labels(&mut self) -> VResult<bool> {
        let _ = self.call("labels", |s| {
            let fs = s.fs();
            let _ = fs.volume_label();
            let _ = fs.volume_id();
            let _ = fs.fat_type();
            fs.read_volume_label_from_root_dir().map(|_| ())
        })?;
        self.trace.hit("labels");
        Ok(true)
    }

    fn op_extents(&mut self, h: u8) -> VResult<bool> {
        let k = h as usize % NSLOTS;
        let Some(mf) = self.files[k].clone() else { return Ok(false) };
        if mf.dirty {
            return Ok(false);
        }
        let res = self.call("extents", |s| {
            let f = s.files[k].as_mut().unwrap();
            let v: Result<Vec<fatfs::Extent>, FErr> = f.extents().collect();
            v
        })?;
        if let Ok(ext) = res {
            if self.cfg.wants(Aspect::Remount) || self.cfg.wants(Aspect::File) {
                let mut bytes = Vec::new();
                for e in &ext {
                    bytes.extend_from_slice(&self.dev.with_store(|s| refdec::rdv(s, e.offset, e.size as usize)));
                }
                if &bytes != self.model.data(mf.node) {
                    let a = if self.cfg.wants(Aspect::Remount) { Aspect::Remount } else { Aspect::File };
                    return Err(self.viol(a, format!("device bytes at extents of {} ({} bytes) differ from its content ({} bytes)", self.model.path_of(mf.node), bytes.len(), self.model.data(mf.node).len())));
                }
            }
            self.trace.hit("extents");
        }
        Ok(true)
    }

    pub fn close_all(&mut self) -> VResult<()> {
        for k in 0..NSLOTS {
            self.close_file_slot(k)?;
        }
        for k in 0..NSLOTS {
            self.close_dir_slot(k)?;
        }
        Ok(())
    }

    fn op_remount(&mut self, how: u8) -> VResult<bool> {
        if self.ro_mode {
            self.end_readonly(how % 2 == 1)?;
            // next read-only session on the same volume
            let (cnt, st) = self.dev.with_store(|s| (refdec::rd32(s, self.geom.fsinfo_off() + 488), refdec::rd8(s, self.geom.status_off())));
            self.ro_fsinfo_unusable = self.geom.width == 32 && (cnt == 0xFFFF_FFFF || cnt as u64 > self.geom.clusters || st & 1 != 0);
            self.dev.with(|d| d.log.clear());
            self.trace.classes.remove("fsinfo_count_stored");
            self.mount()?;
            self.check_readonly("mount")?;
            self.trace.hit("ro_remount");
            return Ok(true);
        }
        self.close_all()?;
        if self.cfg.checkpoint {
            self.checkpoint("before unmount")?;
        }
        let free = self.free_now();
        let sess = self.sess.take().unwrap();
        let queried = self.stats_queried;
        let by_drop = how % 2 == 1;
        // C05: power cut in the middle of the unmount (every prefix of its device writes), see below
        let watch_order = self.cfg.wants(Aspect::Dirty) && self.cfg.dirty && !self.crash;
        let watch_unmount = (self.cfg.wants(Aspect::Stats) || watch_order) && !self.crash;
        let pre_unmount = if watch_unmount { Some(self.dev.snapshot()) } else { None };
        let wlog_before = self.dev.with(|d| {
            if watch_unmount {
                d.log_data = true;
            }
            d.wlog.len()
        });
        let r = guard(move || {
            if by_drop {
                drop(sess);
                Ok(())
            } else {
                sess.unmount()
            }
        });
        match r {
            Caught::Panic(p) => return Err(self.viol(Aspect::Panic, format!("unmount panicked: {}", p))),
            Caught::Ok(Err(e)) => {
                if self.cfg.wants(Aspect::Outcome) {
                    return Err(self.viol(Aspect::Outcome, format!("unmount failed with {:?}", ek(&e))));
                }
            }
            Caught::Ok(Ok(())) => {}
        }
        if let Some(pre) = pre_unmount {
            let writes: Vec<(u64, Vec<u8>)> = self.dev.with(|d| {
                d.log_data = false;
                d.wshort.truncate(wlog_before);
                d.wlog.split_off(wlog_before)
            });
            if watch_order {
                self.unmount_write_order(&pre, &writes)?;
            }
            if self.cfg.wants(Aspect::Stats) {
                self.unmount_crash_points(pre, &writes)?;
            }
        }
        self.after_unmount_checks(free, queried)?;
        if self.cfg.regions {
            self.check_canaries()?;
        }
        self.trace.hit(if by_drop { "remount_by_drop" } else { "remount" });
        self.mount()?;
        if self.cfg.checkpoint {
            self.checkpoint("after remount")?;
        }
        Ok(true)
    }

    /// C12: the dirty bit stays set "until the volume is unmounted": the write that clears it is the last thing an
    /// unmount hands to the storage. If a later write of the same unmount still changes the image (the FS-info sector,
    /// say), a power cut between the two leaves a volume that claims to be cleanly unmounted and is not.
    fn unmount_write_order(&mut self, pre: &Store, writes: &[(u64, Vec<u8>)]) -> VResult<()> {
        let st = self.geom.status_off();
        let Some(j) = writes.iter().position(|(o, d)| *o <= st && st < *o + d.len() as u64 && (d[(st - *o) as usize] & 1) == 0 && (refdec::rd8(pre, st) & 1) == 1) else { return Ok(()) };
        let mut img = pre.clone();
        for (o, d) in &writes[..=j] {
            img.write_at(*o, d);
        }
        for (i, (o, d)) in writes.iter().enumerate().skip(j + 1) {
            let cur = refdec::rdv(&img, *o, d.len());
            if cur != *d {
                return Err(self.viol(Aspect::Dirty, format!("unmount cleared the dirty bit with its device write {} of {} and then still changed {} bytes at offset {} (write {}): a power cut in between leaves a volume marked clean whose unmount was not complete", j + 1, writes.len(), d.len(), o, i + 1)));
            }
            img.write_at(*o, d);
        }
        self.trace.hit("unmount_write_order_checked");
        Ok(())
    }

    /// C05: "the count reported by the statistics call ALWAYS equals the number of free entries in the on-disk table".
    /// The unmount writes the FS-info sector and clears the dirty bit; if power is lost after any prefix of those
    /// device writes, the next session must still report the table's count (it either finds the volume dirty and
    /// recounts, or finds it clean together with an information sector that is already up to date).
    fn unmount_crash_points(&mut self, pre: Store, writes: &[(u64, Vec<u8>)]) -> VResult<()> {
        // (on volumes with millions of clusters the recount a dirty mount triggers is legitimately long: skipped there)
        if writes.is_empty() || writes.len() > 64 || self.geom.clusters > 200_000 {
            return Ok(());
        }
        let mut img = pre;
        for p in 0..writes.len() {
            // image after the first p writes (p = 0: nothing of the unmount reached the storage)
            if p > 0 {
                let (o, d) = &writes[p - 1];
                img.write_at(*o, d);
            }
            let table_free = self.geom.count_free(&img);
            let dev2 = MemDev::new(img.clone());
            let clock2 = Clock::new(self.clock.now_ms());
            let r = guard(move || {
                let s2 = Session::mount(&dev2, &clock2, &MountOpts::default()).map_err(|e| format!("mount: {:?}", e))?;
                let f = s2.fs().stats().map(|st| st.free_clusters() as u64).map_err(|e| format!("stats: {:?}", e));
                s2.abandon();
                f
            });
            self.trace.hit("unmount_crash_point_checked");
            match r {
                Caught::Ok(Ok(f)) if f == table_free => {}
                Caught::Ok(Ok(f)) => {
                    return Err(self.viol(Aspect::Stats, format!("power cut during unmount after {} of its {} device writes: the next session's stats() reports {} free clusters, the table has {}", p, writes.len(), f, table_free)));
                }
                Caught::Ok(Err(e)) => return Err(self.viol(Aspect::Stats, format!("power cut during unmount after {} of its {} device writes: {}", p, writes.len(), e))),
                Caught::Panic(pm) => return Err(self.viol(Aspect::Panic, format!("power cut during unmount after {} of {} device writes: remount panicked: {}", p, writes.len(), pm))),
            }
        }
        Ok(())
    }

    /// C04: with all handles dropped, the session's own recursive listing must equal (a) the listing of a second
    /// FileSystem mounted on a copy of the raw bytes and (b) refdec's decode of the raw bytes; and for every file the
    /// device bytes at File::extents() must reproduce its content. Independent of the reference model.
    fn checkpoint(&mut self, when: &str) -> VResult<()> {
        if self.vol.access_date {
            // reading the files for the listing stamps their access date; do that once before the real pass
            let _ = self.call("checkpoint pre-listing", |s| {
                let d = s.root();
                session::lib_tree(&d, true, &|_| false, "/", 0)
            })?;
            self.note_listing_read(0);
        }
        let res = self.call("checkpoint listing", |s| {
            let d = s.root();
            session::lib_tree(&d, true, &|_| false, "/", 0)
        })?;
        let lt = match res {
            Ok(t) => t,
            Err(e) => return Err(self.viol(Aspect::Remount, format!("checkpoint {}: the session cannot list its own tree: {}", when, e))),
        };
        let snap = self.dev.snapshot();
        // (b) independent decode
        match refdec::decode(&snap, refdec::DecodeOpts::default()) {
            Ok(dec) => {
                let rt = tree::refdec_tree(&dec);
                if let Err(e) = tree::compare("the session", &lt, "the independent decode", &rt, CmpMask::ALL, "/") {
                    return Err(self.viol(Aspect::Remount, format!("checkpoint {}: {}", when, e)));
                }
            }
            Err(e) => return Err(self.viol(Aspect::Remount, format!("checkpoint {}: raw image does not decode: {}", when, e))),
        }
        // (a) second mount on a copy
        let dev2 = MemDev::new(snap);
        let clock2 = Clock::new(self.clock.now_ms());
        let mo = MountOpts { access_date: false, strict: true };
        let r2 = guard(|| {
            let s2 = Session::mount(&dev2, &clock2, &mo).map_err(|e| format!("second mount failed: {:?}", e))?;
            let d = s2.root();
            let t = session::lib_tree(&d, true, &|_| false, "/", 0);
            drop(d);
            s2.abandon();
            t
        });
        match r2 {
            Caught::Panic(p) => return Err(self.viol(Aspect::Remount, format!("checkpoint {}: second mount panicked: {}", when, p))),
            Caught::Ok(Err(e)) => return Err(self.viol(Aspect::Remount, format!("checkpoint {}: {}", when, e))),
            Caught::Ok(Ok(t2)) => {
                if let Err(e) = tree::compare("the session", &lt, "a fresh mount of the same bytes", &t2, CmpMask::ALL, "/") {
                    return Err(self.viol(Aspect::Remount, format!("checkpoint {}: {}", when, e)));
                }
            }
        }
        // extents
        let mut files: Vec<(String, Vec<u8>)> = Vec::new();
        fn collect(v: &[tree::TNode], path: &str, out: &mut Vec<(String, Vec<u8>)>) {
            for n in v {
                if n.short == b"." || n.short == b".." {
                    continue;
                }
                let p = format!("{}/{}", path, n.name_string());
                if n.is_dir {
                    collect(&n.children, &p, out);
                } else if let Some(d) = &n.data {
                    out.push((p, d.clone()));
                }
            }
        }
        collect(&lt, "", &mut files);
        for (p, data) in files.iter().take(12) {
            let pp = p.clone();
            let res = self.call("extents", |s| {
                let mut f = s.root().open_file(&pp)?;
                let v: Result<Vec<fatfs::Extent>, FErr> = f.extents().collect();
                v
            })?;
            match res {
                Ok(ext) => {
                    let mut bytes = Vec::new();
                    for e in &ext {
                        if e.offset + e.size as u64 > self.geom.volume_bytes() {
                            return Err(self.viol(Aspect::Remount, format!("checkpoint {}: extent of {} lies outside the volume", when, p)));
                        }
                        bytes.extend_from_slice(&self.dev.with_store(|s| refdec::rdv(s, e.offset, e.size as usize)));
                    }
                    if &bytes != data {
                        return Err(self.viol(Aspect::Remount, format!("checkpoint {}: device bytes at the extents of {} ({} bytes) differ from its content ({} bytes)", when, p, bytes.len(), data.len())));
                    }
                    self.trace.hit("extents_checked");
                }
                Err(e) => return Err(self.viol(Aspect::Remount, format!("checkpoint {}: extents of {} failed: {:?}", when, p, ek(&e)))),
            }
        }
        self.trace.hit("checkpoint");
        Ok(())
    }

    /// checks on the raw image right after a clean unmount
    pub fn after_unmount_checks(&mut self, free: u64, stats_queried: bool) -> VResult<()> {
        if self.cfg.wants(Aspect::Dirty) && self.cfg.dirty {
            let b = self.dev.with_store(|s| refdec::rd8(s, self.geom.status_off()));
            if b != self.status_at_mount {
                return Err(self.viol(Aspect::Dirty, format!("status byte after unmount is {:#04x}, at mount it was {:#04x}", b, self.status_at_mount)));
            }
        }
        if self.cfg.wants(Aspect::Stats) && self.geom.width == 32 {
            let (l, s2, cnt, nxt, t) = self.dev.with_store(|s| refdec::fsinfo(s, &self.geom));
            if l != 0x4161_5252 || s2 != 0x6141_7272 || t != 0xAA55_0000 {
                return Err(self.viol(Aspect::Stats, "FS-info signatures damaged after unmount".into()));
            }
            if stats_queried && cnt as u64 != free {
                return Err(self.viol(Aspect::Stats, format!("FS-info free count after unmount is {}, the table has {} free entries", cnt, free)));
            }
            // A volume that was dirty at mount has, by the library's documented rule, an untrusted count that the
            // session ignores; unless stats() recomputed it the stored value is nobody's claim.
            let untrusted = self.status_at_mount & 1 != 0;
            if !stats_queried && !untrusted && cnt != 0xFFFF_FFFF && cnt as u64 != free {
                return Err(self.viol(Aspect::Stats, format!("FS-info free count after unmount is {}, the table has {} free entries", cnt, free)));
            }
            // the hint is judged only when the session stored new values (a foreign volume may come with a bad hint)
            let rewritten = (cnt, nxt) != self.fsinfo_at_mount;
            if rewritten && nxt != 0xFFFF_FFFF && (nxt < 2 || nxt as u64 > self.geom.clusters + 1) {
                return Err(self.viol(Aspect::Stats, format!("FS-info next-free hint after unmount is {}, outside 2..={}", nxt, self.geom.clusters + 1)));
            }
        }
        Ok(())
    }

    // ---------------------------------------------------------------------------------------------
    // oracles evaluated after every step

    fn after_step(&mut self, op: &Op, wrote: bool, pre_dec: Option<Decoded>) -> VResult<()> {
        if self.sess.is_none() {
            return Ok(());
        }
        if self.cfg.stats_each {
            self.op_stats()?;
        }
        let dirty_handles = self.any_dirty();
        let need_decode = self.cfg.wants(Aspect::Fsck) || self.cfg.wants(Aspect::Tree) || self.cfg.wants(Aspect::Times) || self.cfg.regions || wrote || self.last_dec.is_none();
        if need_decode {
            let dec = self.dev.with_store(|s| refdec::decode(s, refdec::DecodeOpts::default()));
            let dec = match dec {
                Ok(d) => d,
                Err(e) => {
                    if self.cfg.wants(Aspect::Fsck) {
                        return Err(self.viol(Aspect::Fsck, format!("the boot sector no longer parses: {}", e)));
                    }
                    return Ok(());
                }
            };
            if !dirty_handles {
                if self.cfg.wants(Aspect::Fsck) {
                    let bad: Vec<&refdec::Finding> = dec.findings.iter().filter(|f| self.cfg.fsck_kinds.contains(&f.kind)).collect();
                    if let Some(f) = bad.first() {
                        return Err(self.viol(Aspect::Fsck, format!("after {:?}: {:?}: {}", op, f.kind, f.what)));
                    }
                }
                self.model.sync_aliases(&dec);
                if self.cfg.wants(Aspect::Tree) {
                    if let Some(m) = self.model.alias_outside_the_tree() {
                        return Err(self.viol(Aspect::Tree, format!("after {:?}: {}", op, m)));
                    }
                }
                if self.cfg.wants(Aspect::Tree) || self.cfg.wants(Aspect::Times) {
                    let rt = tree::refdec_tree(&dec);
                    let mt = self.model.tnodes(0, true);
                    let mask = CmpMask { short: false, attr: true, size: true, times: false, data: true, dots: true, dir_times: true };
                    if self.cfg.wants(Aspect::Tree) {
                        if let Err(e) = tree::compare("the raw image", &rt, "the model", &mt, mask, "/") {
                            return Err(self.viol(Aspect::Tree, format!("after {:?}: {}", op, e)));
                        }
                    }
                    if self.cfg.wants(Aspect::Times) {
                        self.check_times(&rt, 0, "/")?;
                    }
                }
            } else {
                self.model.sync_aliases(&dec);
            }
            if self.cfg.regions {
                if self.cfg.placement {
                    self.check_placement(op, pre_dec.as_ref(), &dec)?;
                }
                self.check_regions(op, pre_dec.as_ref(), &dec)?;
            }
            if let Some(l) = &self.vol.large {
                let g = &self.geom;
                let mut low = false;
                for (c, o) in dec.owner.iter() {
                    if *o == 0 {
                        continue;
                    }
                    let off = g.cluster_off(*c);
                    if off >= 1 << 32 {
                        self.trace.hit("data_cluster_beyond_4g");
                    }
                    if off >= 1 << 40 {
                        self.trace.hit("data_cluster_beyond_1t");
                    }
                    if *c == g.max_cluster() {
                        self.trace.hit("last_cluster_used");
                    }
                    if (*c as u64) < g.clusters / 2 {
                        low = true;
                    }
                }
                if low && l.hint_rel.map_or(false, |r| r <= 0) {
                    self.trace.hit("alloc_wrapped");
                }
            }
            self.last_dec = Some(dec);
        }
        if self.cfg.cmp_lib_every && self.cfg.wants(Aspect::Tree) && !dirty_handles {
            self.op_list(0)?;
        }
        if self.cfg.wants(Aspect::Large) {
            let vb = self.geom.volume_bytes();
            let (hr, hw, pe) = self.dev.with(|d| (d.hi_read, d.hi_write, d.past_end));
            if hw > vb || hr > vb || pe {
                return Err(self.viol(Aspect::Large, format!("after {:?}: the device was addressed beyond the declared end of the volume ({} bytes): highest read {}, highest write {}", op, vb, hr, hw)));
            }
        }
        if self.cfg.fatcopies {
            self.check_fat_copies(op)?;
        }
        if self.cfg.dirty {
            self.check_dirty(op)?;
        }
        Ok(())
    }

    fn check_times(&self, rt: &[tree::TNode], d: Nid, path: &str) -> VResult<()> {
        for c in self.model.children(d) {
            let n = self.model.node(*c);
            let units: Vec<u16> = n.name.encode_utf16().collect();
            let Some(r) = rt.iter().find(|r| r.name == units) else { continue };
            let p = if path == "/" { format!("/{}", n.name) } else { format!("{}/{}", path, n.name) };
            // deferred write-back: the entry of a file with a live handle lags behind until flush / drop
            let lagging = !self.cfg.flush_each && !n.is_dir() && self.node_has_handle(*c);
            if n.times_known && !lagging {
                if r.created != n.created {
                    return Err(self.viol(Aspect::Times, format!("{}: created on disk {:?}, model {:?}", p, r.created, n.created)));
                }
                if r.modified != n.modified {
                    return Err(self.viol(Aspect::Times, format!("{}: modified on disk {:?}, model {:?}", p, r.modified, n.modified)));
                }
                if r.accessed != n.accessed {
                    return Err(self.viol(Aspect::Times, format!("{}: accessed on disk {:?}, model {:?}", p, r.accessed, n.accessed)));
                }
            }
            if n.is_dir() {
                self.check_times(&r.children, *c, &p)?;
            }
        }
        Ok(())
    }

    fn check_fat_copies(&mut self, op: &Op) -> VResult<()> {
        let g = &self.geom;
        let fb = g.fat_bytes() as usize;
        let copies: Vec<Vec<u8>> = (0..g.nfats).map(|c| self.dev.with_store(|s| refdec::rdv(s, g.fat_off(c), fb))).collect();
        if g.mirrored() {
            for c in 1..copies.len() {
                if copies[c] != copies[0] {
                    let p = copies[c].iter().zip(copies[0].iter()).position(|(a, b)| a != b).unwrap();
                    return Err(self.viol(Aspect::FatCopies, format!("after {:?}: FAT copy {} differs from copy 0 at table byte {}", op, c, p)));
                }
            }
        } else if let Some(mi) = &self.mount_image {
            let act = g.active_copy();
            for c in 0..g.nfats {
                if c == act {
                    continue;
                }
                let orig = refdec::rdv(mi, g.fat_off(c), fb);
                if orig != copies[c as usize] {
                    return Err(self.viol(Aspect::FatCopies, format!("after {:?}: inactive FAT copy {} was written", op, c)));
                }
            }
        }
        if let Some(mi) = &self.mount_image {
            let act = g.active_copy();
            for n in 0..2u32 {
                let a = g.fat_raw(mi, act, n);
                let b = self.dev.with_store(|s| g.fat_raw(s, act, n));
                if a != b {
                    return Err(self.viol(Aspect::FatCopies, format!("after {:?}: reserved FAT entry {} changed from {:#x} to {:#x}", op, n, a, b)));
                }
            }
            // entries past the last cluster must not change; FAT32 high nibbles must survive
            let cap = g.fat_capacity().min(g.clusters + 2 + 4096);
            for n in (g.clusters + 2)..cap {
                let a = g.fat_raw(mi, act, n as u32);
                let b = self.dev.with_store(|s| g.fat_raw(s, act, n as u32));
                if a != b {
                    return Err(self.viol(Aspect::FatCopies, format!("after {:?}: padding FAT entry {} (past the last cluster {}) changed from {:#x} to {:#x}", op, n, g.clusters + 1, a, b)));
                }
            }
            if g.width == 32 {
                let orig = refdec::rdv(mi, g.fat_off(act), fb);
                let cur = &copies[act as usize];
                for n in 0..(g.clusters + 2) as usize {
                    if orig[4 * n + 3] & 0xF0 != cur[4 * n + 3] & 0xF0 {
                        return Err(self.viol(Aspect::FatCopies, format!("after {:?}: reserved high bits of FAT32 entry {} changed from {:#x} to {:#x}", op, n, orig[4 * n + 3] >> 4, cur[4 * n + 3] >> 4)));
                    }
                }
            }
        }
        Ok(())
    }

    /// C12: "changed" is decided by diffing the raw image against the mount-time image outside the status
    /// byte, the FS-info sector and the timestamp fields of directory slots
    fn check_dirty(&mut self, op: &Op) -> VResult<()> {
        let Some(mi) = &self.mount_image else { return Ok(()) };
        let g = &self.geom;
        let cur = self.dev.snapshot();
        let status_now = refdec::rd8(&cur, g.status_off());
        if status_now & self.status_at_mount != self.status_at_mount {
            return Err(self.viol(Aspect::Dirty, format!("after {:?}: status byte {:#04x} lost bits that were set at mount ({:#04x})", op, status_now, self.status_at_mount)));
        }
        if status_now & 1 != 0 {
            // abandonment at this boundary: a fresh mount of the bytes as they are must report the volume dirty
            if self.step % 3 == 0 {
                let dev2 = MemDev::new(cur);
                let clock2 = Clock::new(self.clock.now_ms());
                let r = guard(|| {
                    let s2 = Session::mount(&dev2, &clock2, &MountOpts::default()).map_err(|e| format!("{:?}", e))?;
                    let f = s2.fs().read_status_flags().map(|f| f.dirty()).map_err(|e| format!("{:?}", e));
                    s2.abandon();
                    f
                });
                match r {
                    Caught::Ok(Ok(true)) => {
                        self.trace.hit("abandoned_mount_reports_dirty");
                    }
                    Caught::Ok(Ok(false)) => return Err(self.viol(Aspect::Dirty, format!("after {:?}: the image abandoned here has status byte {:#04x} but a fresh mount does not report it dirty", op, status_now))),
                    Caught::Ok(Err(e)) => return Err(self.viol(Aspect::Dirty, format!("after {:?}: the image abandoned here cannot be mounted: {}", op, e))),
                    Caught::Panic(p) => return Err(self.viol(Aspect::Dirty, format!("after {:?}: mounting the abandoned image panicked: {}", op, p))),
                }
            }
            return Ok(());
        }
        // not marked dirty: nothing structural may have changed
        let changed = structural_change(mi, &cur, g);
        if let Some(what) = changed {
            return Err(self.viol(Aspect::Dirty, format!("after {:?}: {} but the dirty bit is clear (status byte {:#04x})", op, what, status_now)));
        }
        Ok(())
    }

    /// Where allocations land. The library keeps a next-free hint (FAT32: loaded from the information sector when it
    /// names a cluster of the volume; otherwise none), starts every search for a free cluster there, wraps from the
    /// last cluster to cluster 2, and moves the hint behind each cluster it hands out. The clusters an operation
    /// newly owns (free before, owned after) are replayed against that rule in chain order (writes) or in whichever
    /// order fits (operations that allocate for two objects).
    fn check_placement(&mut self, op: &Op, pre: Option<&Decoded>, post: &Decoded) -> VResult<()> {
        let Some(pre) = pre else {
            self.alloc_hint = Hint::Unknown;
            return Ok(());
        };
        let maxc = self.geom.max_cluster();
        let mut new: Vec<u32> = post.owner.keys().copied().filter(|c| pre.fat.get(*c) == 0).collect();
        new.sort();
        if new.is_empty() && !self.lib_err {
            return Ok(());
        }
        let freed = pre.owner.keys().any(|c| post.fat.get(*c) == 0);
        if self.lib_err || freed || matches!(op, Op::WriteRetry { .. } | Op::FlushRetry { .. }) {
            // a failed call may have allocated and released again (the hint moved, the table does not show it); a call
            // that also releases clusters may do so before or after it allocates
            self.alloc_hint = Hint::Unknown;
            self.trace.hit("placement_hint_lost");
            return Ok(());
        }
        let orders: Vec<Vec<u32>> = match op {
            Op::Write { h, .. } => {
                let k = *h as usize % NSLOTS;
                let path = self.files[k].as_ref().map(|f| self.model.path_of(f.node));
                let chain = path.and_then(|p| post.objects.iter().find(|o| !o.is_dir && fold_path(&o.path) == fold_path(&p)).map(|o| o.clusters.clone()));
                match chain {
                    Some(ch) => {
                        let v: Vec<u32> = ch.into_iter().filter(|c| new.contains(c)).collect();
                        if v.len() != new.len() {
                            self.alloc_hint = Hint::Unknown;
                            return Ok(());
                        }
                        vec![v]
                    }
                    None => {
                        self.alloc_hint = Hint::Unknown;
                        return Ok(());
                    }
                }
            }
            _ if new.len() == 1 => vec![new.clone()],
            _ if new.len() == 2 => vec![vec![new[0], new[1]], vec![new[1], new[0]]],
            _ if new.len() == 3 => {
                let (a, b, c) = (new[0], new[1], new[2]);
                vec![vec![a, b, c], vec![a, c, b], vec![b, a, c], vec![b, c, a], vec![c, a, b], vec![c, b, a]]
            }
            _ => {
                self.alloc_hint = Hint::Unknown;
                return Ok(());
            }
        };
        let next_of = |c: u32| if c + 1 <= maxc { c + 1 } else { 2 };
        // Ok(final hint) or Err((cluster, start, expected))
        let simulate = |order: &[u32], start_hint: Hint| -> Result<Hint, (u32, u32, Option<u32>)> {
            let mut h = start_hint;
            let mut taken: Vec<u32> = Vec::new();
            for &c in order {
                let start = match h {
                    Hint::Known(Some(n)) => n,
                    Hint::Known(None) => 2,
                    Hint::Unknown => {
                        taken.push(c);
                        h = Hint::Known(Some(next_of(c)));
                        continue;
                    }
                };
                let mut expected = None;
                let mut steps = 0u64;
                let mut i = start;
                loop {
                    if pre.fat.get(i) == 0 && !taken.contains(&i) {
                        expected = Some(i);
                        break;
                    }
                    i = next_of(i);
                    steps += 1;
                    if i == start || steps > 8_000_000 {
                        break;
                    }
                }
                if steps > 8_000_000 {
                    return Ok(Hint::Unknown);
                }
                if expected != Some(c) {
                    return Err((c, start, expected));
                }
                taken.push(c);
                h = Hint::Known(Some(next_of(c)));
            }
            Ok(h)
        };
        let results: Vec<Result<Hint, (u32, u32, Option<u32>)>> = orders.iter().map(|o| simulate(o, self.alloc_hint)).collect();
        let oks: Vec<Hint> = results.iter().filter_map(|r| r.as_ref().ok().copied()).collect();
        if oks.is_empty() {
            let (c, start, expected) = results[0].clone().err().unwrap();
            return Err(self.viol(
                Aspect::Large,
                format!("{:?} allocated cluster {} (last cluster of the volume: {}), but a search that starts at the next-free hint {} and wraps from the last cluster to cluster 2 reaches {} first", op, c, maxc, start, expected.map_or("no free cluster at all".to_string(), |e| format!("the free cluster {}", e))),
            ));
        }
        self.alloc_hint = if oks.iter().all(|h| *h == oks[0]) { oks[0] } else { Hint::Unknown };
        self.trace.hit("placement_checked_op");
        if new.iter().any(|c| *c == maxc) {
            self.trace.hit("placement_last_cluster_allocated");
        }
        Ok(())
    }

    fn check_regions(&mut self, op: &Op, pre: Option<&Decoded>, post: &Decoded) -> VResult<()> {
        let log: Vec<crate::dev::Call> = self.dev.with(|d| std::mem::take(&mut d.log));
        self.dev.with(|d| d.log_calls = false);
        let Some(pre_dec) = pre else { return Ok(()) };
        let g = &self.geom;
        // what the op may touch: paths named by the op
        let (paths, handle_nodes) = self.op_scope(op);
        for c in log.iter().filter(|c| c.kind == Kind::Write && c.len > 0) {
            let (s, e) = (c.off, c.off + c.len);
            if e > g.volume_bytes() {
                return Err(self.viol(Aspect::Regions, format!("{:?} wrote [{}, {}) past the declared end of the volume ({})", op, s, e, g.volume_bytes())));
            }
            let mut o = s;
            while o < e {
                let (class, next) = classify(g, o);
                let upto = next.min(e);
                match class {
                    Region::Status | Region::FsInfo | Region::Fat | Region::Root => {}
                    Region::Boot => return Err(self.viol(Aspect::Regions, format!("{:?} wrote [{}, {}) into the boot sector outside the status byte", op, o, upto))),
                    Region::Reserved => return Err(self.viol(Aspect::Regions, format!("{:?} wrote [{}, {}) into a reserved sector", op, o, upto))),
                    Region::Slack => return Err(self.viol(Aspect::Regions, format!("{:?} wrote [{}, {}) into the slack after the last cluster", op, o, upto))),
                    Region::Cluster(n) => {
                        let owner_pre = pre_dec.owner.get(&n).map(|i| &pre_dec.objects[*i]);
                        let owner_post = post.owner.get(&n).map(|i| &post.objects[*i]);
                        let free_before = pre_dec.fat.get(n) == 0;
                        let allowed = free_before
                            || [owner_pre, owner_post].iter().flatten().any(|ob| {
                                if ob.is_dir {
                                    // a directory being updated: on one of the op's paths (any prefix), or parent of a handle's file
                                    paths.iter().any(|p| path_is_prefix(&ob.path, p)) || handle_nodes.iter().any(|hp| parent_path(hp) == ob.path)
                                } else {
                                    handle_nodes.iter().any(|hp| *hp == ob.path) || paths.iter().any(|p| fold_path(p) == fold_path(&ob.path))
                                }
                            });
                        if !allowed {
                            let who = owner_pre.or(owner_post).map(|o| o.path.clone()).unwrap_or_else(|| "nobody (allocated, unowned)".into());
                            return Err(self.viol(Aspect::Regions, format!("{:?} wrote [{}, {}) into cluster {} owned by {}", op, o, upto, n, who)));
                        }
                    }
                }
                o = upto;
            }
        }
        self.trace.hit("region_checked_op");
        Ok(())
    }

    /// absolute model paths an op names (for directories: every directory on those paths may be updated),
    /// and paths of files whose handle the op uses
    fn op_scope(&self, op: &Op) -> (Vec<String>, Vec<String>) {
        // resolve the path through the model (components may be given by alias or in another case) so that the
        // scope names objects the way the decoder's ownership map does
        let abs = |via: u8, p: &str| -> String {
            let mut node = self.via_node(via);
            let comps: Vec<&str> = p.split('/').filter(|c| !c.is_empty()).collect();
            let mut s = self.model.path_of(node);
            if s == "/" {
                s = String::new();
            }
            let mut resolving = true;
            for c in comps {
                if resolving {
                    match self.model.lookup(node, c) {
                        Some(n) => {
                            node = n;
                            s = self.model.path_of(n);
                            continue;
                        }
                        None => resolving = false,
                    }
                }
                s.push('/');
                s.push_str(c);
            }
            if s.is_empty() {
                "/".into()
            } else {
                s
            }
        };
        let hp = |h: u8| -> Vec<String> { self.files[h as usize % NSLOTS].as_ref().map(|f| vec![self.model.path_of(f.node)]).unwrap_or_default() };
        // any file handle may flush its entry when it is dropped or replaced: every open handle is in scope for
        // ops that drop handles
        let all_handles: Vec<String> = self.files.iter().flatten().map(|f| self.model.path_of(f.node)).collect();
        match op {
            Op::CreateFile { via, path, .. } | Op::CreateDir { via, path, .. } | Op::OpenFile { via, path, .. } | Op::OpenDir { via, path, .. } | Op::Remove { via, path } => (vec![abs(*via, path)], all_handles),
            Op::Rename { via, src, dvia, dst } => (vec![abs(*via, src), abs(*dvia, dst)], vec![]),
            Op::Read { h, .. } | Op::Write { h, .. } | Op::WriteRetry { h, .. } | Op::Seek { h, .. } | Op::Truncate { h } | Op::Flush { h } | Op::CloneSwap { h } | Op::FlushRetry { h, .. } | Op::SetTimes { h, .. } | Op::CloseFile { h } | Op::Extents { h } => (vec![], hp(*h)),
            Op::Remount { .. } => (vec![], all_handles),
            _ => (vec![], vec![]),
        }
    }

    /// final checks at the end of a history: close everything, compare all three views, unmount
    pub fn finish(&mut self) -> VResult<()> {
        if self.sess.is_none() {
            return Ok(());
        }
        self.step += 1;
        self.close_all()?;
        if self.cfg.checkpoint {
            self.checkpoint("at the end, before unmount")?;
        }
        let dec = self.dev.with_store(|s| refdec::decode(s, refdec::DecodeOpts::default()));
        if let Ok(dec) = dec {
            if self.cfg.wants(Aspect::Fsck) {
                if let Some(f) = dec.findings.iter().find(|f| self.cfg.fsck_kinds.contains(&f.kind)) {
                    return Err(self.viol(Aspect::Fsck, format!("at the end of the history: {:?}: {}", f.kind, f.what)));
                }
            }
            self.model.sync_aliases(&dec);
            if self.cfg.wants(Aspect::Tree) || self.cfg.wants(Aspect::File) {
                let rt = tree::refdec_tree(&dec);
                let mt = self.model.tnodes(0, true);
                let mask = CmpMask { short: false, attr: true, size: true, times: false, data: true, dots: true, dir_times: true };
                if let Err(e) = tree::compare("the raw image", &rt, "the model", &mt, mask, "/") {
                    let a = if self.cfg.wants(Aspect::Tree) { Aspect::Tree } else { Aspect::File };
                    return Err(self.viol(a, format!("at the end of the history: {}", e)));
                }
                let res = self.call("final listing", |s| {
                    let d = s.root();
                    session::lib_tree(&d, true, &|_| false, "/", 0)
                })?;
                self.note_listing_read(0);
                match res {
                    Ok(lt) => {
                        if let Err(e) = tree::compare("the library", &lt, "the model", &mt, mask, "/") {
                            let a = if self.cfg.wants(Aspect::Tree) { Aspect::Tree } else { Aspect::File };
                            return Err(self.viol(a, format!("at the end of the history: {}", e)));
                        }
                    }
                    Err(e) => {
                        if self.cfg.wants(Aspect::Tree) {
                            return Err(self.viol(Aspect::Tree, e));
                        }
                    }
                }
            }
            self.last_dec = Some(dec);
        }
        if self.cfg.stats_each {
            self.op_stats()?;
        }
        let free = self.free_now();
        let sess = self.sess.take().unwrap();
        match guard(move || sess.unmount()) {
            Caught::Panic(p) => return Err(self.viol(Aspect::Panic, format!("unmount panicked: {}", p))),
            Caught::Ok(Err(e)) => {
                if self.cfg.wants(Aspect::Outcome) {
                    return Err(self.viol(Aspect::Outcome, format!("unmount failed with {:?}", ek(&e))));
                }
            }
            Caught::Ok(Ok(())) => {}
        }
        let q = self.stats_queried;
        self.after_unmount_checks(free, q)?;
        if self.cfg.checkpoint {
            // once more on the unmounted image
            self.mount()?;
            self.checkpoint("after unmount and remount")?;
            let sess = self.sess.take().unwrap();
            let _ = guard(move || sess.unmount());
        }
        if self.cfg.regions {
            self.check_canaries()?;
        }
        Ok(())
    }

    /// bytes after the declared end of the volume and the reserved sectors that hold nothing must be untouched
    fn check_canaries(&mut self) -> VResult<()> {
        let g = self.geom.clone();
        let vb = g.volume_bytes();
        let dl = self.dev.with_store(|s| s.len());
        if dl > vb {
            let tail = self.dev.with_store(|s| refdec::rdv(s, vb, (dl - vb) as usize));
            if let Some(p) = tail.iter().position(|b| *b != vol::CANARY) {
                return Err(self.viol(Aspect::Regions, format!("byte {} after the declared end of the volume was modified", p)));
            }
        }
        if self.boot_at_start.len() == 512 {
            let now = self.dev.with_store(|s| refdec::rdv(s, 0, 512));
            let st = g.status_off() as usize;
            if let Some(p) = (0..512).find(|i| *i != st && now[*i] != self.boot_at_start[*i]) {
                return Err(self.viol(Aspect::Regions, format!("byte {} of the boot sector was modified (only the status byte at {} may change)", p, st)));
            }
        }
        if self.vol.gen.is_some() {
            // imggen fills unused reserved sectors with the canary
            for sec in 1..g.rsvd {
                if g.width == 32 && (sec == g.raw.fs_info as u64 || sec == g.raw.bk_boot_sec as u64) {
                    continue;
                }
                let b = self.dev.with_store(|s| refdec::rdv(s, sec * g.bps, g.bps as usize));
                if b.iter().any(|x| *x != vol::CANARY) {
                    return Err(self.viol(Aspect::Regions, format!("reserved sector {} was modified", sec)));
                }
            }
        }
        if self.dev.with(|d| d.past_end) {
            return Err(self.viol(Aspect::Regions, "an access reached past the end of the device".into()));
        }
        Ok(())
    }
}

fn fold_path(p: &str) -> String {
    refdec::fold(p)
}
fn parent_path(p: &str) -> String {
    match p.rfind('/') {
        Some(0) | None => "/".into(),
        Some(i) => p[..i].to_string(),
    }
}
/// is directory path `dir` a prefix (as a sequence of components, folded) of path `p`, or equal to it
fn path_is_prefix(dir: &str, p: &str) -> bool {
    let d = fold_path(dir);
    let q = fold_path(p);
    if d == "/" {
        return true;
    }
    q == d || q.starts_with(&(d + "/"))
}

#[derive(Clone, Copy, Debug, PartialEq, Eq)]
pub enum Region {
    Boot,
    Status,
    FsInfo,
    Reserved,
    Fat,
    Root,
    Cluster(u32),
    Slack,
}

/// classify byte offset `o` (inside the volume) and return the end of the homogeneous region it lies in
pub fn classify(g: &Geom, o: u64) -> (Region, u64) {
    let so = g.status_off();
    if o < 512 {
        if o == so {
            return (Region::Status, o + 1);
        }
        if o < so {
            return (Region::Boot, so);
        }
        return (Region::Boot, 512);
    }
    let fat0 = g.fat_off(0);
    if o < fat0 {
        if g.width == 32 && g.raw.fs_info != 0 {
            let fi = g.fsinfo_off();
            if o >= fi && o < fi + g.bps {
                return (Region::FsInfo, fi + g.bps);
            }
            if o < fi {
                return (Region::Reserved, fi);
            }
        }
        return (Region::Reserved, fat0);
    }
    let root = g.root_off();
    if o < root {
        return (Region::Fat, root);
    }
    let data = g.data_off();
    if o < data {
        // fixed root area: the entries, and the rest of its last sector
        return (Region::Root, data);
    }
    let cs = g.cluster_size();
    let n = (o - data) / cs;
    if n < g.clusters {
        return (Region::Cluster(n as u32 + 2), data + (n + 1) * cs);
    }
    (Region::Slack, g.volume_bytes())
}

/// Did anything structural change between two images of the same volume? (allocation table, a directory's set
/// of entries, a file's size or cluster, or file data) -- timestamp fields of directory slots, the status byte
/// and the FS-info sector are not structural.
pub fn structural_change(a: &Store, b: &Store, g: &Geom) -> Option<String> {
    // FAT region
    let fat_len = (g.nfats * g.fat_bytes()) as usize;
    let fa = refdec::rdv(a, g.fat_off(0), fat_len);
    let fb = refdec::rdv(b, g.fat_off(0), fat_len);
    if fa != fb {
        let p = fa.iter().zip(fb.iter()).position(|(x, y)| x != y).unwrap();
        return Some(format!("the allocation table changed (table byte {})", p));
    }
    let da = refdec::decode(a, refdec::DecodeOpts::default()).ok()?;
    let db = refdec::decode(b, refdec::DecodeOpts::default()).ok()?;
    fn cmp(a: &DirNode, b: &DirNode, path: &str) -> Option<String> {
        if a.entries.len() != b.entries.len() {
            return Some(format!("the set of entries of {} changed", path));
        }
        for (x, y) in a.entries.iter().zip(b.entries.iter()) {
            if x.short != y.short || x.long != y.long || x.attr != y.attr {
                return Some(format!("an entry of {} changed its name or attributes", path));
            }
            if x.size != y.size || x.first_cluster != y.first_cluster {
                return Some(format!("size or first cluster of {}/{} changed", path, x.visible_string()));
            }
            if x.data != y.data {
                return Some(format!("data of {}/{} changed", path, x.visible_string()));
            }
            if let (Some(cx), Some(cy)) = (&x.child, &y.child) {
                let p = format!("{}/{}", path, x.visible_string());
                if let Some(w) = cmp(cx, cy, &p) {
                    return Some(w);
                }
            }
        }
        None
    }
    cmp(&da.root, &db.root, "")
}

/// Run a whole history. Returns the trace, or the first violation of an aspect the cfg asks for.
pub fn run_history(cfg: &RunCfg, vol: &VolCfg, ops: &[Op]) -> (Trace, Option<Violation>) {
    let mut run = match Run::new(cfg, vol) {
        Ok(r) => r,
        Err(e) => {
            let mut t = Trace::default();
            t.aborted = Some(e.clone());
            return (t, Some(Violation { aspect: Aspect::Harness, step: 0, msg: e }));
        }
    };
    let mut viol = None;
    for (i, op) in ops.iter().enumerate() {
        if let Err(v) = run.exec(i, op) {
            viol = Some(v);
            break;
        }
        if run.sess.is_none() {
            break;
        }
    }
    if viol.is_none() {
        if let Err(v) = run.finish() {
            viol = Some(v);
        }
    }
    let trace = run.trace.clone();
    let viol = viol.filter(|v| cfg.wants(v.aspect) || v.aspect == Aspect::Harness);
    (trace, viol)
}
