use fatfs_verif::vol::{self, VolCfg};
use fatfs_verif::refdec::Geom;
fn main() {
    let v: serde_json::Value = serde_json::from_str(&std::fs::read_to_string(std::env::args().nth(1).unwrap()).unwrap()).unwrap();
    let cfg: VolCfg = serde_json::from_value(v["case"]["vol"].clone()).unwrap();
    let dev = vol::make_device(&cfg).unwrap();
    let g = Geom::parse(&dev.snapshot()).unwrap();
    println!("refdec: clusters {:#x} fatsz {} rsvd {} width {}", g.clusters, g.fatsz, g.rsvd, g.width);
    let clock = fatfs_verif::session::Clock::new(0);
    match fatfs_verif::session::Session::mount(&dev, &clock, &Default::default()) {
        Ok(s) => { println!("library: mounted, fat type {:?}", s.fs().fat_type()); s.abandon(); }
        Err(e) => println!("library: mount failed {:?}", e),
    }
}
