fn main() {
    let v = fatfs_verif::props::c16::same_hash_family_target("zz", " long ", ".log", 16, 5, Some(0xFFFF));
    println!("{} {:?}", v.len(), &v[..v.len().min(3)]);
    let v = fatfs_verif::props::c16::same_hash_family_target("ab", " long ", ".txt", 16, 5, None);
    println!("{} {:?}", v.len(), &v[..v.len().min(3)]);
}
