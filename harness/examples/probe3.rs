use fatfs_verif::ops::{Op, Run, RunCfg, Aspect};
use fatfs_verif::vol::VolCfg;
fn main() {
    let v = VolCfg::from_preset(1);
    let cs = v.cluster_size();
    let ops = vec![
        Op::CreateFile { via: 0, path: "t.bin".into(), keep: 1 },
        Op::Write { h: 0, len: 3 * cs, seed: 1 },
        Op::Flush { h: 0 },
        Op::Seek { h: 0, whence: 0, off: cs as i64 },
        Op::WriteRetry { h: 0, len: 40, seed: 5, k: 0, interrupted: false },
        Op::Flush { h: 0 },
    ];
    let mut rc = RunCfg::new(&[Aspect::Panic]);
    rc.flush_each = false;
    let mut run = Run::new(&rc, &v).unwrap();
    for (i, op) in ops.iter().enumerate() {
        if matches!(op, Op::WriteRetry { .. }) { run.dev.with(|d| { d.log_calls = true; d.log.clear(); }); }
        let r = run.exec(i, op);
        if matches!(op, Op::WriteRetry { .. }) { for c in run.dev.with(|d| d.log.clone()) { println!("{:?}", c); } }
        println!("{:?} -> {:?} trace {:?}", op, r.map_err(|e| e.msg), run.trace.classes.keys().filter(|k| k.contains("write_") || k.contains("fault")).collect::<Vec<_>>());
    }
    let dec = run.dev.with_store(|s| fatfs_verif::refdec::decode(s, fatfs_verif::refdec::DecodeOpts::default())).unwrap();
    println!("findings {:?}", dec.findings);
    for o in &dec.objects { println!("{} {:?}", o.path, o.clusters); }
}
