use fatfs_verif::props::c03dots::*;
use fatfs_verif::vol::VolCfg;
fn main() {
    for p in [1usize, 12] {
        for op in dot_ops() {
            let c = DotCase { vol: VolCfg::from_preset(p), ops: vec![op.clone()] };
            if let Some(v) = eval(&c).violation { println!("FAT{} {}", c.vol.fat, &v[..v.len().min(230)]); }
        }
    }
}
