use std::io::Cursor;
fn main() {
    let mut img = fatfs::StdIoWrapper::new(Cursor::new(vec![0u8; 1 << 20]));
    fatfs::format_volume(&mut img, fatfs::FormatVolumeOptions::new()).unwrap();
    let fs = fatfs::FileSystem::new(img, fatfs::FsOptions::new()).unwrap();
    let root = fs.root_dir();
    let s128 = "s".repeat(128);
    root.create_file(&s128).unwrap();
    let long_s = "\u{17f}".repeat(128); // 256 bytes
    println!("create_file(256-byte name folding onto an existing one): {:?}", root.create_file(&long_s).map(|_| ()));
    println!("create_dir: {:?}", root.create_dir(&long_s).map(|_| ()));
    root.create_file("other").unwrap();
    println!("rename onto it: {:?}", root.rename("other", &root, &long_s));
    let s300 = "S".repeat(128) + ":";
    println!("open with invalid char: {:?}", root.create_file(&s300).map(|_| ()));
    let n = root.iter().count();
    println!("entries {}", n);
}
