use fatfs_verif::ops::{Op, Run};
use fatfs_verif::vol::VolCfg;
fn main() {
    let mut v = VolCfg::from_preset(12);
    v.free_lo = Some(0);
    v.free_hi = 40;
    let cs = v.cluster_size();
    let hp = fatfs_verif::props::hist_prop("C02").unwrap();
    let of = |p: &str, k: u8| Op::OpenFile { via: 0, path: p.into(), keep: k };
    let ops = vec![
        Op::CreateFile { via: 0, path: "emptied.bin".into(), keep: 1 },
        Op::Write { h: 0, len: cs, seed: 1 },
        Op::Write { h: 0, len: 5, seed: 3 },
        Op::CloseFile { h: 0 },
        of("emptied.bin", 1),
        Op::Truncate { h: 0 },
        Op::CloseFile { h: 0 },
        of("emptied.bin", 1),
        Op::Write { h: 0, len: 20, seed: 4 },
        Op::CloseFile { h: 0 },
    ];
    let mut run = Run::new(&hp.run_cfg, &v).unwrap();
    println!("maxc {}", run.geom.max_cluster());
    for (i, op) in ops.iter().enumerate() {
        let r = run.exec(i, op);
        println!("{:?} -> {:?}", op, r.map_err(|e| e.msg));
        let dec = run.dev.with_store(|s| fatfs_verif::refdec::decode(s, fatfs_verif::refdec::DecodeOpts::default())).unwrap();
        for e in &dec.root.entries { println!("   {:?} first {} size {} clusters {:?}", String::from_utf16_lossy(&e.visible_units()), e.first_cluster, e.size, e.clusters); }
    }
    println!("finish {:?}", run.finish().map_err(|e| e.msg));
}
