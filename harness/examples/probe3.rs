use fatfs_verif::gen::Case;
use fatfs_verif::ops::{Op, Run};
fn main() {
    let v: serde_json::Value = serde_json::from_str(&std::fs::read_to_string(std::env::args().nth(1).unwrap()).unwrap()).unwrap();
    let case: Case = serde_json::from_value(v["case"].clone()).unwrap();
    let hp = fatfs_verif::props::hist_prop("C10").unwrap();
    let mut run = Run::new(&hp.run_cfg, &case.vol).unwrap();
    for (i, op) in case.ops.iter().enumerate() {
        if matches!(op, Op::Truncate { .. }) {
            run.dev.with(|d| { d.log_calls = true; d.log.clear(); });
        }
        let r = run.exec(i, op);
        if matches!(op, Op::Truncate { .. }) {
            let (log, fired) = run.dev.with(|d| (d.log.clone(), d.fired));
            for c in log { println!("{:?}", c); }
            println!("fired {:?}", fired);
        }
        if let Err(e) = r { println!("VIOL {}", e.msg); break; }
    }
}
