use fatfs_verif::ops::{Op, Run};
use fatfs_verif::vol::VolCfg;
fn main() {
    let mut hp = fatfs_verif::props::hist_prop("C11").unwrap();
    hp.run_cfg.lenient_mount = true;
    for fsinfo in [0u16, 0xFFFF] {
        let mut v = VolCfg::from_gen_preset(5);
        if let Some(g) = v.gen.as_mut() { g.fsinfo = fsinfo; g.mirror_off = None; g.root_cluster = 2; }
        match Run::new(&hp.run_cfg, &v) {
            Ok(mut r) => { println!("fsinfo {:#x}: mounted", fsinfo); let x = r.exec(0, &Op::CreateDir { via: 0, path: "d".into(), keep: 0 }); println!("  mkdir {:?}", x.map_err(|e| e.msg)); println!("  finish {:?}", r.finish().map_err(|e| e.msg)); }
            Err(e) => println!("fsinfo {:#x}: {}", fsinfo, e),
        }
    }
}
