//! featdrv: executes scripted histories against fatfs compiled with the feature set of this build and prints an
//! observation trace. Uses only API that exists in every feature set (no String-returning accessors).
//!
//! Input (stdin), one command per line, names hex-encoded UTF-8:
//!   H <id> <kind>      start a history on a fresh volume (kind 0: FAT12 400 sectors/32 root entries, 1: FAT16)
//!   C/D/O/P/R <name>   create_file / create_dir / open_file / open_dir / remove
//!   M <src> <dst>      rename within the root directory handle
//!   L <path>           list directory (empty path = root)
//!   G <hexbytes>       overwrite the start of the fixed root directory region with raw slots, then list the root
//!   E                  end of history: prints the image hash
use fatfs::{IoBase, Read, Seek, SeekFrom, Write};
use std::io::BufRead;

struct Dev {
    data: std::rc::Rc<std::cell::RefCell<Vec<u8>>>,
    pos: u64,
}
impl IoBase for Dev {
    type Error = ();
}
impl Read for Dev {
    fn read(&mut self, buf: &mut [u8]) -> Result<usize, ()> {
        let d = self.data.borrow();
        let len = d.len() as u64;
        if self.pos >= len {
            return Ok(0);
        }
        let n = (buf.len() as u64).min(len - self.pos) as usize;
        buf[..n].copy_from_slice(&d[self.pos as usize..self.pos as usize + n]);
        self.pos += n as u64;
        Ok(n)
    }
}
impl Write for Dev {
    fn write(&mut self, buf: &[u8]) -> Result<usize, ()> {
        let mut d = self.data.borrow_mut();
        let len = d.len() as u64;
        if self.pos >= len {
            return Ok(0);
        }
        let n = (buf.len() as u64).min(len - self.pos) as usize;
        d[self.pos as usize..self.pos as usize + n].copy_from_slice(&buf[..n]);
        self.pos += n as u64;
        Ok(n)
    }
    fn flush(&mut self) -> Result<(), ()> {
        Ok(())
    }
}
impl Seek for Dev {
    fn seek(&mut self, pos: SeekFrom) -> Result<u64, ()> {
        let len = self.data.borrow().len() as i128;
        let np = match pos {
            SeekFrom::Start(x) => x as i128,
            SeekFrom::Current(x) => self.pos as i128 + x as i128,
            SeekFrom::End(x) => len + x as i128,
        };
        if np < 0 {
            return Err(());
        }
        self.pos = np as u64;
        Ok(self.pos)
    }
}

type Fs = fatfs::FileSystem<Dev, fatfs::NullTimeProvider, fatfs::LossyOemCpConverter>;

fn unhex(s: &str) -> Vec<u8> {
    let b = s.as_bytes();
    (0..b.len() / 2).map(|i| u8::from_str_radix(std::str::from_utf8(&b[2 * i..2 * i + 2]).unwrap(), 16).unwrap()).collect()
}
fn hex(b: &[u8]) -> String {
    b.iter().map(|x| format!("{:02x}", x)).collect()
}
fn name_of(s: &str) -> String {
    String::from_utf8(unhex(s)).unwrap()
}
fn err_name<T>(e: &fatfs::Error<T>) -> &'static str {
    match e {
        fatfs::Error::Io(_) => "Io",
        fatfs::Error::UnexpectedEof => "UnexpectedEof",
        fatfs::Error::WriteZero => "WriteZero",
        fatfs::Error::InvalidInput => "InvalidInput",
        fatfs::Error::NotFound => "NotFound",
        fatfs::Error::AlreadyExists => "AlreadyExists",
        fatfs::Error::DirectoryIsNotEmpty => "DirectoryIsNotEmpty",
        fatfs::Error::CorruptedFileSystem => "CorruptedFileSystem",
        fatfs::Error::NotEnoughSpace => "NotEnoughSpace",
        fatfs::Error::InvalidFileNameLength => "InvalidFileNameLength",
        fatfs::Error::UnsupportedFileNameCharacter => "UnsupportedFileNameCharacter",
        _ => "Other",
    }
}
fn res<T, E>(r: &Result<T, fatfs::Error<E>>) -> &'static str {
    match r {
        Ok(_) => "ok",
        Err(e) => err_name(e),
    }
}
fn fnv(data: &[u8]) -> u64 {
    let mut h: u64 = 0xcbf29ce484222325;
    for b in data {
        h ^= *b as u64;
        h = h.wrapping_mul(0x100000001b3);
    }
    h
}

fn list(out: &mut String, dir: &fatfs::Dir<Dev, fatfs::NullTimeProvider, fatfs::LossyOemCpConverter>) {
    let mut n = 0;
    for e in dir.iter() {
        n += 1;
        if n > 5000 {
            out.push_str(" ENDLESS");
            break;
        }
        match e {
            Err(e) => {
                out.push_str(&format!(" ERR:{}", err_name(&e)));
                break;
            }
            Ok(e) => {
                let lfn: String = match e.long_file_name_as_ucs2_units() {
                    Some(u) => u.iter().map(|x| format!("{:04x}", x)).collect(),
                    None => "-".into(),
                };
                out.push_str(&format!(" [{} {} {} {} {:02x}]", hex(e.short_file_name_as_bytes()), lfn, e.len(), e.is_dir() as u8, e.attributes().bits()));
            }
        }
    }
}

fn main() {
    let stdin = std::io::stdin();
    let mut data: Option<std::rc::Rc<std::cell::RefCell<Vec<u8>>>> = None;
    let mut fs: Option<Fs> = None;
    let mut out = String::new();
    let mut root_off: usize = 0;
    let mut fat_off: usize = 0;
    let mut fat_len: usize = 0;
    let mut is32 = false;
    for line in stdin.lock().lines() {
        let line = line.unwrap();
        let parts: Vec<&str> = line.split(' ').collect();
        let arg = |i: usize| parts.get(i).copied().unwrap_or("");
        match parts[0] {
            "H" => {
                let kind: u32 = arg(2).parse().unwrap_or(0);
                // kinds 2 and 3: tables of more than 64 KiB (FAT16 with 40000 clusters, FAT32)
                let (sectors, rootent, ft) = match kind {
                    0 => (400u32, 32u16, fatfs::FatType::Fat12),
                    1 => (5000u32, 512u16, fatfs::FatType::Fat16),
                    2 => (40_000u32, 512u16, fatfs::FatType::Fat16),
                    _ => (70_000u32, 0u16, fatfs::FatType::Fat32),
                };
                let buf = std::rc::Rc::new(std::cell::RefCell::new(vec![0xD1u8; sectors as usize * 512]));
                let mut dev = Dev { data: buf.clone(), pos: 0 };
                let mut fo = fatfs::FormatVolumeOptions::new().total_sectors(sectors).bytes_per_cluster(512).fat_type(ft).fats(2);
                if rootent != 0 {
                    fo = fo.max_root_dir_entries(rootent);
                }
                fatfs::format_volume(&mut dev, fo).expect("format");
                // root directory offset, read from the BPB: (reserved + 2 FATs) * 512 (FAT32: cluster 2 behind them)
                {
                    let d = buf.borrow();
                    let rsvd = u16::from_le_bytes([d[14], d[15]]) as usize;
                    let spf16 = u16::from_le_bytes([d[22], d[23]]) as usize;
                    let spf = if spf16 != 0 { spf16 } else { u32::from_le_bytes([d[36], d[37], d[38], d[39]]) as usize };
                    root_off = (rsvd + 2 * spf) * 512;
                    fat_off = rsvd * 512;
                    fat_len = spf * 512;
                    is32 = spf16 == 0;
                }
                let dev = Dev { data: buf.clone(), pos: 0 };
                fs = Some(fatfs::FileSystem::new(dev, fatfs::FsOptions::new().time_provider(fatfs::NullTimeProvider::new())).expect("mount"));
                data = Some(buf);
                out.push_str(&format!("H {}\n", arg(1)));
            }
            "E" => {
                drop(fs.take());
                let h = fnv(&data.as_ref().unwrap().borrow());
                out.push_str(&format!("IMG {:016x}\n", h));
            }
            "X" => {
                // FAT32: what another writer may leave - reserved upper bits in free table entries (both copies) and an
                // "unknown" free count in the information sector; remount
                drop(fs.take());
                if is32 {
                    let mut d = data.as_ref().unwrap().borrow_mut();
                    for c in 0..40usize {
                        let cl = 2000 + c * 7;
                        for copy in 0..2usize {
                            let o = fat_off + copy * fat_len + cl * 4;
                            if d[o] == 0 && d[o + 1] == 0 && d[o + 2] == 0 && d[o + 3] & 0x0F == 0 {
                                d[o + 3] |= 0xA0;
                            }
                        }
                    }
                    d[512 + 488..512 + 492].copy_from_slice(&0xFFFF_FFFFu32.to_le_bytes());
                }
                let dev = Dev { data: data.as_ref().unwrap().clone(), pos: 0 };
                fs = Some(fatfs::FileSystem::new(dev, fatfs::FsOptions::new().time_provider(fatfs::NullTimeProvider::new())).expect("mount"));
                out.push_str("X\n");
            }
            "S" => {
                let f = fs.as_ref().expect("history started");
                match f.stats() {
                    Ok(st) => out.push_str(&format!("S {} {} {}\n", st.total_clusters(), st.free_clusters(), st.cluster_size())),
                    Err(e) => out.push_str(&format!("S ERR:{}\n", err_name(&e))),
                }
            }
            "G" => {
                // raw slots into the root directory region; remount so nothing is cached
                drop(fs.take());
                let bytes = unhex(arg(1));
                {
                    let mut d = data.as_ref().unwrap().borrow_mut();
                    for b in d[root_off..root_off + 32 * 32].iter_mut() {
                        *b = 0;
                    }
                    let n = bytes.len().min(32 * 32);
                    d[root_off..root_off + n].copy_from_slice(&bytes[..n]);
                }
                let dev = Dev { data: data.as_ref().unwrap().clone(), pos: 0 };
                fs = Some(fatfs::FileSystem::new(dev, fatfs::FsOptions::new().time_provider(fatfs::NullTimeProvider::new())).expect("mount"));
                let f = fs.as_ref().unwrap();
                let mut l = String::from("G");
                list(&mut l, &f.root_dir());
                out.push_str(&l);
                out.push('\n');
            }
            c => {
                let f = fs.as_ref().expect("history started");
                let root = f.root_dir();
                let line_out = match c {
                    "C" => format!("C {}", res(&root.create_file(&name_of(arg(1))))),
                    "D" => format!("D {}", res(&root.create_dir(&name_of(arg(1))))),
                    "O" => format!("O {}", res(&root.open_file(&name_of(arg(1))))),
                    "P" => format!("P {}", res(&root.open_dir(&name_of(arg(1))))),
                    "R" => format!("R {}", res(&root.remove(&name_of(arg(1))))),
                    "M" => format!("M {}", res(&root.rename(&name_of(arg(1)), &root, &name_of(arg(2))))),
                    "L" => {
                        let p = name_of(arg(1));
                        let mut l = String::from("L");
                        if p.is_empty() {
                            list(&mut l, &root);
                        } else {
                            match root.open_dir(&p) {
                                Ok(d) => list(&mut l, &d),
                                Err(e) => l.push_str(&format!(" OPENERR:{}", err_name(&e))),
                            }
                        }
                        l
                    }
                    _ => format!("? {}", c),
                };
                out.push_str(&line_out);
                out.push('\n');
            }
        }
        if out.len() > 1 << 20 {
            print!("{}", out);
            out.clear();
        }
    }
    print!("{}", out);
}
